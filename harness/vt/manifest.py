"""Regenerate /verif/MANIFEST.json from the property modules' META dicts.
   Run: PYTHONPATH=/repo:/verif/harness /venv/bin/python -m vt.manifest"""
import importlib
import json
import os

ROOT = '/verif'
ALL = ['C%02d' % i for i in range(1, 21)]
NOT_BUILT_REASON = ('check not built yet in this round (the design in DESIGN.md section 6 applies; '
                    'no claim is made until the model, theorems and correspondence exist)')


def main():
    checks = []
    na = []
    served = []
    for pid in ALL:
        path = os.path.join(ROOT, 'harness/vt/props/%s.py' % pid.lower())
        props_v = os.path.join(ROOT, 'coq/Props/%s.v' % pid)
        if not (os.path.exists(path) and os.path.exists(props_v)):
            na.append({'property_id': pid, 'reason': NOT_BUILT_REASON})
            continue
        mod = importlib.import_module('vt.props.' + pid.lower())
        meta = getattr(mod, 'META', None)
        if not meta or meta.get('disabled'):
            na.append({'property_id': pid, 'reason': (meta or {}).get('reason', NOT_BUILT_REASON)})
            continue
        served.append(pid)
        checks.append({
            'property_id': pid,
            'quick_cmd': './check %s --tier quick' % pid,
            'thorough_cmd': './check %s --tier thorough' % pid,
            'evidence_file': 'evidence/%s.json' % pid,
            'replay_cmd_template': './check %s --replay {path}' % pid,
            'engine': 'coq-proof+correspondence',
            'level_claimed': {'category': 'proof', 'text': meta['level_text'],
                              'design_ref': meta.get('design_ref', 'DESIGN.md section 6, ' + pid)},
            'level_note': meta['level_note'],
            'technique': meta.get('technique', 'machine-checked proof in Coq 8.16.1 about a Gallina model, '
                                  'tied to /repo by differential correspondence and regenerated constants'),
        })
    man = {
        'version': 1,
        'setup_cmd': './setup.sh',
        'hooks': {
            'guard': 'NOTE_SEQ_VERIF',
            'enable': 'no source hooks are needed: every anchored function is importable; checks set NOTE_SEQ_VERIF=1 and PYTHONPATH=/repo',
            'baseline_off_cmd': 'cd /repo && /venv/bin/python -m pytest -ra -q -p no:cacheprovider --timeout=900 --continue-on-collection-errors',
            'source_commits': [],
            'add_only': True,
        },
        'engines': [{
            'name': 'coq-proof+correspondence',
            'path': 'harness/vt/engine.py',
            'serves_properties': served,
            'kind_free_text': ('Coq 8.16.1 theorems (coq/Props/Cxx.v) about hand-written Gallina models (coq/Model), '
                               're-checked on every run against constants regenerated from /repo (coq/Gen), plus a '
                               'differential correspondence run of the extracted model (OCaml) or vm_compute against '
                               'the real note_seq functions, plus the theorem statement evaluated as an oracle on the '
                               'implementation to find a concrete failing input'),
        }],
        'checks': checks,
        'not_applicable': na,
        'notes': 'See DESIGN.md. known_findings.json lists recorded defects; replays/ holds replay files written by failing runs.',
    }
    with open(os.path.join(ROOT, 'MANIFEST.json'), 'w') as f:
        json.dump(man, f, indent=1)
    print('MANIFEST.json: %d checks, %d not_applicable' % (len(checks), len(na)))


if __name__ == '__main__':
    main()
