"""Engine shared by every property check.

  ./check Cxx [--tier quick|thorough] [--replay FILE] [--seed N] [--cases N]

A check passes iff
  (a) coq/Props/Cxx.vo and everything below it re-compile from the constants
      regenerated from /repo *now*, with only allow-listed axioms, and
  (b) the implementation in /repo and the Gallina model agree on every
      generated case, and
  (c) the property oracle (the theorem's statement evaluated on the
      implementation's own output) holds on every generated case, except for
      failures listed in known_findings.json.
On (a) or (b) failing the engine still runs the oracle over all cases to find a
concrete failing input for the replay; if none is found the VIOLATION line
ends with no-failing-input-found.
"""
import argparse
import glob
import hashlib
import importlib
import json
import os
import random
import re
import subprocess
import sys
import time
import traceback

from vt import sx

ROOT = os.environ.get('VERIF_ROOT', '/verif')   # developer override (scratch copy of /verif); registered commands never set it
COQ = os.path.join(ROOT, 'coq')
BUILD = os.path.join(ROOT, 'build')
REPO = os.environ.get('VERIF_REPO', '/repo')
LOGICAL = 'NS'

ALLOWED_AXIOM_PREFIXES = (
    # primitive machine types / operations (not axioms of ours; listed by Print Assumptions)
    'PrimFloat.', 'PrimInt63.', 'Uint63.', 'Sint63.', 'FloatAxioms.', 'FloatOps.',
    'Uint63Axioms.', 'PrimString.',
    # declared by the standard library (Reals / classical logic / extensionality)
    'ClassicalDedekindReals.sig_forall_dec', 'ClassicalDedekindReals.sig_not_dec',
    'FunctionalExtensionality.functional_extensionality_dep',
    'Classical_Prop.classic', 'Eqdep.Eq_rect_eq.eq_rect_eq',
    'ProofIrrelevance.proof_irrelevance', 'JMeq.JMeq_eq',
    'Raxioms.', 'Rdefinitions.', 'ClassicalEpsilon.constructive_indefinite_description',
    'PropExtensionality.propositional_extensionality',
)
# short names as Print Assumptions prints them when unambiguous
ALLOWED_AXIOM_SHORT = {
    'sig_forall_dec', 'sig_not_dec', 'functional_extensionality_dep', 'classic',
    'eq_rect_eq', 'proof_irrelevance', 'JMeq_eq', 'constructive_indefinite_description',
    'propositional_extensionality',
    # FloatAxioms / primitives
    'float', 'int', 'mul_spec', 'add_spec', 'sub_spec', 'div_spec', 'sqrt_spec', 'opp_spec',
    'abs_spec', 'ltb_spec', 'leb_spec', 'eqb_spec', 'compare_spec', 'classify_spec',
    'Prim2SF_valid', 'SF2Prim_Prim2SF', 'Prim2SF_SF2Prim', 'Prim2SF_inj', 'SF2Prim_inj',
    'of_uint63_spec', 'normfr_mantissa_spec', 'frshiftexp_spec', 'ldshiftexp_spec',
    'next_up_spec', 'next_down_spec', 'Leibniz.eqb_spec',
    # primitive float / int63 operations printed unqualified when Floats is imported (kernel primitives, not axioms of ours;
    # a development-local declaration of any of these names would be caught by the forbidden-vernacular scan)
    'sub', 'mul', 'add', 'div', 'opp', 'abs', 'sqrt', 'ltb', 'leb', 'eqb', 'compare', 'classify', 'of_uint63',
    'normfr_mantissa', 'frshiftexp', 'ldshiftexp', 'next_up', 'next_down', 'float_class', 'float_comparison',
    'lsl', 'lsr', 'land', 'lor', 'lxor', 'mod', 'mulc', 'diveucl', 'addc', 'subc', 'addcarryc', 'subcarryc',
    'head0', 'tail0', 'compares', 'ltsb', 'lesb', 'asr', 'divs', 'mods', 'diveucl_21', 'addmuldiv', 'of_sint63',
}

BAD_WORDS = re.compile(
    r'\b(Admitted|admit|Axiom|Axioms|Parameter|Parameters|Conjecture|Conjectures|'
    r'Hypothesis|Hypotheses|Variable|Variables|Unset\s+Guard|bypass_check|'
    r'type-in-type|impredicative-set|Admit\s+Obligations|Unset\s+Universe\s+Checking|'
    r'Unset\s+Positivity|native_compute)\b')


def log(*a):
    print(*a, flush=True)


def sh(cmd, cwd=None, timeout=3600, env=None, input=None):
    p = subprocess.run(cmd, cwd=cwd, shell=isinstance(cmd, str), stdout=subprocess.PIPE,
                       stderr=subprocess.STDOUT, timeout=timeout, env=env, input=input,
                       text=True)
    return p.returncode, p.stdout


# --------------------------------------------------------------------------
# Coq project handling
# --------------------------------------------------------------------------
def strip_coq_comments(text):
    out = []
    depth = 0
    i = 0
    n = len(text)
    in_str = False
    while i < n:
        if depth == 0 and text[i] == '"':
            in_str = not in_str
            out.append(text[i]); i += 1; continue
        if not in_str and text.startswith('(*', i):
            depth += 1; i += 2; continue
        if not in_str and depth > 0 and text.startswith('*)', i):
            depth -= 1; i += 2; continue
        if depth == 0:
            out.append(text[i])
        i += 1
    return ''.join(out)


def coq_files():
    fs = []
    for d in ('Base', 'Gen', 'Model', 'Proofs', 'Props', 'Run'):
        fs += sorted(glob.glob(os.path.join(COQ, d, '*.v')))
    return [os.path.relpath(f, COQ) for f in fs]


def write_if_changed(path, text):
    try:
        with open(path) as f:
            if f.read() == text:
                return False
    except FileNotFoundError:
        pass
    os.makedirs(os.path.dirname(path), exist_ok=True)
    tmp = path + '.tmp%d' % os.getpid()
    with open(tmp, 'w') as f:
        f.write(text)
    os.replace(tmp, path)
    return True


def ensure_makefile():
    proj = '-Q . %s\n-arg -w -arg -notation-overridden,-deprecated,-ambiguous-paths\n' % LOGICAL + \
        '\n'.join(coq_files()) + '\n'
    os.makedirs(BUILD, exist_ok=True)
    changed = write_if_changed(os.path.join(COQ, '_CoqProject'), proj)
    if changed or not os.path.exists(os.path.join(COQ, 'Makefile')):
        rc, out = sh('flock %s coq_makefile -f _CoqProject -o Makefile' % os.path.join(BUILD, '.makefile.lock'), cwd=COQ)
        if rc != 0:
            raise RuntimeError('coq_makefile failed:\n' + out)


def regenerate_all_gen():
    """Regenerate every coq/Gen/Gxx.v from /repo (used by setup)."""
    errs = {}
    try:
        regenerate_tr()
    except Exception as e:  # noqa
        errs['Tr'] = ''.join(traceback.format_exception_only(type(e), e))
    for f in sorted(glob.glob(os.path.join(ROOT, 'harness/vt/props/c[0-9][0-9].py'))):
        pid = os.path.basename(f)[:-3].upper()
        try:
            regenerate_gen(pid)
        except Exception as e:  # noqa
            errs[pid] = ''.join(traceback.format_exception_only(type(e), e))
    return errs


def regenerate_tr():
    """coq/Gen/Tr.v: Gallina re-translated from the source text of selected note_seq functions (vt/pytr.py)."""
    from vt import pytr
    importlib.reload(pytr)
    write_if_changed(os.path.join(COQ, 'Gen', 'Tr.v'), pytr.generate())
    write_if_changed(os.path.join(COQ, 'Gen', 'TrF.v'), pytr.generate_float())
    write_if_changed(os.path.join(COQ, 'Gen', 'TrS.v'), pytr.generate_state())


def regenerate_gen(pid):
    mod = importlib.import_module('vt.props.' + pid.lower())
    if hasattr(mod, 'gen_coq'):
        text = mod.gen_coq()
        hdr = '(* GENERATED from /repo by harness/vt/props/%s.py:gen_coq on every run. Do not edit. *)\n' % pid.lower()
        write_if_changed(os.path.join(COQ, 'Gen', 'G%s.v' % pid[1:]), hdr + text)


def make_target(target, jobs=16, timeout=3000):
    os.makedirs(BUILD, exist_ok=True)
    tname = re.sub(r'\W', '_', target or 'all')
    if len(tname) > 80:
        tname = 'multi_' + hashlib.sha1(target.encode()).hexdigest()[:16]
    lock = os.path.join(BUILD, '.make.%s.lock' % tname)
    # refresh the dependency file under one global lock so that concurrent checks never
    # rewrite .Makefile.d at the same time
    sh('flock %s timeout 300 make .Makefile.d 2>&1' % os.path.join(BUILD, '.makefile.lock'), cwd=COQ, timeout=400)
    # one build at a time across concurrent checks: two makes with different target sets must never compile the
    # same shared dependency simultaneously (builds are incremental, so this costs nothing on a warm tree)
    lock = os.path.join(BUILD, '.make.global.lock')
    cmd = 'flock %s timeout %d make -j%d %s 2>&1' % (lock, timeout, jobs, target)
    return sh(cmd, cwd=COQ, timeout=timeout + 600)


def scan_forbidden(files=None):
    hits = []
    for rel in (files if files is not None else coq_files()):
        with open(os.path.join(COQ, rel)) as f:
            body = strip_coq_comments(f.read())
        for m in BAD_WORDS.finditer(body):
            word = m.group(1)
            line = body.count('\n', 0, m.start()) + 1
            # Variable/Hypothesis inside a Section are allowed (checked coarsely:
            # a Section header must precede and no matching End yet)
            if word in ('Variable', 'Variables', 'Hypothesis', 'Hypotheses'):
                pre = body[:m.start()]
                opened = len(re.findall(r'^\s*Section\s+\w+\s*\.', pre, re.M))
                closed = len(re.findall(r'^\s*End\s+\w+\s*\.', pre, re.M))
                mods = len(re.findall(r'^\s*Module\s+(Type\s+)?\w+', pre, re.M))
                if opened > 0 and opened > closed - mods:
                    continue
            hits.append('%s:%d:%s' % (rel, line, word))
    return hits


THM_RE = re.compile(r'^\s*(Theorem|Lemma|Corollary|Example|Fact|Proposition)\s+([\w\']+)', re.M)


def count_lemmas(rel):
    with open(os.path.join(COQ, rel)) as f:
        body = strip_coq_comments(f.read())
    return [m.group(2) for m in THM_RE.finditer(body)]


def deps_of(rel):
    """Transitive project-local .v dependencies of coq/<rel> (via coqdep)."""
    rc, out = sh('coqdep -Q . %s %s' % (LOGICAL, ' '.join(coq_files())), cwd=COQ)
    graph = {}
    for line in out.splitlines():
        if ':' not in line:
            continue
        lhs, rhs = line.split(':', 1)
        tgt = [t for t in lhs.split() if t.endswith('.vo')]
        if not tgt:
            continue
        src = tgt[0][:-1]
        graph[src] = [d[:-1] for d in rhs.split() if d.endswith('.vo')]
    seen = []
    todo = [rel]
    while todo:
        x = todo.pop()
        if x in seen:
            continue
        seen.append(x)
        todo += graph.get(x, [])
    return seen


def parse_assumptions(out):
    """Split coqc output into Print Assumptions blocks -> list of lists of axiom names."""
    blocks = []
    cur = None
    for line in out.splitlines():
        if line.startswith('Closed under the global context'):
            blocks.append([]); cur = None
        elif line.startswith('Axioms:'):
            cur = []; blocks.append(cur)
        elif cur is not None:
            m = re.match(r'^([\w\.\']+)\s*:', line)
            if m:
                cur.append(m.group(1))
            elif line and not line[0].isspace():
                cur = None
    return blocks


def axiom_allowed(name):
    if name in ALLOWED_AXIOM_SHORT:
        return True
    short = name.split('.')[-1]
    if any(name.startswith(p) for p in ALLOWED_AXIOM_PREFIXES):
        return True
    return short in ALLOWED_AXIOM_SHORT


def run_coqchk(pid, info, problems):
    """Thorough tier: re-check Props/Cxx.vo and everything below it with the independent checker."""
    t0 = time.time()
    rc, out = sh('timeout 3000 coqchk -silent -o -Q . %s %s.Props.%s 2>&1' % (LOGICAL, LOGICAL, pid), cwd=COQ, timeout=3100)
    info['coqchk_rc'] = rc
    info['coqchk_wall_s'] = round(time.time() - t0, 1)
    tail = out.strip().splitlines()[-60:]
    info['coqchk_tail'] = tail
    if rc != 0:
        problems.append('coqchk failed on Props/%s.vo: %s' % (pid, ' | '.join(tail[-5:])))


def check_proofs(pid, res, tier='quick'):
    """Step (a).  Fills res['proof'] and returns list of problems (strings)."""
    problems = []
    info = {'theorems': [], 'assumptions': {}, 'obligations': 0, 'discharged': 0}
    res['proof'] = info
    rel = 'Props/%s.v' % pid
    t0 = time.time()
    try:
        regenerate_gen(pid)
    except Exception as e:  # generation is fail-closed
        problems.append('Gen/G%s.v could not be regenerated from /repo: %s' % (
            pid[1:], ''.join(traceback.format_exception_only(type(e), e)).strip()))
    ensure_makefile()
    deps = deps_of(rel)
    # the whole dependency cone of the property file and of the model runner is scanned
    cone = sorted(set(deps) | set(deps_of('Run/%s.v' % pid)))
    # every generated file in the cone (also those of the properties whose models are re-used) is regenerated
    # from /repo as it is now
    if 'Gen/Tr.v' in cone or 'Gen/TrF.v' in cone or 'Gen/TrS.v' in cone:
        try:
            regenerate_tr()
            from vt import pytr
            # fail closed PER TARGET: an unreadable function breaks exactly the obligations that mention it
            texts = ''
            for d in sorted(set(cone) | {rel}):
                fp = os.path.join(COQ, d)
                if os.path.exists(fp) and not d.startswith('Gen/Tr'):
                    texts += open(fp).read()
            for cn, why in sorted(pytr.FAILURES.items()):
                if re.search(r'(?<![\w.])%s(?![\w])' % re.escape(cn), texts):
                    problems.append('%s (Gen/Tr*.v) could not be re-translated from the source of /repo: %s' % (cn, why))
        except Exception as e:   # the translator is fail-closed: an unsupported construct is a broken tie
            problems.append('Gen/Tr.v could not be re-translated from the source of /repo: %s' % (
                ''.join(traceback.format_exception_only(type(e), e)).strip()))
    for d in cone:
        m = re.match(r'Gen/G(\d+)\.v$', d)
        if m and ('C' + m.group(1)) != pid:
            try:
                regenerate_gen('C' + m.group(1))
            except Exception as e:
                problems.append('Gen/G%s.v could not be regenerated from /repo: %s' % (
                    m.group(1), ''.join(traceback.format_exception_only(type(e), e)).strip()))
    info['source_translated'] = [d for d in cone if d in ('Gen/Tr.v', 'Gen/TrF.v', 'Gen/TrS.v')]
    hits = scan_forbidden([d for d in cone if os.path.exists(os.path.join(COQ, d))])
    if hits:
        problems.append('forbidden vernacular in development: ' + ', '.join(hits[:10]))
    # build everything below the property file with make, then compile the property file itself ONCE with coqc,
    # capturing its Print Assumptions output (it is the most expensive file of a float property)
    below = [d + 'o' for d in deps if d != rel]
    rc, out = make_target(' '.join(below)) if below else (0, '')
    out2 = ''
    if rc == 0:
        rc, out2 = sh('flock %s timeout 1500 coqc -Q . %s -w -notation-overridden,-deprecated,-ambiguous-paths %s 2>&1' % (
            os.path.join(BUILD, '.make.%s.lock' % re.sub(r'\W', '_', rel + 'o')), LOGICAL, rel), cwd=COQ, timeout=1600)
        out = out + out2
    info['make_rc'] = rc
    lemma_files = [d for d in deps if d.startswith('Proofs/') or d.startswith('Props/')]
    all_lemmas = {d: count_lemmas(d) for d in lemma_files}
    info['obligations'] = sum(len(v) for v in all_lemmas.values())
    if rc != 0:
        tail = '\n'.join(out.splitlines()[-40:])
        m = re.search(r'File "\./([^"]+)", line (\d+)', out)
        where = '%s:%s' % (m.group(1), m.group(2)) if m else '?'
        broken = None
        if m:
            # name the lemma enclosing the failing line
            try:
                with open(os.path.join(COQ, m.group(1))) as f:
                    lines = f.read().splitlines()
                for i in range(int(m.group(2)) - 1, -1, -1):
                    mm = THM_RE.match(lines[i])
                    if mm:
                        broken = mm.group(2); break
            except Exception:
                pass
        info['broken_at'] = where
        info['broken_lemma'] = broken
        info['make_tail'] = tail
        problems.append('proof obligation no longer checks: %s (%s)' % (broken or '?', where))
        for d, ls in all_lemmas.items():
            vo = os.path.join(COQ, d + 'o')
            if os.path.exists(vo) and os.path.getmtime(vo) >= os.path.getmtime(os.path.join(COQ, d)):
                info['discharged'] += len(ls)
    else:
        info['discharged'] = info['obligations']
        rc2 = 0
        thms = all_lemmas.get(rel, [])
        info['theorems'] = thms
        blocks = parse_assumptions(out2)
        if rc2 != 0:
            problems.append('coqc %s failed: %s' % (rel, out2[-2000:]))
        elif len(blocks) < len(thms) or not thms:
            problems.append('%s: %d theorems but %d Print Assumptions blocks' % (rel, len(thms), len(blocks)))
        else:
            for name, ax in zip(thms, blocks):
                info['assumptions'][name] = ax
                bad = [a for a in ax if not axiom_allowed(a)]
                if bad:
                    problems.append('theorem %s depends on non-allow-listed axioms: %s' % (name, bad))
    if tier == 'thorough' and not problems:
        run_coqchk(pid, info, problems)
    info['wall_s'] = round(time.time() - t0, 2)
    return problems


# --------------------------------------------------------------------------
# Source fingerprints (never an alarm by themselves: they only escalate the case budget)
# --------------------------------------------------------------------------
def anchored_files(pid):
    try:
        with open(os.path.join(ROOT, 'properties.jsonl')) as f:
            for line in f:
                d = json.loads(line)
                if d.get('id') == pid:
                    return list(d.get('anchors', {}).get('files', []))
    except Exception:
        pass
    return []


def fingerprint(path):
    import ast
    try:
        with open(path) as f:
            tree = ast.parse(f.read())
        return hashlib.sha1(ast.dump(tree, include_attributes=False).encode()).hexdigest()[:16]
    except Exception as e:
        return 'unparsable:%s' % type(e).__name__


def fingerprints_now(pid):
    return {f: fingerprint(os.path.join(REPO, f)) for f in anchored_files(pid)}


def fingerprints_changed(pid):
    try:
        with open(os.path.join(ROOT, 'harness/vt/fingerprints.json')) as f:
            base = json.load(f)
    except Exception:
        return [], {}
    now = fingerprints_now(pid)
    changed = [f for f, h in now.items() if f in base and base[f] != h]
    return changed, now


# --------------------------------------------------------------------------
# Running the model
# --------------------------------------------------------------------------
def build_runner(pid):
    """Extract Run/Cxx.run to OCaml and compile it with the generic driver."""
    rel = 'Run/%s.v' % pid
    rc, out = make_target(rel + 'o')
    if rc != 0:
        raise RuntimeError('model %s does not compile:\n%s' % (rel, '\n'.join(out.splitlines()[-30:])))
    d = os.path.join(BUILD, 'ocaml', pid)
    os.makedirs(d, exist_ok=True)
    runner = os.path.join(d, 'runner')
    vo = os.path.join(COQ, rel + 'o')
    drv = os.path.join(ROOT, 'harness/ocaml/driver.ml')
    if os.path.exists(runner) and os.path.getmtime(runner) >= max(os.path.getmtime(vo), os.path.getmtime(drv)):
        return runner
    with open(os.path.join(d, 'extract.v'), 'w') as f:
        f.write('From %s Require Run.%s.\n' % (LOGICAL, pid) +
                'Require Import ExtrOcamlBasic.\nExtraction Language OCaml.\n'
                'Set Extraction Optimize.\n'
                'Extraction "model.ml" %s.Run.%s.run.\n' % (LOGICAL, pid))
    rc, out = sh('flock %s timeout 600 coqc -Q %s %s extract.v' % (
        os.path.join(BUILD, '.extract.%s.lock' % pid), COQ, LOGICAL), cwd=d)
    if rc != 0:
        raise RuntimeError('extraction failed:\n' + out[-3000:])
    sh('cp %s driver.ml' % drv, cwd=d)
    rc, out = sh('ocamlfind ocamlopt -O3 -w -a model.mli model.ml driver.ml -o runner 2>&1 || '
                 'ocamlfind ocamlopt -w -a model.mli model.ml driver.ml -o runner', cwd=d)
    if rc != 0:
        raise RuntimeError('ocaml build failed:\n' + out[-3000:])
    return runner


def run_model_ocaml(pid, inputs):
    runner = build_runner(pid)
    data = '\n'.join(sx.dumps(x) for x in inputs) + '\n'
    p = subprocess.run(['bash', '-c', 'ulimit -s unlimited 2>/dev/null; exec ' + runner],
                       input=data, stdout=subprocess.PIPE, stderr=subprocess.PIPE,
                       text=True, timeout=3000)
    lines = [l for l in p.stdout.split('\n') if l]
    if p.returncode != 0 or len(lines) != len(inputs):
        raise RuntimeError('model runner failed rc=%s got %d/%d lines; stderr=%s' % (
            p.returncode, len(lines), len(inputs), p.stderr[-2000:]))
    return [sx.loads(l) for l in lines]


def run_model_vm(pid, inputs, shard=250, jobs=16):
    """Evaluate Run/Cxx.run with vm_compute inside coqc (used for PrimFloat models)."""
    rel = 'Run/%s.v' % pid
    rc, out = make_target(rel + 'o')
    if rc != 0:
        raise RuntimeError('model %s does not compile:\n%s' % (rel, '\n'.join(out.splitlines()[-30:])))
    d = os.path.join(BUILD, 'vm', pid, str(os.getpid()))
    os.makedirs(d, exist_ok=True)
    files = []
    for k in range(0, len(inputs), shard):
        chunk = inputs[k:k + shard]
        fn = os.path.join(d, 'cases_%d.v' % (k // shard))
        with open(fn, 'w') as f:
            f.write('From Coq Require Import ZArith List.\nImport ListNotations.\n'
                    'From %s Require Import Base.Sx Run.%s.\nOpen Scope Z_scope.\n' % (LOGICAL, pid))
            f.write('Definition cases : list sx := [\n  ' +
                    ';\n  '.join(sx.to_coq(x) for x in chunk) + '\n].\n')
            f.write('Fixpoint show (s : sx) : list Z := match s with I z => [z] | L l => '
                    '(-7777777) :: (fix go (l : list sx) := match l with [] => [] | x :: r => show x ++ go r end) l ++ [-8888888] end.\n')
            f.write('Definition res := Eval vm_compute in map (fun c => show (run c)) cases.\n')
            f.write('Set Printing Width 1000000.\nSet Printing Depth 100000000.\nPrint res.\n')
        files.append(fn)
    procs = []
    outs = []
    results = []
    # run up to `jobs` coqc in parallel
    pending = list(files)
    running = []
    outputs = {}
    while pending or running:
        while pending and len(running) < jobs:
            fn = pending.pop(0)
            p = subprocess.Popen('ulimit -s unlimited 2>/dev/null; timeout 1200 coqc -Q %s %s %s' % (COQ, LOGICAL, fn),
                                 shell=True, cwd=d, stdout=subprocess.PIPE, stderr=subprocess.STDOUT, text=True)
            running.append((fn, p))
        fn, p = running.pop(0)
        o, _ = p.communicate()
        if p.returncode != 0:
            raise RuntimeError('vm_compute evaluation failed for %s:\n%s' % (fn, o[-3000:]))
        outputs[fn] = o
    for fn in files:
        o = outputs[fn]
        m = re.search(r'res\s*=\s*(\[.*\])\s*:\s*list \(list Z\)', o, re.S)
        if not m:
            raise RuntimeError('cannot parse vm output of %s: %s' % (fn, o[:2000]))
        body = m.group(1)
        # nested lists of Z: [[a; b]; [c]]
        body = body.replace('%Z', '').replace('\n', ' ')
        for inner in re.findall(r'\[([^\[\]]*)\]', body[1:-1]):
            toks = [int(t.strip().strip('()')) for t in inner.split(';') if t.strip()]
            results.append(unshow(toks))
    sh('rm -rf %s' % d)
    if len(results) != len(inputs):
        raise RuntimeError('vm evaluation returned %d results for %d inputs' % (len(results), len(inputs)))
    return results


def unshow(toks):
    pos = 0

    def item():
        nonlocal pos
        t = toks[pos]
        if t == -7777777:
            pos += 1
            out = []
            while toks[pos] != -8888888:
                out.append(item())
            pos += 1
            return out
        pos += 1
        return t

    return item()


# --------------------------------------------------------------------------
# Known findings
# --------------------------------------------------------------------------
def load_findings(pid):
    try:
        with open(os.path.join(ROOT, 'known_findings.json')) as f:
            data = json.load(f)
    except FileNotFoundError:
        return []
    return [e for e in data.get('findings', []) if e.get('property') == pid and e.get('status') == 'known']


def default_match(entry, failure):
    """entry['match'] is a dict key -> value | list of allowed values; all keys must match failure."""
    m = entry.get('match', {})
    if not m:
        return False
    for k, v in m.items():
        if k not in failure:
            return False
        fv = failure[k]
        if isinstance(v, list):
            if fv not in v:
                return False
        elif fv != v:
            return False
    return True


# --------------------------------------------------------------------------
# main flow
# --------------------------------------------------------------------------
def canon_json(x):
    return json.dumps(x, sort_keys=True, default=str)


def write_replay(pid, payload):
    d = os.path.join(ROOT, 'replays', pid)
    os.makedirs(d, exist_ok=True)
    h = hashlib.sha1(canon_json(payload).encode()).hexdigest()[:12]
    path = os.path.join(d, '%s.json' % h)
    with open(path, 'w') as f:
        json.dump(payload, f, indent=1, sort_keys=True, default=str)
    return path


def shrink_case(mod, case, still_fails, budget=400):
    if not hasattr(mod, 'shrink'):
        return case
    cur = case
    steps = 0
    improved = True
    while improved and steps < budget:
        improved = False
        for cand in mod.shrink(cur):
            steps += 1
            if steps >= budget:
                break
            try:
                if still_fails(cand):
                    cur = cand
                    improved = True
                    break
            except Exception:
                continue
    return cur


def safe_oracle(mod, case, io):
    try:
        v = mod.oracle(case, io)
    except Exception as e:
        v = {'kind': 'oracle-exception', 'detail': '%s: %s' % (type(e).__name__, str(e)[:300])}
    if isinstance(v, str):
        v = {'kind': v}
    return v


def safe_impl(mod, case):
    try:
        return mod.impl(case)
    except Exception as e:
        return ['HARNESS-EXC', type(e).__name__, str(e)[:200]]


def run_cases(pid, mod, cases, res):
    """Steps (b) and (c).  Returns (divergences, failures) lists."""
    t0 = time.time()
    impl_outs = []
    for c in cases:
        impl_outs.append(safe_impl(mod, c))
    res['impl_wall_s'] = round(time.time() - t0, 2)
    t1 = time.time()
    inputs = [mod.model_input(c) for c in cases]
    have_model = [i for i, x in enumerate(inputs) if x is not None]
    model_raw = {}
    if have_model:
        runner = run_model_vm if getattr(mod, 'USE_VM', False) else run_model_ocaml
        outs = runner(pid, [inputs[i] for i in have_model])
        for i, o in zip(have_model, outs):
            model_raw[i] = o
    res['model_wall_s'] = round(time.time() - t1, 2)
    divergences = []
    failures = []
    nontrivial = set()
    kinds = {}
    for i, c in enumerate(cases):
        io = impl_outs[i]
        kinds[c.get('op', '?')] = kinds.get(c.get('op', '?'), 0) + 1
        if i in model_raw:
            mo = mod.model_output(c, model_raw[i])
            same = mod.equal(c, io, mo) if hasattr(mod, 'equal') else (io == mo)
            if not same:
                divergences.append({'case': c, 'impl': io, 'model': mo})
        verdict = safe_oracle(mod, c, io)
        if verdict:
            failures.append({'case': c, 'impl': io, 'failure': verdict})
        try:
            if mod.nontrivial(c, io):
                nontrivial.add(hashlib.sha1(canon_json(c.get('input', c)).encode()).hexdigest())
        except Exception:
            pass
    res['evaluations'] = len(cases)
    res['model_evaluations'] = len(have_model)
    res['distinct_nontrivial'] = len(nontrivial)
    res['ops'] = kinds
    return divergences, failures


def main(argv=None):
    ap = argparse.ArgumentParser()
    ap.add_argument('pid')
    ap.add_argument('--tier', default=os.environ.get('VERIF_TIER', 'quick'))
    ap.add_argument('--seed', type=int, default=int(os.environ.get('VERIF_SEED', '0') or 0))
    ap.add_argument('--replay')
    ap.add_argument('--cases', type=int)
    ap.add_argument('--no-proof', action='store_true', help='developer option: skip step (a)')
    args = ap.parse_args(argv)
    pid = args.pid.upper()
    tier = args.tier if args.tier in ('quick', 'thorough') else 'quick'
    t0 = time.time()
    os.chdir(ROOT)
    res = {}
    violations = []   # (summary, replay_payload, has_input)
    known_lines = []

    try:
        mod = importlib.import_module('vt.props.' + pid.lower())
        import_err = None
    except Exception as e:
        mod = None
        import_err = traceback.format_exc()

    if mod is None:
        # Most likely /repo no longer imports (a breaking edit).  Fail closed.
        path = write_replay(pid, {'property': pid, 'kind': 'harness-import-failure', 'traceback': import_err})
        log(import_err)
        log('VIOLATION property=%s replay=%s no-failing-input-found' % (pid, path))
        write_evidence(pid, tier, args.seed, None, res, 1, time.time() - t0, [])
        return 1

    # ---- (a) proofs ----
    proof_problems = [] if args.no_proof else check_proofs(pid, res, tier)
    for p in proof_problems:
        log('PROOF-PROBLEM: ' + p)

    # ---- cases ----
    if args.replay:
        with open(args.replay) as f:
            rp = json.load(f)
        cases = [rp['case']] if 'case' in rp else []
    else:
        rng = random.Random(args.seed)
        cases = list(mod.corpus()) if hasattr(mod, 'corpus') else []
        n = args.cases
        cases += list(mod.cases(rng, tier, n) if n is not None else mod.cases(rng, tier))
        changed, now = fingerprints_changed(pid)
        res['fingerprints'] = now
        res['fingerprints_changed'] = changed
        if changed and n is None and tier == 'quick':
            # an anchored source file differs from the recorded baseline: hit it harder (3x the cases, fresh seeds)
            log('note: anchored source changed since baseline (%s): escalating case budget' % ', '.join(changed))
            for extra in (1, 2):
                cases += list(mod.cases(random.Random(args.seed + 7919 * extra), tier))
    divergences, failures = [], []
    try:
        divergences, failures = run_cases(pid, mod, cases, res)
    except Exception as e:
        log(traceback.format_exc())
        proof_problems.append('model could not be run: %s' % str(e)[:500])

    # ---- classify failures against known findings ----
    findings = load_findings(pid)
    matcher = getattr(mod, 'match_finding', default_match)
    new_failures = []
    seen_known = {}
    for f in failures:
        hit = None
        for e in findings:
            if matcher(e, f['failure']):
                hit = e; break
        if hit is not None:
            seen_known.setdefault(hit.get('id', hit.get('what', '?')), (hit, 0))
            h, k = seen_known[hit.get('id', hit.get('what', '?'))]
            seen_known[hit.get('id', hit.get('what', '?'))] = (h, k + 1)
        else:
            new_failures.append(f)
    for fid, (e, k) in seen_known.items():
        known_lines.append('KNOWN-FINDING: property=%s %s: %s (%d cases this run)' % (pid, fid, e.get('what', ''), k))

    # ---- report ----
    exit_code = 0
    if new_failures:
        f = new_failures[0]
        kind = f['failure'].get('kind')

        def same_kind(case):
            io = safe_impl(mod, case)
            v = safe_oracle(mod, case, io)
            return bool(v) and v.get('kind') == kind and not any(matcher(e, v) for e in findings)
        small = shrink_case(mod, f['case'], same_kind)
        io = safe_impl(mod, small)
        v = safe_oracle(mod, small, io)
        if not v:
            # the failure does not reproduce on the case alone (it depended on state left by earlier cases of
            # this run): report the failure as observed, with the original case
            small, io, v = f['case'], f['impl'], dict(f['failure'], reproduces_in_isolation=False)
        payload = {'property': pid, 'tier': tier, 'seed': args.seed, 'kind': 'property-fails-on-implementation',
                   'case': small, 'impl_output': io, 'failure': v,
                   'other_failures': len(new_failures) - 1,
                   'proof_problems': proof_problems,
                   'replay_cmd': './check %s --replay <this file>' % pid}
        path = write_replay(pid, payload)
        log('failure: %s' % canon_json(v)[:600])
        log('VIOLATION property=%s replay=%s' % (pid, path))
        exit_code = 1
    elif proof_problems or divergences:
        payload = {'property': pid, 'tier': tier, 'seed': args.seed,
                   'kind': 'proof-or-correspondence-broken',
                   'proof_problems': proof_problems,
                   'broken_lemma': res.get('proof', {}).get('broken_lemma'),
                   'broken_at': res.get('proof', {}).get('broken_at'),
                   'make_tail': res.get('proof', {}).get('make_tail'),
                   'correspondence': 'Run/%s.run vs /repo implementation' % pid,
                   'divergences': len(divergences)}
        if divergences:
            d0 = divergences[0]

            def still_div(case):
                io = safe_impl(mod, case)
                runner = run_model_vm if getattr(mod, 'USE_VM', False) else run_model_ocaml
                mo = mod.model_output(case, runner(pid, [mod.model_input(case)])[0])
                return not (mod.equal(case, io, mo) if hasattr(mod, 'equal') else io == mo)
            small = shrink_case(mod, d0['case'], still_div, budget=150)
            if small is not d0['case']:
                io = safe_impl(mod, small)
                runner = run_model_vm if getattr(mod, 'USE_VM', False) else run_model_ocaml
                mo = mod.model_output(small, runner(pid, [mod.model_input(small)])[0])
                d0 = {'case': small, 'impl': io, 'model': mo}
            payload['case'] = d0['case']
            payload['impl_output'] = d0['impl']
            payload['model_output'] = d0['model']
            log('correspondence divergence (%d cases); first: %s' % (len(divergences), canon_json(d0)[:800]))
        path = write_replay(pid, payload)
        log('VIOLATION property=%s replay=%s no-failing-input-found' % (pid, path))
        exit_code = 1
    for l in known_lines:
        log(l)
    write_evidence(pid, tier, args.seed, mod, res, 1 if exit_code else 0, time.time() - t0, cases,
                   known=known_lines, divergences=len(divergences), failures=len(new_failures))
    if exit_code == 0:
        log('OK property=%s tier=%s cases=%d nontrivial=%d obligations=%d/%d wall=%.1fs' % (
            pid, tier, res.get('evaluations', 0), res.get('distinct_nontrivial', 0),
            res.get('proof', {}).get('discharged', 0), res.get('proof', {}).get('obligations', 0),
            time.time() - t0))
    return exit_code


def write_evidence(pid, tier, seed, mod, res, violations, wall, cases, known=(), divergences=0, failures=0):
    proof = res.get('proof', {})
    samples = []
    for c in cases[:3] + cases[-2:]:
        s = canon_json({'op': c.get('op'), 'input': c.get('input')})
        samples.append(json.loads(s) if len(s) < 1500 else {'op': c.get('op'), 'input_truncated': s[:1500]})
    thms = proof.get('theorems', [])
    for t in thms[:8]:
        samples.append({'theorem': t, 'assumptions': proof.get('assumptions', {}).get(t, [])})
    axioms_used = sorted(set(a for t in thms for a in proof.get('assumptions', {}).get(t, [])))
    cov = {
        'obligations': int(proof.get('obligations', 0)),
        'discharged': int(proof.get('discharged', 0)),
        'checker_cmd': 'make -C /verif/coq Props/%s.vo && coqc -Q . NS Props/%s.v  (Print Assumptions per theorem)' % (pid, pid),
        'trusted_base': [
            'Coq 8.16.1 kernel incl. vm_compute (no native_compute)',
            'axioms per theorem as printed by Print Assumptions: see samples[].assumptions (allow-list in harness/vt/engine.py)',
            'hand-written Gallina model tied to /repo by differential correspondence over the cases counted in evaluations',
            'extraction: ExtrOcamlBasic only (no Extract Constant / Extract Inductive of ours), OCaml 4.13.1, harness/ocaml/driver.ml',
            'constants/tables regenerated from /repo into coq/Gen/G%s.v by the property module' % pid[1:],
            'Python harness (generators, adapters, canonicalisation), CPython 3.12, protobuf, numpy, pretty_midi',
        ] + (['source-level tie: coq/%s re-translated on every run from the source text of note_seq functions by '
              'harness/vt/pytr.py (fail-closed Python-AST -> Gallina translator; its reading of int(math.ceil(a/b)), of '
              'element-wise event loops and of binary64 operators is trusted) and proved equal to the hand-written model '
              'in coq/Proofs/TrEquiv*.v' % ' and coq/'.join(proof.get('source_translated'))]
             if proof.get('source_translated') else []) + list(getattr(mod, 'TRUSTED', [])),
        'evaluations': int(res.get('evaluations', 0)),
        'model_evaluations': int(res.get('model_evaluations', 0)),
        'distinct_nontrivial': int(res.get('distinct_nontrivial', 0)),
        'rule': getattr(mod, 'RULE', 'seeded structured generator; a case is non-trivial when the property module\'s nontrivial() accepts it; distinct by hash of the canonical input'),
        'samples': samples,
        'theorems': thms,
        'axioms_used': axioms_used,
        'theorems_closed_under_global_context': sum(1 for t in thms if not proof.get('assumptions', {}).get(t, ['?'])),
        'assumptions_by_theorem': {t: proof.get('assumptions', {}).get(t, []) for t in thms
                                   if proof.get('assumptions', {}).get(t)},
        'ops': res.get('ops', {}),
        'correspondence_divergences': divergences,
        'property_failures_new': failures,
        'known_findings_seen': list(known),
        'proof_wall_s': proof.get('wall_s'),
        'impl_wall_s': res.get('impl_wall_s'),
        'model_wall_s': res.get('model_wall_s'),
        'exhaustive': bool(getattr(mod, 'EXHAUSTIVE', {}).get(tier, False)) if mod else False,
        'source_fingerprints': res.get('fingerprints', {}),
        'source_fingerprints_changed': res.get('fingerprints_changed', []),
        'coqchk': {k: proof.get(k) for k in ('coqchk_rc', 'coqchk_wall_s', 'coqchk_tail') if k in proof},
    }
    if mod is not None and hasattr(mod, 'extra_evidence'):
        try:
            cov.update(mod.extra_evidence())
        except Exception:
            pass
    ev = {
        'property_id': pid, 'tier': tier, 'seed': int(seed), 'level': 'proof',
        'coverage': cov,
        'assumptions': list(getattr(mod, 'ASSUMPTIONS', [])) if mod else [],
        'wall_s': round(wall, 2), 'violations': int(violations),
    }
    # evidence/ holds only runs against /repo itself; developer runs against a scratch worktree (VERIF_REPO)
    # are written under build/
    evdir = os.path.join(ROOT, 'evidence') if REPO == '/repo' else os.path.join(BUILD, 'evidence-dev')
    os.makedirs(evdir, exist_ok=True)
    with open(os.path.join(evdir, '%s.json' % pid), 'w') as f:
        json.dump(ev, f, indent=1, sort_keys=True, default=str)


if __name__ == '__main__':
    sys.exit(main())
