"""NoteSequence <-> wire format (coq/Base/NoteSeq.v) and a structured generator.

Times are exact ticks (1 tick = 2**-40 s).  A *description* (`desc`) is a
JSON-able dict in wire layout plus generator-only metadata; `to_proto(desc)`
builds the real protobuf, `to_wire(proto)` produces the nested-int list the
Gallina decoders (`xSeq`) read and the encoders (`oSeq`) print.
"""
import hashlib

TICK_BITS = 40
TICK = 2.0 ** -TICK_BITS
QPM_BITS = 20


class OffGrid(Exception):
    pass


def t2f(t):
    return t * TICK


def f2t(x):
    v = x * (2.0 ** TICK_BITS)
    iv = int(v)
    if iv != v:
        raise OffGrid('time %r is not on the 2^-40 grid' % (x,))
    return iv


def q2f(q):
    return q / float(2 ** QPM_BITS)


def f2q(x):
    v = x * (2.0 ** QPM_BITS)
    iv = int(v)
    if iv != v:
        raise OffGrid('qpm %r is not on the 2^-20 grid' % (x,))
    return iv


def note_rest(n):
    return n.voice + 16 * n.part + 256 * n.numerator + 4096 * n.denominator + 65536 * n.pitch_name


def set_note_rest(n, r):
    n.voice = r % 16
    n.part = (r // 16) % 16
    n.numerator = (r // 256) % 16
    n.denominator = (r // 4096) % 16
    n.pitch_name = (r // 65536) % 36


def seq_rest(ns):
    """Hash of everything the models do not touch."""
    from note_seq.protobuf import music_pb2
    c = music_pb2.NoteSequence()
    c.CopyFrom(ns)
    for f in ('notes', 'tempos', 'time_signatures', 'key_signatures', 'text_annotations',
              'control_changes', 'pitch_bends', 'section_annotations', 'total_time',
              'total_quantized_steps', 'quantization_info', 'subsequence_info', 'ticks_per_quarter'):
        c.ClearField(f)
    b = c.SerializeToString(deterministic=True)
    if not b:
        return 0
    return int.from_bytes(hashlib.sha1(b).digest()[:7], 'big')


def to_wire(ns, tfun=f2t, qfun=f2q):
    notes = [[n.pitch, n.velocity, tfun(n.start_time), tfun(n.end_time), n.instrument, n.program,
              int(n.is_drum), n.quantized_start_step, n.quantized_end_step, note_rest(n)] for n in ns.notes]
    tempos = [[tfun(t.time), qfun(t.qpm)] for t in ns.tempos]
    tsigs = [[tfun(t.time), t.numerator, t.denominator] for t in ns.time_signatures]
    ksigs = [[tfun(k.time), k.key, k.mode] for k in ns.key_signatures]
    texts = [[tfun(a.time), a.quantized_step, [ord(c) for c in a.text], a.annotation_type]
             for a in ns.text_annotations]
    ccs = [[tfun(c.time), c.quantized_step, c.control_number, c.control_value, c.instrument, c.program,
            int(c.is_drum)] for c in ns.control_changes]
    bends = [[tfun(b.time), b.bend, b.instrument, b.program, int(b.is_drum)] for b in ns.pitch_bends]
    sects = [[tfun(s.time), s.section_id] for s in ns.section_annotations]
    return [notes, tempos, tsigs, ksigs, texts, ccs, bends, sects,
            tfun(ns.total_time), ns.total_quantized_steps,
            ns.quantization_info.steps_per_quarter, ns.quantization_info.steps_per_second,
            [tfun(ns.subsequence_info.start_time_offset), tfun(ns.subsequence_info.end_time_offset)],
            ns.ticks_per_quarter, seq_rest(ns)]


def to_proto(desc, tfun=t2f, qfun=q2f):
    """desc: dict with keys notes, tempos, tsigs, ksigs, texts, ccs, bends, sects (wire rows,
    texts carry a str), total, qsteps, spq, sps, sub, tpq, meta (small int or None)."""
    from note_seq.protobuf import music_pb2
    ns = music_pb2.NoteSequence()
    for r in desc.get('notes', []):
        n = ns.notes.add()
        n.pitch, n.velocity = r[0], r[1]
        n.start_time, n.end_time = tfun(r[2]), tfun(r[3])
        n.instrument, n.program, n.is_drum = r[4], r[5], bool(r[6])
        if len(r) > 7:
            n.quantized_start_step, n.quantized_end_step = r[7], r[8]
        if len(r) > 9:
            set_note_rest(n, r[9])
    for r in desc.get('tempos', []):
        t = ns.tempos.add(); t.time = tfun(r[0]); t.qpm = qfun(r[1])
    for r in desc.get('tsigs', []):
        t = ns.time_signatures.add(); t.time = tfun(r[0]); t.numerator = r[1]; t.denominator = r[2]
    for r in desc.get('ksigs', []):
        k = ns.key_signatures.add(); k.time = tfun(r[0]); k.key = r[1]; k.mode = r[2]
    for r in desc.get('texts', []):
        a = ns.text_annotations.add(); a.time = tfun(r[0]); a.quantized_step = r[1]
        a.text = r[2] if isinstance(r[2], str) else ''.join(chr(c) for c in r[2]); a.annotation_type = r[3]
    for r in desc.get('ccs', []):
        c = ns.control_changes.add(); c.time = tfun(r[0]); c.quantized_step = r[1]
        c.control_number, c.control_value, c.instrument, c.program, c.is_drum = r[2], r[3], r[4], r[5], bool(r[6])
    for r in desc.get('bends', []):
        b = ns.pitch_bends.add(); b.time = tfun(r[0]); b.bend = r[1]
        b.instrument, b.program, b.is_drum = r[2], r[3], bool(r[4])
    for r in desc.get('sects', []):
        s = ns.section_annotations.add(); s.time = tfun(r[0]); s.section_id = r[1]
    ns.total_time = tfun(desc.get('total', 0))
    ns.total_quantized_steps = desc.get('qsteps', 0)
    if desc.get('spq', 0):
        ns.quantization_info.steps_per_quarter = desc['spq']
    if desc.get('sps', 0):
        ns.quantization_info.steps_per_second = desc['sps']
    if desc.get('qinfo_empty') and not desc.get('spq', 0) and not desc.get('sps', 0):
        # an UNQUANTIZED sequence whose (empty) quantization_info sub-message is present: legal, and what results
        # from parsing text/JSON with an empty message or from resetting the step counts of a quantized copy
        ns.quantization_info.SetInParent()
    sub = desc.get('sub', [0, 0])
    if sub[0] or sub[1]:
        ns.subsequence_info.start_time_offset = tfun(sub[0])
        ns.subsequence_info.end_time_offset = tfun(sub[1])
    ns.ticks_per_quarter = desc.get('tpq', 220)
    m = desc.get('meta')
    if m:
        ns.id = 'id-%d' % m
        ns.filename = 'file-%d.mid' % m
        ns.reference_number = m
        ns.collection_name = 'coll-%d' % (m % 7)
        ns.source_info.parser = 1 + m % 3
        ns.source_info.encoding_type = 1 + m % 4
        ii = ns.instrument_infos.add(); ii.instrument = m % 4; ii.name = 'instr-%d' % m
        pi = ns.part_infos.add(); pi.part = m % 3; pi.name = 'part-%d' % m
        ns.sequence_metadata.title = 'title-%d' % m
        for g in desc.get('groups', []):
            sg = ns.section_groups.add()
            sg.num_times = g[1]
            for sid in g[0]:
                sg.sections.add().section_id = sid
    return ns


# ---------------------------------------------------------------------------
# generator
# ---------------------------------------------------------------------------
QUARTER_SEC = 2 ** (TICK_BITS - 2)     # coarse musical grid: quarter seconds


def gen_time(rng, hi_quarters, pool, p_reuse=0.35, p_jitter=0.25):
    """A time in ticks: reuse an earlier time (coincidences), else a coarse-grid time,
    optionally displaced by a few ticks (just before / just after a boundary)."""
    if pool and rng.random() < p_reuse:
        t = rng.choice(pool)
        if rng.random() < 0.3:
            t = max(0, t + rng.choice([-2, -1, 1, 2]))
    else:
        t = rng.randint(0, hi_quarters) * QUARTER_SEC
        if rng.random() < p_jitter:
            t = max(0, t + rng.choice([-3, -2, -1, 1, 2, 3, 1 << 20, -(1 << 20)]))
    pool.append(t)
    return t


CHORDS = ['C', 'Am', 'G7', 'F#m7b5', 'Bb', 'N.C.', 'Dm', 'E7', 'Cmaj7', 'Absus4']


def gen_desc(rng, max_notes=12, max_instr=3, hi_quarters=40, p_drum=0.2, with_events=True,
             max_events=4, pedals=True, wf=True, meta=True, programs=(0, 1, 33), sects=True,
             no_same_pitch_overlap=False):
    """Random well-formed unquantized sequence description on the tick grid."""
    pool = []
    notes = []
    ninstr = rng.randint(1, max_instr)
    pitches = rng.sample(range(30, 90), rng.randint(1, 6))
    for _ in range(rng.randint(0, max_notes)):
        s = gen_time(rng, hi_quarters, pool)
        if rng.random() < 0.1:
            e = s                       # zero-length notes exist in real data
        else:
            e = gen_time(rng, hi_quarters, pool)
            if e < s:
                s, e = e, s
        instr = rng.randrange(ninstr)
        drum = rng.random() < p_drum
        notes.append([rng.choice(pitches), rng.randint(1, 127), s, e, instr,
                      rng.choice(programs), int(drum), 0, 0, rng.randrange(0, 65536 * 4, 4099)])
    if no_same_pitch_overlap:
        kept = []
        for n in sorted(notes, key=lambda r: (r[2], r[3])):
            clash = any(k[0] == n[0] and k[4] == n[4] and k[6] == n[6] and
                        (k[2] < n[3] and n[2] < k[3] or k[2] == n[2]) for k in kept)
            if not clash:
                kept.append(n)
        rng.shuffle(kept)
        notes = kept
    d = {'notes': notes, 'tempos': [], 'tsigs': [], 'ksigs': [], 'texts': [], 'ccs': [], 'bends': [], 'sects': []}
    if with_events:
        for _ in range(rng.randint(0, max_events)):
            d['tempos'].append([gen_time(rng, hi_quarters, pool), rng.choice([60, 90, 120, 97, 133]) << QPM_BITS])
        for _ in range(rng.randint(0, max_events)):
            d['tsigs'].append([gen_time(rng, hi_quarters, pool), rng.choice([2, 3, 4, 6]), rng.choice([2, 4, 8])])
        for _ in range(rng.randint(0, max_events)):
            d['ksigs'].append([gen_time(rng, hi_quarters, pool), rng.randrange(12), rng.randrange(2)])
        for _ in range(rng.randint(0, max_events + 2)):
            ty = rng.choice([0, 1, 1, 2, 2])
            txt = rng.choice(CHORDS) if ty == 1 else ('beat' if ty == 2 else 'lyric%d' % rng.randrange(3))
            d['texts'].append([gen_time(rng, hi_quarters, pool), 0, txt, ty])
        for _ in range(rng.randint(0, max_events + 3)):
            num = rng.choice([64, 64, 64, 66, 67, 7, 1]) if pedals else rng.choice([7, 1, 10])
            d['ccs'].append([gen_time(rng, hi_quarters, pool), 0, num, rng.choice([0, 10, 63, 64, 100, 127]),
                             rng.randrange(ninstr), rng.choice(programs), int(rng.random() < 0.1)])
        for _ in range(rng.randint(0, max_events)):
            d['bends'].append([gen_time(rng, hi_quarters, pool), rng.randint(-8192, 8191),
                               rng.randrange(ninstr), rng.choice(programs), 0])
        if sects:
            for k in range(rng.randint(0, 3)):
                d['sects'].append([gen_time(rng, hi_quarters, pool), k])
    ends = [n[3] for n in notes]
    total = max(ends) if ends else 0
    if rng.random() < 0.4:
        total += rng.randint(0, 8) * QUARTER_SEC
    if not wf and rng.random() < 0.5 and total > 0:
        total = rng.randint(0, total)
    d['total'] = total
    d['qsteps'] = 0
    d['spq'] = 0
    d['sps'] = 0
    d['sub'] = [0, 0]
    d['tpq'] = rng.choice([220, 480, 96])
    d['meta'] = rng.randint(1, 10 ** 6) if meta else None
    if rng.random() < 0.08:
        d['qinfo_empty'] = True
    return d


def shrink_desc(d):
    """Yield smaller descriptions (drop one element of one repeated field)."""
    for f in ('notes', 'tempos', 'tsigs', 'ksigs', 'texts', 'ccs', 'bends', 'sects'):
        xs = d.get(f, [])
        for i in range(len(xs)):
            c = dict(d)
            c[f] = xs[:i] + xs[i + 1:]
            yield c
    if d.get('meta'):
        c = dict(d); c['meta'] = None
        yield c
    if d.get('qinfo_empty'):
        c = dict(d); c['qinfo_empty'] = False
        yield c
