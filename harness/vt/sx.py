"""S-expressions of integers: the wire format between harness and Gallina models."""


def dumps(x):
    if isinstance(x, bool):
        return '1' if x else '0'
    if isinstance(x, int):
        return str(x)
    if isinstance(x, (list, tuple)):
        return '(' + ' '.join(dumps(y) for y in x) + ')'
    if x is None:
        return '()'
    if isinstance(x, str):
        return dumps([ord(c) for c in x])
    try:
        import numpy as np
        if isinstance(x, np.integer):
            return str(int(x))
    except ImportError:
        pass
    raise TypeError('sx.dumps: unsupported %r' % (type(x),))


def loads(s):
    pos = 0
    n = len(s)

    def item():
        nonlocal pos
        while pos < n and s[pos] in ' \t\r\n':
            pos += 1
        if pos >= n:
            raise ValueError('sx: unexpected end in %r' % s[:80])
        if s[pos] == '(':
            pos += 1
            out = []
            while True:
                while pos < n and s[pos] in ' \t\r\n':
                    pos += 1
                if pos >= n:
                    raise ValueError('sx: unclosed')
                if s[pos] == ')':
                    pos += 1
                    return out
                out.append(item())
        st = pos
        while pos < n and s[pos] not in ' ()\t\r\n':
            pos += 1
        return int(s[st:pos])

    return item()


def to_coq(x):
    """Render as a Gallina term of type sx (for cases_*.v / vm_compute)."""
    if isinstance(x, bool):
        return 'I 1' if x else 'I 0'
    if isinstance(x, int):
        return 'I (%d)' % x
    if isinstance(x, str):
        return to_coq([ord(c) for c in x])
    if x is None:
        return 'L []'
    return 'L [' + '; '.join(to_coq(y) for y in x) + ']'


def text(xs):
    """list of char codes -> str"""
    return ''.join(chr(c) for c in xs)
