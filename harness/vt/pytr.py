"""pytr — a small fail-closed translator from Python source (ast) to Gallina.

This is the second kind of tie between model and code (the first is differential
correspondence): for a handful of straight-line integer functions of note_seq,
the Gallina text is *regenerated from the function's source on every run*
(coq/Gen/Tr.v) and coq/Proofs/TrEquiv.v proves, for all arguments, that the
translation equals the hand-written model the property theorems are about.  An
edit of the Python function therefore changes Gen/Tr.v and breaks (or keeps) a
proof obligation directly, with no sampling involved.

Supported subset (anything else raises TranslationError — fail closed):
  def f(args): [docstring]  if/elif/else, return e, raise X(...), name = e
  expressions over ints: constants, names, self._attr, module-level int
  constants (inlined with their current value), unary -, + - * // % &,
  comparisons (chained), and/or/not, min/max (2 args), abs,
  int(math.ceil(a / b))  (true division of ints followed by ceil: translated as
  the integer ceiling -((-a) // b); exact as long as |a|, |b| < 2^26 — recorded
  in TRUSTED), and calls of other translated functions.
Semantics: every function returns `option T` (None = the Python code raises);
Python // and % are Coq's Z.div / Z.modulo (floor); a division by zero is a
ZeroDivisionError, guarded explicitly; an int in boolean context is `e <> 0`.
"""
import ast
import importlib
import inspect
import textwrap


class TranslationError(Exception):
    pass


TRUSTED = ['harness/vt/pytr.py: Python-AST -> Gallina translator for straight-line integer functions '
           '(int(math.ceil(a / b)) read as the exact integer ceiling, sound for |a|,|b| < 2^26), element-wise event '
           'loops (for i in range(len(self)) touching only self._events[i] read as a map) and binary64 expressions '
           '(+ - * / as the PrimFloat operations, int() of a float as truncation, an int operand converted exactly, '
           'sound for |int| < 2^53)']

# (module, qualified name, Coq name, return kind, names of callees already translated)
TARGETS = [
    ('note_seq.performance_lib', '_velocity_bin_size', 'tr_velocity_bin_size', 'Z'),
    ('note_seq.performance_lib', 'velocity_to_bin', 'tr_velocity_to_bin', 'Z'),
    ('note_seq.performance_lib', 'velocity_bin_to_velocity', 'tr_velocity_bin_to_velocity', 'Z'),
    ('note_seq.melody_encoder_decoder', 'MelodyOneHotEncoding.__init__', 'tr_melody_init', 'unit'),
    ('note_seq.melody_encoder_decoder', 'MelodyOneHotEncoding.num_classes', 'tr_melody_num_classes', 'Z'),
    ('note_seq.melody_encoder_decoder', 'MelodyOneHotEncoding.encode_event', 'tr_melody_encode_event', 'Z'),
    ('note_seq.melody_encoder_decoder', 'MelodyOneHotEncoding.decode_event', 'tr_melody_decode_event', 'Z'),
    ('note_seq.sequences_lib', '_clamp_transpose', 'tr_clamp_transpose', 'Z'),
    ('note_seq.melodies_lib', 'Melody.transpose', 'tr_melody_transpose_event', 'elem'),
    ('note_seq.sequences_lib', '_is_power_of_2', 'tr_is_power_of_2', 'bool'),
    ('note_seq.musicxml_parser', 'Note.pitch_to_midi_pitch', 'tr_pitch_to_midi_pitch', 'Z'),
    ('note_seq.performance_lib', 'PerformanceEvent._check_event', 'tr_performance_event_validate', 'unit'),
]

# binary64 functions (generated into coq/Gen/TrF.v; parameter types given explicitly, 'F' = Python float)
FLOAT_TARGETS = [
    ('note_seq.sequences_lib', 'quantize_to_step', 'trf_quantize_to_step', 'Z',
     {'unquantized_seconds': 'F', 'steps_per_second': 'F', 'quantize_cutoff': 'F'}),
    ('note_seq.sequences_lib', 'steps_per_quarter_to_steps_per_second', 'trf_steps_per_quarter_to_steps_per_second', 'F',
     {'steps_per_quarter': 'Z', 'qpm': 'F'}),
    ('note_seq.melodies_lib', 'Melody.to_sequence@seconds_per_step', 'trf_sigma_melody', 'F', {'qpm': 'F', 'sequence_start_time': 'F'}),
    ('note_seq.drums_lib', 'DrumTrack.to_sequence@seconds_per_step', 'trf_sigma_drums', 'F', {'qpm': 'F', 'sequence_start_time': 'F'}),
    ('note_seq.chords_lib', 'ChordProgression.to_sequence@seconds_per_step', 'trf_sigma_chords', 'F', {'qpm': 'F', 'sequence_start_time': 'F'}),
    ('note_seq.pianoroll_lib', 'PianorollSequence.to_sequence@seconds_per_step', 'trf_sigma_pianoroll', 'F', {'qpm': 'F'}),
    ('note_seq.performance_lib', 'MetricPerformance.to_sequence@seconds_per_step', 'trf_sigma_metric', 'F', {'qpm': 'F'}),
    ('note_seq.performance_lib', 'Performance.to_sequence@seconds_per_step', 'trf_sigma_performance', 'F', {}),
    ('note_seq.performance_lib', 'NotePerformance.to_sequence@seconds_per_step', 'trf_sigma_noteperformance', 'F', {}),
    ('note_seq.audio_io', 'crop_samples@slice', 'trf_crop_slice', 'ZZ',
     {'samples': 'len', 'sample_rate': 'Z', 'crop_beginning_seconds': 'F', 'total_length_seconds': 'F'}),
    ('note_seq.audio_io', 'repeat_samples_to_duration@num_repeats', 'trf_num_repeats', 'Z',
     {'samples': 'len', 'sample_rate': 'Z', 'duration': 'F'}),
    ('note_seq.sequences_lib', 'sequence_to_pianoroll/frames_from_times', 'trf_frames_from_times', 'ZZ',
     {'frames_per_second': 'F', 'min_frame_occupancy_for_label': 'F', 'start_time': 'F', 'end_time': 'F'}),
]


def _get(modname, qual):
    mod = importlib.import_module(modname)
    obj = mod
    for part in qual.split('.'):
        obj = inspect.getattr_static(obj, part) if inspect.isclass(obj) else getattr(obj, part)
    if isinstance(obj, property):
        obj = obj.fget
    return mod, obj


class Tr(object):
    def __init__(self, mod, coqnames):
        self.mod = mod
        self.coqnames = coqnames        # python function name -> coq name (already translated, same module)
        self.guards = []

    # ---- expressions: return (text, type) with type in {'Z', 'bool'}
    def expr(self, e, env):
        if isinstance(e, ast.Constant):
            if isinstance(e.value, bool):
                return ('true' if e.value else 'false'), 'bool'
            if isinstance(e.value, int):
                return '(%d)' % e.value, 'Z'
            if isinstance(e.value, float):
                return self.flit(e.value), 'F'
            if isinstance(e.value, str) and len(e.value) == 1:
                return '(%d)' % ord(e.value), 'Z'      # a one-character string constant is its code point
            raise TranslationError('constant %r' % (e.value,))
        if isinstance(e, ast.Name):
            if e.id in env:
                ty = self.types.get(env[e.id], 'Z')
                if ty == 'L':
                    raise TranslationError('list variable %s used as a number' % e.id)
                return env[e.id], ('bool' if ty == 'B' else ty)
            v = getattr(self.mod, e.id, None)
            if isinstance(v, int) and not isinstance(v, bool):
                return '(%d)' % v, 'Z'      # module-level constant, inlined with its current value
            if isinstance(v, float):
                return self.flit(v), 'F'
            raise TranslationError('unknown name %s' % e.id)
        if isinstance(e, ast.Attribute) and isinstance(e.value, ast.Name) and e.value.id != 'self':
            owner = getattr(self.mod, e.value.id, None)
            v = getattr(owner, e.attr, None) if owner is not None else None
            if isinstance(v, int) and not isinstance(v, bool):
                return '(%d)' % v, 'Z'      # Class.CONSTANT, inlined with its current value
            raise TranslationError('attribute %s' % ast.unparse(e))
        if isinstance(e, ast.Attribute) and isinstance(e.value, ast.Name) and e.value.id == 'self':
            k = 'self.' + e.attr
            if k in env:
                return env[k], 'Z'
            raise TranslationError('unknown attribute %s' % k)
        if self.is_elem(e):
            return env['@elem'], 'Z'
        if isinstance(e, ast.Subscript) and self.const_dict(e.value, env) is not None:
            # d[k] of a constant dict: a KeyError is an exception (guard), the value an if-chain
            items = self.const_dict(e.value, env)
            k = self.z(e.slice, env)
            self.guards.append(('cond', self.dict_member(k, items, False)))
            out = '(0)'
            for kt, vt in reversed(items):
                out = '(if (%s =? %s) then %s else %s)' % (k, kt, vt, out)
            return out, 'Z'
        if isinstance(e, ast.UnaryOp):
            if isinstance(e.op, ast.USub):
                return '(- %s)' % self.z(e.operand, env), 'Z'
            if isinstance(e.op, ast.Not):
                return '(negb %s)' % self.b(e.operand, env), 'bool'
            raise TranslationError('unary op')
        if isinstance(e, ast.BinOp):
            (ta, tya), (tb, tyb) = self.expr(e.left, env), self.expr(e.right, env)
            if 'F' in (tya, tyb) or isinstance(e.op, ast.Div):
                if 'bool' in (tya, tyb):
                    raise TranslationError('boolean in float arithmetic')
                fa = ta if tya == 'F' else '(f_of_Z %s)' % ta       # Python converts the int operand exactly
                fb = tb if tyb == 'F' else '(f_of_Z %s)' % tb       # (|int| < 2^53 assumed, see TRUSTED)
                sym = {ast.Add: '+', ast.Sub: '-', ast.Mult: '*', ast.Div: '/'}.get(type(e.op))
                if sym is None:
                    raise TranslationError('float operator %s' % type(e.op).__name__)
                if sym == '/':
                    self.guards.append(('fzero', fb))        # Python float division by zero raises
                return '(%s %s %s)%%float' % (fa, sym, fb), 'F'
            a, b = self.z(e.left, env), self.z(e.right, env)
            if isinstance(e.op, ast.Add):
                return '(%s + %s)' % (a, b), 'Z'
            if isinstance(e.op, ast.Sub):
                return '(%s - %s)' % (a, b), 'Z'
            if isinstance(e.op, ast.Mult):
                return '(%s * %s)' % (a, b), 'Z'
            if isinstance(e.op, ast.FloorDiv):
                self.guards.append(b)
                return '(%s / %s)' % (a, b), 'Z'
            if isinstance(e.op, ast.Mod):
                self.guards.append(b)
                return '(%s mod %s)' % (a, b), 'Z'
            if isinstance(e.op, ast.BitAnd):
                return '(Z.land %s %s)' % (a, b), 'Z'
            raise TranslationError('binary op %s' % type(e.op).__name__)
        if isinstance(e, ast.Compare):
            parts = []
            left = e.left
            for op, right in zip(e.ops, e.comparators):
                if isinstance(op, (ast.In, ast.NotIn)) and self.const_dict(right, env) is not None:
                    parts.append(self.dict_member(self.z(left, env), self.const_dict(right, env),
                                                  isinstance(op, ast.NotIn)))
                    left = right
                    continue
                if isinstance(op, (ast.In, ast.NotIn)) and isinstance(right, (ast.Tuple, ast.List, ast.Set)) \
                        and right.elts:
                    a = self.z(left, env)
                    alts = ['(%s =? %s)' % (a, self.z(x, env)) for x in right.elts]
                    out = alts[0]
                    for x in alts[1:]:
                        out = '(%s || %s)' % (out, x)
                    parts.append('(negb %s)' % out if isinstance(op, ast.NotIn) else out)
                    left = right
                    continue
                if self.is_float(left, env) or self.is_float(right, env):
                    a, b = self.f(left, env), self.f(right, env)
                    fsym = {ast.Lt: '(PrimFloat.ltb %s %s)' % (a, b), ast.LtE: '(PrimFloat.leb %s %s)' % (a, b),
                            ast.Gt: '(PrimFloat.ltb %s %s)' % (b, a), ast.GtE: '(PrimFloat.leb %s %s)' % (b, a),
                            ast.Eq: '(PrimFloat.eqb %s %s)' % (a, b)}.get(type(op))
                    if fsym is None:
                        raise TranslationError('float comparison %s' % type(op).__name__)
                    parts.append(fsym)
                    left = right
                    continue
                a, b = self.z(left, env), self.z(right, env)
                sym = {ast.Lt: '(%s <? %s)', ast.LtE: '(%s <=? %s)', ast.Gt: '(%s >? %s)', ast.GtE: '(%s >=? %s)',
                       ast.Eq: '(%s =? %s)', ast.NotEq: '(negb (%s =? %s))'}.get(type(op))
                if sym is None:
                    raise TranslationError('comparison %s' % type(op).__name__)
                parts.append(sym % (a, b))
                left = right
            out = parts[0]
            for p in parts[1:]:
                out = '(%s && %s)' % (out, p)
            return out, 'bool'
        if isinstance(e, ast.BoolOp):
            vals = [self.b(v, env) for v in e.values]
            op = ' && ' if isinstance(e.op, ast.And) else ' || '
            out = vals[0]
            for v in vals[1:]:
                out = '(%s%s%s)' % (out, op, v)
            return out, 'bool'
        if isinstance(e, ast.Call):
            f = e.func
            if isinstance(f, ast.Name) and f.id in ('min', 'max') and len(e.args) == 2 and not e.keywords:
                return '(Z.%s %s %s)' % (f.id, self.z(e.args[0], env), self.z(e.args[1], env)), 'Z'
            if (isinstance(f, ast.Name) and f.id == 'len' and len(e.args) == 1 and '@events' in env and
                    ast.unparse(e.args[0]) in ('self', 'self._events')):
                return '(zlen %s)' % env['@events'], 'Z'          # len(self) of an event sequence = len(self._events)
            if (isinstance(f, ast.Name) and f.id == 'len' and len(e.args) == 1 and isinstance(e.args[0], ast.Name)
                    and ('len(%s)' % e.args[0].id) in env):
                return env['len(%s)' % e.args[0].id], 'Z'       # the length of a sequence argument is a parameter
            if isinstance(f, ast.Name) and f.id == 'abs' and len(e.args) == 1:
                return '(Z.abs %s)' % self.z(e.args[0], env), 'Z'
            def int_div_of_ints(x):
                return (isinstance(x, ast.BinOp) and isinstance(x.op, ast.Div) and
                        not self.is_float(x.left, env) and not self.is_float(x.right, env))
            if (isinstance(f, ast.Name) and f.id == 'int' and len(e.args) == 1 and isinstance(e.args[0], ast.Call) and
                    ast.unparse(e.args[0].func) in ('math.ceil', 'math.floor') and len(e.args[0].args) == 1 and
                    not int_div_of_ints(e.args[0].args[0]) and self.is_float(e.args[0].args[0], env)):
                fn = 'fceil' if ast.unparse(e.args[0].func) == 'math.ceil' else 'ffloor'
                arg = self.expr(e.args[0].args[0], env)[0]
                self.guards.append(('fin', arg))               # math.ceil of inf/nan raises
                return '(%s %s)' % (fn, arg), 'Z'
            if (isinstance(f, ast.Name) and f.id == 'int' and len(e.args) == 1 and isinstance(e.args[0], ast.Name)
                    and e.args[0].id in env and self.types.get(env[e.args[0].id], 'Z') == 'Z'):
                return env[e.args[0].id], 'Z'                  # int() of an integer-valued argument
            if (isinstance(f, ast.Name) and f.id == 'int' and len(e.args) == 1 and not isinstance(e.args[0], ast.Call)
                    and self.is_float(e.args[0], env)):
                arg = self.expr(e.args[0], env)[0]
                self.guards.append(('fin', arg))               # int() of inf/nan raises
                return '(trunc %s)' % arg, 'Z'                 # int() of a finite float truncates
            if isinstance(f, ast.Name) and f.id == 'int' and len(e.args) == 1:
                inner = e.args[0]
                if (isinstance(inner, ast.Call) and isinstance(inner.func, ast.Attribute) and
                        isinstance(inner.func.value, ast.Name) and inner.func.value.id == 'math' and
                        inner.func.attr == 'ceil' and len(inner.args) == 1 and
                        isinstance(inner.args[0], ast.BinOp) and isinstance(inner.args[0].op, ast.Div)):
                    a = self.z(inner.args[0].left, env)
                    b = self.z(inner.args[0].right, env)
                    self.guards.append(b)
                    return '(- ((- %s) / %s))' % (a, b), 'Z'
                raise TranslationError('int(...) of an unsupported expression')
            if isinstance(f, ast.Name) and f.id in self.coqnames and not e.keywords:
                args = ' '.join(self.z(a, env) for a in e.args)
                # callee returns option Z: bound at statement level through `calls`
                tmp = 'call%d' % len(self.calls)
                self.calls.append((tmp, '%s %s' % (self.coqnames[f.id], args)))
                return tmp, 'Z'
            raise TranslationError('call of %s' % ast.dump(f)[:60])
        raise TranslationError('expression %s' % type(e).__name__)

    def const_dict(self, node, env):
        """items [(key text, value text)] of a constant table: a local dict literal, or a module-level / class-level
        dict whose keys are ints or one-character strings and whose values are ints (inlined with its current
        content, like every other module constant); None if `node` is not such a table"""
        if isinstance(node, ast.Name) and ('@dict:' + node.id) in env:
            return env['@dict:' + node.id]
        obj = None
        if isinstance(node, ast.Name) and node.id not in env:
            obj = getattr(self.mod, node.id, None)
        elif isinstance(node, ast.Attribute) and isinstance(node.value, ast.Name):
            owner = getattr(self, 'cls', None) if node.value.id in ('self', 'cls') else getattr(self.mod, node.value.id, None)
            obj = getattr(owner, node.attr, None) if owner is not None else None
        if not isinstance(obj, dict) or not obj:
            return None
        items = []
        for k, v in obj.items():
            if isinstance(k, str) and len(k) == 1:
                kt = '(%d)' % ord(k)
            elif isinstance(k, int) and not isinstance(k, bool):
                kt = '(%d)' % k
            else:
                return None
            if not (isinstance(v, int) and not isinstance(v, bool)):
                return None
            items.append((kt, '(%d)' % v))
        return items

    @staticmethod
    def dict_member(k, items, negate):
        if not items:
            return 'true' if negate else 'false'
        out = '(%s =? %s)' % (k, items[0][0])
        for kt, _ in items[1:]:
            out = '(%s || (%s =? %s))' % (out, k, kt)
        return '(negb %s)' % out if negate else out

    @staticmethod
    def flit(x):
        import math
        if math.isnan(x) or math.isinf(x):
            raise TranslationError('non-finite float constant')
        return '(%s)%%float' % float(x).hex()

    def is_float(self, e, env):
        saved = (list(getattr(self, 'calls', [])), list(getattr(self, 'guards', [])))
        try:
            return self.expr(e, env)[1] == 'F'
        except TranslationError:
            return False
        finally:
            self.calls, self.guards = saved

    @staticmethod
    def is_list_expr(e):
        return isinstance(e, ast.List) or (isinstance(e, ast.BinOp) and isinstance(e.op, ast.Mult) and
                                           (isinstance(e.left, ast.List) or isinstance(e.right, ast.List)))

    def lst(self, e, env):
        """list-valued expressions of the stateful subset: [x] * n, n * [x], [x], a local list variable, self._events"""
        if ast.unparse(e) == 'self._events' and '@events' in env:
            return env['@events']
        if isinstance(e, ast.Name) and e.id in env and self.types.get(env[e.id]) == 'L':
            return env[e.id]
        if (isinstance(e, ast.BinOp) and isinstance(e.op, ast.Mult) and isinstance(e.right, ast.List) and
                len(e.right.elts) == 1):
            return '(repeat %s (Z.to_nat %s))' % (self.z(e.right.elts[0], env), self.z(e.left, env))
        if (isinstance(e, ast.BinOp) and isinstance(e.op, ast.Mult) and isinstance(e.left, ast.List) and
                len(e.left.elts) == 1):
            return '(repeat %s (Z.to_nat %s))' % (self.z(e.left.elts[0], env), self.z(e.right, env))
        if isinstance(e, ast.List) and len(e.elts) == 1:
            return '(%s :: nil)' % self.z(e.elts[0], env)
        raise TranslationError('list expression %s' % ast.unparse(e)[:40])

    def events_update(self, s, env):
        """If statement s mutates self._events in a supported way return the new list term, else None."""
        if '@events' not in env:
            return None
        ev = env['@events']
        if isinstance(s, ast.Expr) and isinstance(s.value, ast.Call) and isinstance(s.value.func, ast.Attribute) \
                and ast.unparse(s.value.func.value) == 'self._events' and len(s.value.args) == 1:
            if s.value.func.attr == 'append':
                return '(%s ++ (%s :: nil))' % (ev, self.z(s.value.args[0], env))
            if s.value.func.attr == 'extend':
                return '(%s ++ %s)' % (ev, self.lst(s.value.args[0], env))
            raise TranslationError('list method %s' % s.value.func.attr)
        def bound(b):
            return 'None' if b is None else '(Some %s)' % self.z(b, env)
        if isinstance(s, ast.Delete) and len(s.targets) == 1 and isinstance(s.targets[0], ast.Subscript) and \
                ast.unparse(s.targets[0].value) == 'self._events' and isinstance(s.targets[0].slice, ast.Slice) and \
                s.targets[0].slice.step is None:
            sl = s.targets[0].slice
            return '(py_del_slice %s %s %s)' % (ev, bound(sl.lower), bound(sl.upper))
        if isinstance(s, ast.Assign) and len(s.targets) == 1 and isinstance(s.targets[0], ast.Subscript) and \
                ast.unparse(s.targets[0].value) == 'self._events' and isinstance(s.targets[0].slice, ast.Slice):
            sl = s.targets[0].slice
            if sl.lower is None and sl.step is None and isinstance(sl.upper, ast.Constant) and sl.upper.value == 0:
                return '(%s ++ %s)' % (self.lst(s.value, env), ev)        # l[:0] = xs  prepends
            raise TranslationError('slice assignment')
        return None

    def is_elem(self, e):
        """self._events[i] where i is the loop index of a `for i in range(len(self))` element-wise loop."""
        return (self.loop_index is not None and isinstance(e, ast.Subscript) and
                isinstance(e.value, ast.Attribute) and isinstance(e.value.value, ast.Name) and
                e.value.value.id == 'self' and e.value.attr == '_events' and
                isinstance(e.slice, ast.Name) and e.slice.id == self.loop_index)

    def z(self, e, env):
        t, ty = self.expr(e, env)
        if ty != 'Z':
            raise TranslationError('boolean used as an integer')
        return t

    def f(self, e, env):
        t, ty = self.expr(e, env)
        if ty == 'F':
            return t
        if ty == 'Z':
            return '(f_of_Z %s)' % t
        raise TranslationError('boolean used as a float')

    def b(self, e, env):
        t, ty = self.expr(e, env)
        return t if ty == 'bool' else '(negb (%s =? 0))' % t   # int in boolean context

    def with_effects(self, build):
        """Translate one expression with `build`, wrapping callee binds and division guards around `k text`."""
        self.calls, self.guards = [], []
        text = build()
        calls, guards = self.calls, self.guards

        def wrap(body):
            for g in reversed(guards):
                if isinstance(g, tuple) and g[0] == 'fzero':
                    body = 'if PrimFloat.eqb %s 0%%float then None else %s' % (g[1], body)
                elif isinstance(g, tuple) and g[0] == 'fin':
                    body = 'if finb %s then %s else None' % (g[1], body)
                elif isinstance(g, tuple) and g[0] == 'cond':
                    body = 'if %s then %s else None' % (g[1], body)
                else:
                    body = 'if (%s =? 0) then None else %s' % (g, body)
            for tmp, call in reversed(calls):
                body = 'match %s with Some %s => %s | None => None end' % (call, tmp, body)
            return body
        return text, wrap

    # ---- statements: translate a block followed by a continuation (text of what happens after it)
    def block(self, stmts, env, rest, kind):
        if not stmts:
            if rest is None:
                if kind == 'unit':
                    return 'Some tt'
                if kind == 'elem':
                    return 'Some %s' % env['@elem']
                if kind == 'state':
                    return 'Some (%s)' % ', '.join([env['@events']] + [env['self.' + a] for a in self.state_attrs])
                raise TranslationError('control reaches the end of the function without return')
            return rest(env)
        s, tail = stmts[0], stmts[1:]
        if isinstance(s, ast.Expr) and isinstance(s.value, ast.Constant) and isinstance(s.value.value, str):
            return self.block(tail, env, rest, kind)
        if isinstance(s, ast.Return):
            if kind == 'ZZ':
                if not (isinstance(s.value, ast.Tuple) and len(s.value.elts) == 2):
                    raise TranslationError('expected a pair')
                text, wrap = self.with_effects(
                    lambda: '(%s, %s)' % (self.z(s.value.elts[0], env), self.z(s.value.elts[1], env)))
            elif kind == 'bool':
                text, wrap = self.with_effects(lambda: self.b(s.value, env))
            elif kind == 'F':
                text, wrap = self.with_effects(lambda: self.f(s.value, env))
            else:
                text, wrap = self.with_effects(lambda: self.z(s.value, env))
            return wrap('Some %s' % text)
        if isinstance(s, ast.Raise):
            return 'None'
        if isinstance(s, ast.Continue) and kind == 'elem':
            return 'Some %s' % env['@elem']          # the iteration ends here with the element as it is now
        if isinstance(s, ast.Delete) and all(isinstance(t, ast.Name) for t in s.targets):
            return self.block(tail, env, rest, kind)      # `del a, b` of local names: no effect on the result
        if kind == 'state':
            box = {}

            def build():
                box['t'] = self.events_update(s, env)
                return box['t'] or ''
            text, wrap = self.with_effects(build)
            if box['t'] is not None:
                self.fresh += 1
                var = 'events_%d' % self.fresh
                env2 = dict(env)
                env2['@events'] = var
                return wrap('let %s := %s in %s' % (var, text, self.block(tail, env2, rest, kind)))
        if isinstance(s, ast.AugAssign) and isinstance(s.op, (ast.Add, ast.Sub)):
            # x += e  ==  x = x + e
            load = ast.parse(ast.unparse(s.target), mode='eval').body
            s = ast.Assign(targets=[s.target], value=ast.BinOp(left=load, op=s.op, right=s.value))
        if isinstance(s, ast.Assign) and len(s.targets) == 1:
            tgt = s.targets[0]
            if self.is_elem(tgt):
                key = '@elem'
            elif isinstance(tgt, ast.Name):
                key = tgt.id
            elif isinstance(tgt, ast.Attribute) and isinstance(tgt.value, ast.Name) and tgt.value.id == 'self':
                key = 'self.' + tgt.attr
            else:
                raise TranslationError('assignment target')
            if isinstance(tgt, ast.Name) and isinstance(s.value, ast.Dict):
                # a local constant table {const: int-expr}: kept symbolically, read through `in` and subscripts
                items = []
                for kx, vx in zip(s.value.keys, s.value.values):
                    if kx is None:
                        raise TranslationError('dict unpacking')
                    text_k, wrap_k = self.with_effects(lambda: self.z(kx, env))
                    text_v, wrap_v = self.with_effects(lambda: self.z(vx, env))
                    if wrap_k('x') != 'x' or wrap_v('x') != 'x':
                        raise TranslationError('dict entry with effects')
                    items.append((text_k, text_v))
                env2 = dict(env)
                env2['@dict:' + tgt.id] = items
                env2.pop(tgt.id, None)
                return self.block(tail, env2, rest, kind)
            if isinstance(tgt, ast.Name) and kind == 'state' and isinstance(s.value, (ast.List, ast.BinOp)) and \
                    self.is_list_expr(s.value):
                text, wrap = self.with_effects(lambda: self.lst(s.value, env))
                self.fresh += 1
                var = '%s_%d' % (tgt.id, self.fresh)
                env2 = dict(env)
                env2[tgt.id] = var
                self.types[var] = 'L'
                return wrap('let %s := %s in %s' % (var, text, self.block(tail, env2, rest, kind)))
            box = {}

            def build():
                t, ty = self.expr(s.value, env)
                if ty == 'bool' and not isinstance(tgt, ast.Name):
                    raise TranslationError('boolean assigned to an attribute or element')
                box['ty'] = 'B' if ty == 'bool' else ty
                return t
            text, wrap = self.with_effects(build)
            self.fresh += 1
            var = '%s_%d' % (key.replace('self.', 'self_').replace('@', '').lstrip('_') or 'v', self.fresh)
            env2 = dict(env)
            env2[key] = var
            self.types[var] = box['ty']
            return wrap('let %s := %s in %s' % (var, text, self.block(tail, env2, rest, kind)))
        if isinstance(s, ast.If):
            cond, wrap = self.with_effects(lambda: self.b(s.test, env))
            # assignments inside branches must flow to the code after the if: continuation-passing
            cont = (lambda e2: self.block(tail, e2, rest, kind)) if (
                tail or rest is not None or kind in ('unit', 'elem', 'state')) else None
            then = self.block(s.body, env, cont, kind)
            els = self.block(s.orelse, env, cont, kind) if s.orelse else (
                cont(env) if cont else self._noelse())
            return wrap('if %s then %s else %s' % (cond, then, els))
        raise TranslationError('statement %s' % type(s).__name__)

    def _noelse(self):
        raise TranslationError('if without else at the end of a function that must return')


def translate(modname, qual, coqname, kind, coqnames, ptypes=None):
    upto = None
    if '@' in qual:          # "f@name": the value of local variable `name` after the straight-line prefix of f's body
        qual, upto = qual.split('@')
    nested = None
    if '/' in qual:          # "outer/inner": a function defined inside another one; its free variables are parameters
        qual, nested = qual.split('/')
    mod, fn = _get(modname, qual)
    src = textwrap.dedent(inspect.getsource(fn))
    tree = ast.parse(src)
    fd = tree.body[0]
    if not isinstance(fd, ast.FunctionDef):
        raise TranslationError('not a function: %s' % qual)
    if nested:
        inner = [n for n in ast.walk(fd) if isinstance(n, ast.FunctionDef) and n.name == nested]
        if len(inner) != 1:
            raise TranslationError('nested function %s not found exactly once in %s' % (nested, qual))
        # locals of the enclosing function that the nested one reads (simple top-level assignments before its
        # definition, e.g. a hoisted `use_x = x > 0.0`) are replayed as a prefix of the nested body
        reads = set(n.id for n in ast.walk(inner[0]) if isinstance(n, ast.Name) and isinstance(n.ctx, ast.Load))
        own = set(a_.arg for a_ in inner[0].args.args) | set(
            t.id for n in ast.walk(inner[0]) if isinstance(n, ast.Assign) for t in n.targets if isinstance(t, ast.Name))
        prefix = []
        for st in fd.body:
            if st is inner[0] or (hasattr(st, 'lineno') and st.lineno >= inner[0].lineno):
                break
            if isinstance(st, ast.Assign) and len(st.targets) == 1 and isinstance(st.targets[0], ast.Name) and \
                    st.targets[0].id in reads - own and st.targets[0].id not in (ptypes or {}):
                prefix.append(st)
        fd = inner[0]
        fd.body = prefix + fd.body
    if upto:
        # "f@a" : value of local a after the straight-line prefix ending at its first assignment;
        # "f@a,b": the pair (a, b) after the prefix that contains the first assignment of both (order-insensitive)
        wanted = upto.split(',')
        body0 = [x for x in fd.body if not (isinstance(x, ast.Expr) and isinstance(x.value, ast.Constant))]
        if upto == 'slice':
            # "f@slice": f ends in `return X[lo:hi]` (or `y = X[lo:hi]; return y`); the value is the pair (lo, hi) --
            # a description by behaviour, insensitive to the names of the locals that hold the bounds
            if not (body0 and isinstance(body0[-1], ast.Return)):
                raise TranslationError('%s does not end in a return' % qual)
            rv = body0[-1].value
            cut = len(body0) - 1
            if isinstance(rv, ast.Name) and cut >= 1 and isinstance(body0[-2], ast.Assign) and \
                    len(body0[-2].targets) == 1 and isinstance(body0[-2].targets[0], ast.Name) and \
                    body0[-2].targets[0].id == rv.id:
                rv = body0[-2].value
                cut -= 1
            if not (isinstance(rv, ast.Subscript) and isinstance(rv.slice, ast.Slice) and rv.slice.step is None and
                    rv.slice.lower is not None and rv.slice.upper is not None):
                raise TranslationError('%s does not return a two-sided slice' % qual)
            fd.body = body0[:cut] + [ast.Return(value=ast.Tuple(elts=[rv.slice.lower, rv.slice.upper], ctx=ast.Load()))]
            wanted = []
        last = -1
        for w in wanted:
            idx = [i for i, x in enumerate(body0) if isinstance(x, ast.Assign) and len(x.targets) == 1 and
                   isinstance(x.targets[0], ast.Name) and x.targets[0].id == w]
            if not idx:
                raise TranslationError('no assignment to %s in %s' % (w, qual))
            last = max(last, idx[0])
        if wanted:
            names_ = [ast.Name(id=w, ctx=ast.Load()) for w in wanted]
            ret = names_[0] if len(names_) == 1 else ast.Tuple(elts=names_, ctx=ast.Load())
            fd.body = body0[:last + 1] + [ast.Return(value=ret)]
    a = fd.args
    if a.vararg or a.kwarg or a.kwonlyargs or a.kw_defaults:   # positional defaults are fine: every parameter is explicit
        raise TranslationError('unsupported signature: %s' % qual)
    tr = Tr(mod, coqnames)
    tr.cls = None
    if '.' in qual:
        owner = mod
        for part in qual.split('.')[:-1]:
            owner = getattr(owner, part, None)
        tr.cls = owner if inspect.isclass(owner) else None
    tr.fresh = 0
    tr.loop_index = None
    tr.types = dict((k, v) for k, v in (ptypes or {}).items())
    params, env = [], {}
    names = [x.arg for x in a.args]
    if names and names[0] == 'self':
        names = names[1:]
        # attributes of self that the body READS before assigning become parameters
        reads = []
        assigned = set()
        for node in ast.walk(fd):
            if isinstance(node, ast.Attribute) and isinstance(node.value, ast.Name) and node.value.id == 'self':
                if isinstance(node.ctx, ast.Store):
                    assigned.add(node.attr)
                elif node.attr not in reads:
                    reads.append(node.attr)
        for r in sorted(reads):
            if r not in assigned or kind == 'state':
                p = 'self' + r
                params.append(p)
                env['self.' + r] = p
    if nested:
        for fv in (ptypes or {}):
            if fv not in names:          # free variables of the closure, in the order given
                params.append(fv)
                env[fv] = fv
    for n in names:
        if (ptypes or {}).get(n) == 'len':      # a sequence argument used only through len(): parameter len_<name>
            params.append('len_' + n)
            env['len(%s)' % n] = 'len_' + n
            continue
        params.append(n)
        env[n] = n
    stmts = [x for x in fd.body if not (isinstance(x, ast.Expr) and isinstance(x.value, ast.Constant))]
    if kind == 'state':
        # a method of an event sequence that edits self._events and scalar attributes in place: the translation maps
        # (events, attributes read, arguments) to (new events, every attribute the method assigns, sorted by name)
        tr.state_attrs = sorted(set(
            t.attr for n in ast.walk(fd) if isinstance(n, (ast.Assign, ast.AugAssign))
            for t in (n.targets if isinstance(n, ast.Assign) else [n.target])
            if isinstance(t, ast.Attribute) and isinstance(t.value, ast.Name) and t.value.id == 'self'))
        params = [q for q in params if q != 'self_events']
        for a_ in tr.state_attrs:             # an assigned attribute is also an input (x += 1 reads it)
            if 'self.' + a_ not in env:
                params.insert(0, 'self' + a_)
                env['self.' + a_] = 'self' + a_
        params = sorted(set(q for q in params if q.startswith('self'))) + [q for q in params if not q.startswith('self')]
        env.pop('self._events', None)
        env['@events'] = 'events'
        body = tr.block(fd.body, env, None, kind)
    elif kind == 'elem':
        # `for i in range(len(self)): BODY` where BODY reads/writes only self._events[i]: the method maps the
        # per-element function over the event list; the translation IS that per-element function (extra last
        # parameter `elem` = the element's value before the iteration, result = its value after it)
        # leading assignments that do not touch the events (loop-invariant locals such as `k = amount % 12`) are kept
        # as a prefix of the per-element function
        pre = []
        while len(stmts) > 1 and isinstance(stmts[0], ast.Assign) and len(stmts[0].targets) == 1 and \
                isinstance(stmts[0].targets[0], ast.Name) and '_events' not in ast.unparse(stmts[0].value):
            pre.append(stmts.pop(0))
        loop = stmts[0] if len(stmts) == 1 and isinstance(stmts[0], ast.For) and not stmts[0].orelse else None
        it = ast.unparse(loop.iter) if loop is not None else ''
        elem_name = None
        if loop is not None and isinstance(loop.target, ast.Name) and it in ('range(len(self))', 'range(len(self._events))'):
            tr.loop_index = loop.target.id
        elif loop is not None and isinstance(loop.target, ast.Tuple) and len(loop.target.elts) == 2 and \
                all(isinstance(x, ast.Name) for x in loop.target.elts) and it in ('enumerate(self._events)', 'enumerate(self)'):
            # for i, x in enumerate(self._events): x is the element's value at the START of the iteration
            tr.loop_index = loop.target.elts[0].id
            elem_name = loop.target.elts[1].id
        else:
            raise TranslationError('%s is not a single element-wise loop over the events' % qual)
        stmts = [loop]
        for node in ast.walk(stmts[0]):
            if isinstance(node, ast.Name) and node.id == tr.loop_index and not (
                    any(tr.is_elem(par) and par.slice is node for par in ast.walk(stmts[0]))):
                if node is not stmts[0].target and not (isinstance(stmts[0].target, ast.Tuple) and
                                                        node is stmts[0].target.elts[0]):
                    raise TranslationError('loop index used other than as self._events[i]')
        params = [p for p in params if p != 'self_events']
        params.append('elem')
        env['@elem'] = 'elem'
        if elem_name:
            env[elem_name] = 'elem'
        env.pop('self._events', None)
        body = tr.block(pre + stmts[0].body, env, None, kind)
    else:
        body = tr.block(fd.body, env, None, kind)
    ty = {'Z': 'Z', 'bool': 'bool', 'unit': 'unit', 'elem': 'Z', 'F': 'PrimFloat.float', 'ZZ': '(Z * Z)',
          'state': '(%s)' % ' * '.join(['list Z'] + ['Z'] * len(getattr(tr, 'state_attrs', [])))}[kind]
    if upto:
        import re as _re    # a prefix value depends only on the parameters it mentions
        params = [p for p in params if _re.search(r'(?<![\w.])%s(?![\w])' % _re.escape(p), body)]
    sig = ('(events : list Z) ' if kind == 'state' else '') + ' '.join(
        '(%s : %s)' % (p, {'F': 'PrimFloat.float', 'B': 'bool'}.get(tr.types.get(p), 'Z')) for p in params)
    return 'Definition %s %s : option %s :=\n  %s.\n' % (coqname, sig, ty, body), src


# coq name -> reason, for every target whose source could not be read this run.  One unreadable function must not take
# the other targets (other properties) down with it: its definition is simply absent from the generated file, so exactly
# the equivalence lemmas that mention it stop compiling (fail closed, per target).
FAILURES = {}


def _one(coqname, thunk):
    try:
        FAILURES.pop(coqname, None)
        return thunk()[0]
    except TranslationError as e:
        FAILURES[coqname] = str(e)
        return '(* NOT TRANSLATED this run (%s): %s *)\n' % (coqname, str(e).replace('*)', '* )'))
    except (AttributeError, OSError, TypeError, SyntaxError) as e:      # function renamed / moved / not introspectable
        FAILURES[coqname] = '%s: %s' % (type(e).__name__, e)
        return '(* NOT TRANSLATED this run (%s): %s *)\n' % (coqname, str(e).replace('*)', '* )'))


def generate():
    """Text of coq/Gen/Tr.v."""
    out = ['(* GENERATED on every run by harness/vt/pytr.py from the SOURCE TEXT of the note_seq functions named below.',
           '   Do not edit.  Proofs/TrEquiv.v proves each definition equal to the hand-written model. *)',
           'From Coq Require Import ZArith Bool.', 'Local Open Scope Z_scope.', '']
    done = {}
    for modname, qual, coqname, kind in TARGETS:
        coqnames = {q.split('.')[-1]: c for (m, q, c, k) in TARGETS if m == modname and c in done}
        out.append('(* %s.%s *)' % (modname, qual))
        out.append(_one(coqname, lambda: translate(modname, qual, coqname, kind, coqnames)))
        if coqname not in FAILURES:
            done[coqname] = True
    return '\n'.join(out)


# stateful methods of event sequences (generated into coq/Gen/TrS.v; list helpers come from Model/Events.v)
STATE_TARGETS = [
    ('note_seq.events_lib', 'SimpleEventSequence.append', 'trs_append', 'state', {}),
    ('note_seq.events_lib', 'SimpleEventSequence.set_length', 'trs_set_length', 'state', {'from_left': 'B'}),
]


def generate_state():
    """Text of coq/Gen/TrS.v."""
    out = ['(* GENERATED on every run by harness/vt/pytr.py from the SOURCE TEXT of the note_seq methods named below.',
           '   Do not edit.  Proofs/TrEquivS.v proves each definition equal to the hand-written model of Model/Events.v,',
           '   whose Python-list helpers (zlen, py_del_slice) the translation uses. *)',
           'From Coq Require Import ZArith Bool List.', 'From NS Require Import Model.Events.',
           'Import ListNotations.', 'Local Open Scope Z_scope.', '']
    for modname, qual, coqname, kind, ptypes in STATE_TARGETS:
        out.append('(* %s.%s *)' % (modname, qual))
        out.append(_one(coqname, lambda: translate(modname, qual, coqname, kind, {}, ptypes)))
    return '\n'.join(out)


def generate_float():
    """Text of coq/Gen/TrF.v (binary64 functions; PrimFloat, bit-exact)."""
    out = ['(* GENERATED on every run by harness/vt/pytr.py from the SOURCE TEXT of the note_seq functions named below.',
           '   Do not edit.  Proofs/TrEquivF.v proves each definition equal to the hand-written PrimFloat model. *)',
           'From Coq Require Import ZArith Bool Floats.', 'From NS Require Import Base.FloatBridge.',
           'Local Open Scope Z_scope.', '']
    for modname, qual, coqname, kind, ptypes in FLOAT_TARGETS:
        out.append('(* %s.%s *)' % (modname, qual))
        out.append(_one(coqname, lambda: translate(modname, qual, coqname, kind, {}, ptypes)))
    return '\n'.join(out)


if __name__ == '__main__':
    print(generate())
    print(generate_float())
    print(generate_state())
