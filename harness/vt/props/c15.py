"""C15 — a chord symbol computed from pitches denotes exactly those pitches.

ops
  namec  input = [container kind, pitches]       -> the same through a tuple / set / frozenset / range / dict keys /
                                                    list of numpy ints (the library itself passes a set)
  name   input = list of MIDI pitches            -> pitches_to_chord_symbol, then the name is interpreted with
                                                    the four chord_symbol_* functions
  parse  input = figure string                   -> chord_symbol_root / bass / pitches / quality
  pyset  input = list of ints in 0..11           -> list(set(x for x in input)) and list(set - {first})
                                                    (CPython iteration order, observable in the namer)
The model works on the structured symbol AFTER the regex split; the split itself is done here with
chord_symbols_lib._split_chord_symbol / _MODIFICATION_REGEX (lexing is exercised, not modelled).
"""
import itertools

from vt import coqgen as G

ID = 'C15'
USE_VM = False
RULE = ('name/namec: (pitch-class set, bass, first-occurrence order, octave layout incl. negative / >127 / huge pitches, '
        'doublings, container type) drawn from the complete space of '
        '4095 sets x bass (all of it in the thorough tier, in several layouts, plus every ordered sequence of <= 4 distinct '
        'pitch classes x bass); parse: figures of the chord grammar = root spelling x every abbreviation of the regenerated '
        'kind table x modification lists x optional bass, plus malformed strings; non-trivial = a name was produced / the '
        'figure was interpreted (not an error); distinct by canonical input')
ASSUMPTIONS = [
    'every implementation call is made twice (namer: same argument object; interpreters: shuffled order, then reverse '
    'order, the returned pitch list vandalised in between), the argument is compared with a copy, and the module-level '
    'tables are fingerprinted around every call; all operations of a run are interleaved in one process',
    'pitch collections are lists, tuples, sets, frozensets, ranges, dict key views or lists of numpy integers; a numpy '
    'ARRAY is outside the documented argument type ("a python list") and raises ValueError on `if not pitches`',
    'chord symbols are modelled after the regex split (root, kind abbreviation, (prefix, degree) list, bass); the split is '
    'done by the library\'s own _split_chord_symbol and _MODIFICATION_REGEX on every parse case; for produced names the '
    'figure string and its four interpretations are compared (the regex may split a name differently from how it was '
    'built, e.g. "m7b5" as "m7"+"b5", with the same meaning)',
    'degree strings of _SCALE_DEGREES/_CHORD_KINDS are modelled as the (number, alteration) pairs returned by '
    '_parse_degree; G15.v is emitted only if each string re-renders to itself (so string equality = pair equality) and '
    'chord-kind abbreviations are unique',
    'iteration order of a CPython set of ints 0..11 built by successive add (8-slot table, step 5i+1, resize to 32 slots '
    'at the fifth key) is part of the model and is compared with list(set(...)) on every run (op pyset)',
]
TRUSTED = ['regex lexing of figures by chord_symbols_lib (exercised on every case, not modelled)']
EXHAUSTIVE = {'quick': False, 'thorough': True}

EXN = {1: 'ChordSymbolError', 2: 'KeyError', 3: 'IndexError', 4: 'AssertionError', 5: 'NoTermination'}


# ---------------------------------------------------------------- tables regenerated from /repo
def _deg(csl, s):
    if not isinstance(s, str):
        raise TypeError('scale degree %r' % (s,))
    n, a = csl._parse_degree(s)
    if not isinstance(n, int) or not isinstance(a, int) or n < 0:
        raise TypeError('scale degree %r parsed to %r' % (s, (n, a)))
    if ('#' if a >= 0 else 'b') * abs(a) + str(n) != s:
        raise ValueError('scale degree %r does not re-render from %r' % (s, (n, a)))
    return '(%s, %s)' % (G.z(n), G.z(a))


def _charkeyed(name, tbl):
    rows = []
    for k, v in tbl.items():
        if not (isinstance(k, str) and len(k) == 1):
            raise TypeError('%s key %r' % (name, k))
        rows.append('(%s, %s)' % (G.z(ord(k)), G.z(v)))
    return 'Definition %s : list (Z * Z) := [%s].\n' % (name, '; '.join(rows))


def gen_coq():
    from note_seq import chord_symbols_lib as csl, constants
    s = G.HEADER
    s += '(* dicts in iteration order; keys of the first two are ord(step letter) *)\n'
    s += _charkeyed('STEPS_ABOVE', csl._STEPS_ABOVE)
    s += _charkeyed('STEPS_MIDI', csl._STEPS_MIDI)
    s += 'Definition DEGREE_OFFSETS : list (Z * Z) := [%s].\n' % '; '.join(
        '(%s, %s)' % (G.z(k), G.z(v)) for k, v in csl._DEGREE_OFFSETS.items())
    s += '(* _SCALE_DEGREES: degree strings as (number, alteration) *)\n'
    s += 'Definition SCALE_DEGREES : list (list (Z * Z)) :=\n  [%s].\n' % ';\n   '.join(
        '[' + '; '.join(_deg(csl, d) for d in row) + ']' for row in csl._SCALE_DEGREES)
    seen = set()
    rows = []
    for abbrevs, degs in csl._CHORD_KINDS:
        if not abbrevs:
            raise ValueError('chord kind without abbreviation')
        for ab in abbrevs:
            if not isinstance(ab, str):
                raise TypeError('abbreviation %r' % (ab,))
            if ab in seen:
                raise ValueError('abbreviation %r names two chord kinds' % ab)
            seen.add(ab)
        rows.append('([%s],\n    [%s])' % ('; '.join(G.string(ab) for ab in abbrevs), '; '.join(_deg(csl, d) for d in degs)))
    by = dict((ab, list(degs)) for abbrevs, degs in csl._CHORD_KINDS for ab in abbrevs)
    if dict((k, list(v)) for k, v in csl._CHORD_KINDS_BY_ABBREV.items()) != by:
        raise ValueError('_CHORD_KINDS_BY_ABBREV is not the dictionary of _CHORD_KINDS')
    s += '(* _CHORD_KINDS: (abbreviations as character codes, degrees) *)\n'
    s += 'Definition CHORD_KINDS : list (list (list Z) * list (Z * Z)) :=\n  [%s].\n' % ';\n   '.join(rows)
    fns = {csl._add_scale_degree: 0, csl._subtract_scale_degree: 1, csl._alter_scale_degree: 2}
    mods = []
    for key, (fn, alter) in csl._DEGREE_MODIFICATIONS.items():
        if fn not in fns:
            raise ValueError('unknown modification function for %r' % (key,))
        mods.append('(%s, (%s, %s))' % (G.string(key), G.z(fns[fn]), G.z(alter)))
    s += '(* _DEGREE_MODIFICATIONS: prefix -> (0 add | 1 subtract | 2 alter, alteration) *)\n'
    s += 'Definition DEGREE_MODIFICATIONS : list (list Z * (Z * Z)) :=\n  [%s].\n' % ';\n   '.join(mods)
    s += G.defstring('NO_CHORD', constants.NO_CHORD)
    for q in ('MAJOR', 'MINOR', 'AUGMENTED', 'DIMINISHED', 'OTHER'):
        s += G.defz('CHORD_QUALITY_' + q, getattr(csl, 'CHORD_QUALITY_' + q))
    return s


# ---------------------------------------------------------------- helpers on the implementation
def _exc(e):
    return ['EXC', type(e).__name__]


def _try(f):
    try:
        return ['OK', f()]
    except Exception as e:  # noqa
        return _exc(e)


def _lex(fig):
    """Structured form of a figure by the library's own regexes: [root, kind, [[prefix, degree]...], bass]."""
    from note_seq import chord_symbols_lib as csl
    root_str, kind_str, mods_str, bass_str = csl._split_chord_symbol(fig)
    mods = []
    while mods_str:
        m = csl._MODIFICATION_REGEX.match(mods_str)
        if not m or m.end() == 0:
            raise ValueError('modification regex does not consume %r' % mods_str)
        mods.append([m.group(1), int(m.group(2))])
        mods_str = mods_str[m.end():]
    return [root_str, kind_str, mods, bass_str[1:] if bass_str else '']


def _order(key, n):
    """A call order derived from the case itself (impl() has no rng): differs from case to case."""
    import random
    import zlib
    o = list(range(n))
    random.Random(zlib.crc32(repr(key).encode())).shuffle(o)
    return o


def _interp(fig):
    """The four interpreters, called in a case-dependent shuffled order and then again in the reverse order; the
    list returned by chord_symbol_pitches is vandalised in between (it must not alias module state). A result that
    changes between the two calls is reported as ['UNSTABLE', first, second]."""
    from note_seq import chord_symbols_lib as csl

    def pitches():
        raw = csl.chord_symbol_pitches(fig)
        val = sorted(set(raw))
        if isinstance(raw, list):
            raw.append(99)
            del raw[:]
        return val
    fns = [lambda: csl.chord_symbol_root(fig), lambda: csl.chord_symbol_bass(fig), pitches,
           lambda: csl.chord_symbol_quality(fig)]
    order = _order(fig, 4)
    first = [None] * 4
    for k in order:
        first[k] = _try(fns[k])
    for k in reversed(order):
        again = _try(fns[k])
        if again != first[k]:
            first[k] = ['UNSTABLE', first[k], again]
    return first


_CONTAINERS = ('list', 'tuple', 'set', 'frozenset', 'range', 'npints', 'dictkeys')


def _container(kind, pitches):
    """The pitch collection handed to the namer (sequences_lib.infer_chords_for_sequence passes a set)."""
    if kind == 'list':
        return list(pitches)
    if kind == 'tuple':
        return tuple(pitches)
    if kind == 'set':
        return set(pitches)
    if kind == 'frozenset':
        return frozenset(pitches)
    if kind == 'range':
        return range(pitches[0], pitches[0] + len(pitches)) if pitches else range(0)
    if kind == 'npints':
        import numpy as np
        return [np.int64(p) if -2 ** 62 < p < 2 ** 62 else p for p in pitches]
    if kind == 'dictkeys':
        return dict.fromkeys(pitches).keys()
    raise ValueError(kind)


def _as_iterated(case):
    """The pitches in the order the implementation iterates them (what the model is given)."""
    if case['op'] == 'name':
        return list(case['input'])
    return [int(p) for p in _container(case['input'][0], case['input'][1])]


def _tables_fp():
    from note_seq import chord_symbols_lib as csl
    return repr((csl._STEPS_ABOVE, csl._STEPS_MIDI, csl._DEGREE_OFFSETS, csl._SCALE_DEGREES, csl._CHORD_KINDS,
                 csl._CHORD_KINDS_BY_ABBREV,
                 [(k, getattr(v[0], '__name__', '?'), v[1]) for k, v in csl._DEGREE_MODIFICATIONS.items()]))


_TABLES = [None]


def _name(arg, pitches):
    from note_seq import chord_symbols_lib as csl
    before = list(arg) if not isinstance(arg, range) else None
    first = _try(lambda: csl.pitches_to_chord_symbol(arg))
    # same argument object, second call (large sets are slow to name: every third of those)
    twice = len(set(p % 12 for p in pitches)) <= 6 or _order(pitches, 3)[0] == 0
    again = _try(lambda: csl.pitches_to_chord_symbol(arg)) if twice else first
    if again != first:
        return ['UNSTABLE', first, again]
    if before is not None and (list(arg) != before or [type(x) for x in arg] != [type(x) for x in before]):
        return ['ARG-MUTATED', before, [int(x) for x in arg]]
    if first[0] == 'EXC':
        return first
    fig = first[1]
    if not isinstance(fig, str):
        return ['NOT-A-STRING', repr(fig)]
    if not pitches:
        return ['NO-CHORD', fig]
    return ['OK', fig, _interp(fig)]


def _impl(case):
    op, a = case['op'], case['input']
    if op == 'name':
        return _name(list(a), list(a))
    if op == 'namec':
        return _name(_container(a[0], a[1]), a[1])
    if op == 'parse':
        return ['OK', _interp(a)]
    if op == 'pyset':
        s = set(x for x in a)
        return ['OK', list(s), list(s - set([a[0]])) if a else []]
    raise ValueError(op)


def impl(case):
    """Every call is bracketed by a fingerprint of the module-level tables: a call that edits them is reported
    (once: the baseline then moves on, so that the replay names the call that did it)."""
    if _TABLES[0] is None:
        _TABLES[0] = _tables_fp()
    out = _impl(case)
    fp = _tables_fp()
    if fp != _TABLES[0]:
        _TABLES[0] = fp
        return ['TABLES-MUTATED', out]
    return out


# ---------------------------------------------------------------- model side
def model_input(case):
    op, a = case['op'], case['input']
    if op in ('name', 'namec'):
        return [1, _as_iterated(case)]
    if op == 'parse':
        try:
            root, kind, mods, bass = _lex(a)
        except Exception:  # not in the grammar: no model side (the oracle still checks the error class)
            return None
        return [2, root, kind, [[p, d] for p, d in mods], bass]
    if op == 'pyset':
        return [3, list(a)]


def _s(codes):
    return ''.join(chr(c) for c in codes)


def _mres(r, f=lambda x: x):
    if r[0] == 0:
        return ['OK', f(r[1])]
    return ['EXC', EXN.get(r[1], 'code%d' % r[1])]


def _minterp(m):
    return [_mres(m[0]), _mres(m[1]), _mres(m[2], lambda l: sorted(set(l))), _mres(m[3])]


def model_output(case, m):
    op = case['op']
    if op in ('name', 'namec'):
        if m[0] == -1000:
            return ['EXC', EXN.get(m[1], 'code%d' % m[1])]
        if m[0] == 1:
            return ['NO-CHORD', _s(m[1])]
        return ['OK', _s(m[1]), _minterp(m[2])]
    if op == 'parse':
        return ['OK', _minterp(m)]
    if op == 'pyset':
        return ['OK', list(m[0]), list(m[1])]


# ---------------------------------------------------------------- the property on the implementation
TRIADS = {'MAJOR': (0, 4, 7), 'MINOR': (0, 3, 7), 'AUGMENTED': (0, 4, 8), 'DIMINISHED': (0, 3, 6)}


def _consistency(fig, interp):
    """root/bass in 0..11; quality implies the triad; only ChordSymbolError escapes."""
    from note_seq import chord_symbols_lib as csl
    root, bass, pitches, quality = interp
    for name, r in zip(('root', 'bass', 'pitches', 'quality'), interp):
        if r[0] == 'EXC' and r[1] != 'ChordSymbolError':
            return {'kind': 'parse-foreign-exception', 'figure': fig, 'function': name, 'exception': r[1]}
    for name, r in (('root', root), ('bass', bass)):
        if r[0] == 'OK' and not (isinstance(r[1], int) and 0 <= r[1] <= 11):
            return {'kind': 'parse-pitch-class-out-of-range', 'figure': fig, 'function': name, 'value': r[1]}
    if pitches[0] == 'OK' and any(not (0 <= p <= 11) for p in pitches[1]):
        return {'kind': 'parse-pitch-class-out-of-range', 'figure': fig, 'function': 'pitches', 'value': pitches[1]}
    if (pitches[0] == 'OK') != (quality[0] == 'OK'):
        return {'kind': 'parse-pitches-quality-disagree-on-error', 'figure': fig}
    if pitches[0] == 'OK' and root[0] != 'OK':
        return {'kind': 'parse-root-fails-on-parseable-figure', 'figure': fig}
    if quality[0] == 'OK' and root[0] == 'OK' and pitches[0] == 'OK':
        for q, triad in TRIADS.items():
            if quality[1] == getattr(csl, 'CHORD_QUALITY_' + q):
                missing = [(root[1] + t) % 12 for t in triad if (root[1] + t) % 12 not in pitches[1]]
                if missing:
                    return {'kind': 'parse-quality-triad-missing', 'figure': fig, 'quality': q, 'missing': missing}
    return None


def _pitch_class_end(fig, i):
    """End of a pitch class [A-G](#*|b*)(?![#b]) starting at i, or None."""
    n = len(fig)
    if i >= n or fig[i] not in 'ABCDEFG':
        return None
    j = i + 1
    if j < n and fig[j] in '#b':
        ch = fig[j]
        while j < n and fig[j] == ch:
            j += 1
        if j < n and fig[j] in '#b':
            return None
    return j


def grammatical(fig):
    """Independent recogniser of the documented chord grammar (module docstring of chord_symbols_lib): root, one of
    the abbreviations of _CHORD_KINDS, zero or more modifications (optional parentheses, a prefix of
    _DEGREE_MODIFICATIONS, decimal digits), optional '/' + bass.  Built from the regenerated tables, not from the
    library's regular expressions."""
    from note_seq import chord_symbols_lib as csl
    abbrevs = set(ab for abs_, _ in csl._CHORD_KINDS for ab in abs_)
    prefixes = list(csl._DEGREE_MODIFICATIONS)
    if not isinstance(fig, str):
        return False
    if fig.endswith('\n'):          # '$' of the library's pattern also matches before one trailing newline
        fig = fig[:-1]
    n = len(fig)
    r = _pitch_class_end(fig, 0)
    if r is None:
        return False
    for ab in abbrevs:
        if not fig.startswith(ab, r):
            continue
        seen = set([r + len(ab)])
        todo = [r + len(ab)]
        while todo:
            p = todo.pop()
            if p == n:
                return True
            if fig[p] == '/' and _pitch_class_end(fig, p + 1) == n:
                return True
            for start in ((p, p + 1) if fig[p] == '(' else (p,)):
                for pre in prefixes:
                    if fig.startswith(pre, start):
                        d = start + len(pre)
                        k = d
                        while k < n and fig[k] in '0123456789':
                            k += 1
                        if k > d:
                            for e in ((k, k + 1) if k < n and fig[k] == ')' else (k,)):
                                if e not in seen:
                                    seen.add(e)
                                    todo.append(e)
    return False


def _unstable(interp):
    for name, r in zip(('root', 'bass', 'pitches', 'quality'), interp):
        if r and r[0] == 'UNSTABLE':
            return name
    return None


def _acceptance(fig, interp):
    """A figure outside the grammar is rejected by all four functions with exactly ChordSymbolError; a figure of the
    grammar always has a root and a bass."""
    root, bass, pitches, quality = interp
    if grammatical(fig):
        for name, r in (('root', root), ('bass', bass)):
            if r[0] != 'OK':
                return {'kind': 'parse-grammatical-figure-rejected', 'figure': fig, 'function': name, 'got': r}
    else:
        for name, r in zip(('root', 'bass', 'pitches', 'quality'), interp):
            if r != ['EXC', 'ChordSymbolError']:
                return {'kind': 'parse-ungrammatical-figure-not-rejected', 'figure': fig, 'function': name, 'got': r}
    return None


def oracle(case, io):
    op, a = case['op'], case['input']
    if io and io[0] == 'TABLES-MUTATED':
        return {'kind': 'module-table-mutated', 'op': op, 'input': a}
    if op in ('name', 'namec'):
        pitches_in = list(a) if op == 'name' else list(a[1])
        cont = 'list' if op == 'name' else a[0]
        if io[0] == 'UNSTABLE':
            return {'kind': 'name-repeated-call-differs', 'pitches': pitches_in, 'container': cont,
                    'first': io[1], 'second': io[2]}
        if io[0] == 'ARG-MUTATED':
            return {'kind': 'name-argument-mutated', 'pitches': pitches_in, 'container': cont, 'after': io[2]}
        if io[0] == 'EXC':
            if io[1] != 'ChordSymbolError':
                return {'kind': 'name-foreign-exception', 'pitches': pitches_in, 'container': cont, 'exception': io[1]}
            if not pitches_in:
                return {'kind': 'name-empty-not-no-chord', 'container': cont}
            return None
        if io[0] == 'NO-CHORD':
            from note_seq import constants
            if io[1] != constants.NO_CHORD:
                return {'kind': 'name-empty-not-no-chord', 'container': cont, 'got': io[1]}
            return None
        if io[0] != 'OK':
            return {'kind': 'harness-exception', 'detail': io}
        fig, interp = io[1], io[2]
        if _unstable(interp):
            return {'kind': 'parse-repeated-call-differs', 'figure': fig, 'function': _unstable(interp)}
        root, bass, pitches, quality = interp
        want = sorted(set(p % 12 for p in pitches_in))
        want_bass = min(pitches_in) % 12
        if pitches[0] != 'OK' or bass[0] != 'OK' or root[0] != 'OK' or quality[0] != 'OK':
            return {'kind': 'name-not-accepted-by-parser', 'pitches': pitches_in, 'container': cont, 'figure': fig,
                    'pitch_classes': want, 'bass': want_bass}
        got = sorted(set(pitches[1]) | set([bass[1]]))
        if got != want or bass[1] != want_bass:
            return {'kind': 'name-roundtrip-mismatch', 'pitches': pitches_in, 'container': cont, 'figure': fig,
                    'pitch_classes': want, 'bass': want_bass, 'denoted': got, 'denoted_bass': bass[1]}
        return _consistency(fig, interp) or _acceptance(fig, interp)
    if op == 'parse':
        if _unstable(io[1]):
            return {'kind': 'parse-repeated-call-differs', 'figure': a, 'function': _unstable(io[1])}
        return _consistency(a, io[1]) or _acceptance(a, io[1])
    return None


def nontrivial(case, io):
    op = case['op']
    if op in ('name', 'namec'):
        return io[0] == 'OK'
    if op == 'parse':
        return io[0] == 'OK' and io[1][2][0] == 'OK'
    return len(set(case['input'])) >= 2


# ---------------------------------------------------------------- generators
def _layout(rng, order, bass, mode):
    """A pitch list whose pitch classes first occur in `order` and whose lowest pitch has class `bass`."""
    base = 12 * rng.randint(1, 4) if mode else 48
    out = []
    for pc in order:
        if pc == bass:
            out.append(base + pc)
        else:
            out.append(base + 12 * (rng.randint(1, 4) if mode else 1) + pc)
    if mode >= 2:   # duplicates and octave doublings, appended so the first-occurrence order is unchanged
        for _ in range(rng.randint(1, 4)):
            pc = rng.choice(order)
            out.append(base + 12 * rng.randint(0 if pc == bass else 1, 5) + pc)
    return out


def _wild(rng, S, bass):
    """Any octaves incl. negative pitches, pitches above 127 and far outside the MIDI range, the range ends 0/127/128
    where they fit, doublings anywhere in the list, arbitrary order; the lowest pitch has class `bass`."""
    lo_oct = rng.choice([-40, -11, -2, -1, 0, 0, 1, 5, 9, 10, 11, 10 ** 6, -10 ** 17, 10 ** 28])
    out = [12 * lo_oct + bass]
    for pc in S:
        if pc == bass and rng.random() < 0.5:
            continue
        for _ in range(rng.choice([1, 1, 1, 2, 3])):
            o = lo_oct + rng.choice([0, 1, 1, 2, 3, 7, 11, 40]) if pc > bass or rng.random() < 0.5 else \
                lo_oct + rng.choice([1, 2, 5, 12])
            if pc <= bass and o == lo_oct and pc != bass:
                o += 1
            out.append(12 * o + pc)
    first = out[0]
    rng.shuffle(out)
    assert min(out) == first and set(p % 12 for p in out) == set(S)
    return out


def _all_sets():
    for m in range(1, 4096):
        yield [i for i in range(12) if m >> i & 1]


ROOTS = [l + acc for l in 'ABCDEFG' for acc in ('', '#', 'b', '##', 'bb', '###', 'bbbbbbbbbbbbb')]
MOD_DEGREES = [1, 2, 3, 4, 5, 6, 7, 9, 11, 13, 0, 8, 14, 10, 12, 21]
BAD_FIGURES = ['', 'H', 'Cfoo', 'C/', 'C//G', 'Cm7/H', 'c', 'C#b', 'N.C.', ' C', 'C7(add', 'Cb#', 'X7', 'C(9)',
               'Cadd', 'Cno', 'C/Gm', 'Am7 ', 'C(addbb7)', 'C(bb7)', 'Cped(addb7', 'C6/9/9', 'C(add-1)']


def _figure(rng, abbrevs, prefixes, nmods=None):
    root = rng.choice(ROOTS)
    kind = rng.choice(abbrevs)
    k = rng.choice([0, 0, 1, 1, 2, 3, 5]) if nmods is None else nmods
    mods = ''
    for _ in range(k):
        p = rng.choice(prefixes)
        d = rng.choice(MOD_DEGREES[:10]) if rng.random() < 0.85 else rng.choice(MOD_DEGREES)
        style = rng.randint(0, 3)
        mods += ('(' if style & 1 else '') + p + str(d) + (')' if style & 2 else '')
    bass = '/' + rng.choice(ROOTS) if rng.random() < 0.4 else ''
    return root + kind + mods + bass


def corpus():
    from note_seq import chord_symbols_lib as csl
    out = [{'op': 'name', 'input': p} for p in (
        [], [60], [60, 49], [60, 71], [60, 64, 67], [59, 62, 67], [53, 60, 64, 67, 70], [67, 71, 72, 74, 77],
        list(range(60, 72)), [48, 61, 69], [48, 69, 61], [-1, -13, 0], [60, 64, 67, 71], [60, 70], [60, 69, 75],
        [62, 60, 64, 67], [60, 62, 64, 67], [49, 60, 64, 68], [60, 63, 66, 69], [57, 60, 64, 67], [60, 60, 72],
        [62, 66, 69, 76], [60, 62, 67, 71], [60, 62, 67, 70], [12, 1],
        [0], [127], [128], [0, 127], [1, 128], [0, 4, 7], [120, 124, 127], [-12, -8, -5], [-1], [131, 128, 135, 140],
        [10 ** 30, 10 ** 30 + 4, 10 ** 30 + 7], [-10 ** 20 + 1, 5, 9], [60] * 7, [72, 60, 72, 60], [36, 49, 50, 51, 52])]
    out += [{'op': 'namec', 'input': [k, p]} for k, p in (
        ('tuple', []), ('set', []), ('frozenset', []), ('range', []), ('dictkeys', []), ('npints', []),
        ('tuple', [60, 64, 67]), ('set', [60, 64, 67]), ('frozenset', [67, 64, 60]), ('npints', [60, 64, 67]),
        ('set', [48, 61, 69]), ('set', [69, 61, 48]), ('tuple', [48, 69, 61]), ('range', [60, 61, 62]),
        ('range', [-3, -2, -1, 0, 1]), ('dictkeys', [64, 60, 67, 60]), ('set', [0, 127, 128, 8, 16, 24]),
        ('frozenset', [-1, -13, 0, 95]), ('npints', [10 ** 30, 4, 7]), ('set', list(range(40, 52))))]
    out += [{'op': 'parse', 'input': f} for f in (
        ('C', 'Cm', 'C+', 'Co', 'C7', 'D7b9', 'C-(M7)', 'G(add2)(#5)', 'Abm7/Cb', 'D##5(add6)', 'F(b7)(#9)(b13)',
        'Cped(add7)', 'Cped(add#7)', 'Cped(addb7)', 'C7(add7)', 'C(no3)', 'C(no4)', 'Csus(add3)', 'C6/9', 'C6/9/E',
        'Cm7b5', 'Cm7(b5)', 'C(b5)', 'C(#5)', 'Cm(b5)', 'C(add0)', 'C(add14)', 'C(no1)', 'C(b1)', 'C(#3)', 'C/o7',
         'C(add2', 'Cadd2)', 'C(b5(#9)', 'Cno5)(b9', 'C\n', 'C7(add9)(add9)', 'C7(#9)(b5)(no3)(no3)',
         'C(add2)(no4)', 'Cm7(b5)(add11)(add7)', 'C(no1)', 'Cm(#1)', 'Bb+(b1)/E', 'Co(no1)', 'C(add09)',
         'C(add100000000000000000000)', 'C##', 'Cbb', 'C##m7/Fbb', 'Ebbbmaj7/G###', 'Cb5', 'Cb5(b5)', 'C(b5)/Cb',
         'C/C', 'C/B#', 'B#/C', 'Cm/o7', 'C/o', 'C-/o7/G', 'C6/9/Gb') + tuple(BAD_FIGURES))]
    out += [{'op': 'pyset', 'input': l} for l in ([], [0], [8, 0], [0, 8], [3, 11, 0, 8], [11, 3, 8, 0], [9, 1, 2, 10, 0],
                                                   [0, 8, 0, 8], [11, 10, 9, 8, 7, 6, 5, 4, 3, 2, 1, 0])]
    return out


def cases(rng, tier, n=None):
    from note_seq import chord_symbols_lib as csl
    thorough = tier == 'thorough'
    out = []
    sets = list(_all_sets())
    # --- name ---
    if thorough:
        for S in sets:
            for b in S:
                out.append({'op': 'name', 'input': _layout(rng, S, b, 0)})
                perm = list(S)
                rng.shuffle(perm)
                out.append({'op': 'name', 'input': _layout(rng, perm, b, 1)})
                perm = list(S)
                rng.shuffle(perm)
                out.append({'op': 'name', 'input': _layout(rng, perm, b, 2)})
        for k in range(1, 5):
            for seq in itertools.permutations(range(12), k):
                for b in seq:
                    out.append({'op': 'name', 'input': _layout(rng, list(seq), b, 0)})
    else:
        for S in sets:                                   # every set once, random bass, sorted layout
            out.append({'op': 'name', 'input': _layout(rng, S, rng.choice(S), 0)})
        for S in rng.sample(sets, 1500):                 # random order / octaves / duplicates
            perm = list(S)
            rng.shuffle(perm)
            out.append({'op': 'name', 'input': _layout(rng, perm, rng.choice(S), rng.choice([1, 2]))})
        small = [list(seq) for k in range(1, 5) for seq in itertools.permutations(range(12), k)]
        for seq in [s for s in small if len(s) <= 2] + rng.sample(small, 1500):
            out.append({'op': 'name', 'input': _layout(rng, seq, rng.choice(seq), 0)})
    # wild layouts (negative, > 127, huge, doublings anywhere, unsorted) and every container type
    for S in (sets if thorough else rng.sample(sets, 700)):
        for b in (S if thorough else [rng.choice(S)]):
            out.append({'op': 'name', 'input': _wild(rng, S, b)})
    for S in rng.sample(sets, 4095 if thorough else 900):
        kind = rng.choice([k for k in _CONTAINERS if k != 'range'])
        b = rng.choice(S)
        pitches = _wild(rng, S, b) if rng.random() < 0.5 else _layout(rng, rng.sample(S, len(S)), b, 2)
        out.append({'op': 'namec', 'input': [kind, pitches]})
    for _ in range(300 if thorough else 60):
        lo = rng.choice([-14, -1, 0, 55, 60, 120, 127, 128, 1000])
        out.append({'op': 'namec', 'input': ['range', list(range(lo, lo + rng.randint(0, 7)))]})
    # the same set under every bass in consecutive calls (a result cached per set would show)
    for S in rng.sample(sets, 600 if thorough else 120):
        order = rng.sample(S, len(S))
        for b in S:
            out.append({'op': 'name', 'input': _layout(rng, order, b, 1)})
    # --- parse ---
    abbrevs = list(csl._CHORD_KINDS_BY_ABBREV)
    prefixes = list(csl._DEGREE_MODIFICATIONS)
    # every root spelling x every bass spelling (incl. double / triple / 13-fold accidentals)
    for r in ROOTS:
        out.append({'op': 'parse', 'input': r})
        for b in ROOTS:
            out.append({'op': 'parse', 'input': r + rng.choice(abbrevs) + '/' + b})
    # rejection after valid modifications: 0..3 alterations (never rejected), then an add of a degree the kind has /
    # a subtraction of a degree it lacks, then optionally more
    for abbrevs_, degs in csl._CHORD_KINDS:
        have = sorted(set(csl._parse_degree(d)[0] for d in degs))
        lack = [d for d in (1, 2, 3, 4, 5, 6, 7, 9, 11, 13) if d not in have]
        for k in range(4):
            pre = ''.join('(%s%d)' % (rng.choice(['#', 'b']), rng.choice([9, 11, 13, 5])) for _ in range(k))
            post = rng.choice(['', '(add2)', '(no5)', '/G'])
            ab = rng.choice(abbrevs_)
            out.append({'op': 'parse', 'input': rng.choice(ROOTS[:21]) + ab + pre + '(add%d)' % rng.choice(have) + post})
            if lack:
                out.append({'op': 'parse', 'input': rng.choice(ROOTS[:21]) + ab + pre + '(no%d)' % rng.choice(lack) + post})
            out.append({'op': 'parse', 'input': rng.choice(ROOTS[:21]) + ab + pre + '(add9)' * 2 + post})
    # two-step use: the pitches a figure denotes (bass below) are named again
    for _ in range(3000 if thorough else 400):
        f = _figure(rng, abbrevs, prefixes)
        try:
            ps = [int(x) for x in csl.chord_symbol_pitches(f)]
            b = int(csl.chord_symbol_bass(f))
        except Exception:  # noqa  (rejected figure, or a broken interpreter: the parse cases report that)
            continue
        if ps and all(0 <= x <= 11 for x in ps + [b]):
            out.append({'op': 'name', 'input': [36 + b] + [48 + x for x in ps]})
    for ab in abbrevs:                                   # every abbreviation, bare and with each single modification
        out.append({'op': 'parse', 'input': 'C' + ab})
        for p in prefixes:
            for d in (MOD_DEGREES if thorough else MOD_DEGREES[:10]):
                out.append({'op': 'parse', 'input': rng.choice(ROOTS[:21]) + ab + '(' + p + str(d) + ')'})
    for _ in range(40000 if thorough else 2500):
        out.append({'op': 'parse', 'input': _figure(rng, abbrevs, prefixes)})
    for f in BAD_FIGURES:
        out.append({'op': 'parse', 'input': f})
    for _ in range(2000 if thorough else 200):          # damaged figures
        f = _figure(rng, abbrevs, prefixes)
        i = rng.randrange(len(f) + 1)
        out.append({'op': 'parse', 'input': f[:i] + rng.choice('#b/()mH7 x') + f[i + rng.randint(0, 1):]})
    # --- set order ---
    if thorough:
        for k in range(0, 6):
            for seq in itertools.permutations(range(12), k):
                out.append({'op': 'pyset', 'input': list(seq)})
    for _ in range(5000 if thorough else 1200):
        out.append({'op': 'pyset', 'input': [rng.randrange(12) for _ in range(rng.randint(0, 14))]})
    # all operations interleaved in one process, then the first cases once more after everything else has run
    # (the model is stateless, so a result that depends on an earlier call diverges from it)
    rng.shuffle(out)
    out += [dict(c) for c in out[:1000 if thorough else 300]]
    if n is not None:
        step = max(1, len(out) // max(n, 1))
        out = out[::step][:n]
    return out


def shrink(case):
    op, a = case['op'], case['input']
    if op == 'name':
        for i in range(len(a)):
            yield {'op': op, 'input': a[:i] + a[i + 1:]}
        lo = min(a) if a else 0
        if a and lo >= 12:
            yield {'op': op, 'input': [p - 12 * (lo // 12) for p in a]}
        for i, p in enumerate(a):
            if p - 12 > lo:
                yield {'op': op, 'input': a[:i] + [p - 12] + a[i + 1:]}
    elif op == 'namec':
        kind, ps = a
        if kind != 'range':
            yield {'op': 'name', 'input': list(ps)}
            for i in range(len(ps)):
                yield {'op': op, 'input': [kind, ps[:i] + ps[i + 1:]]}
        else:
            yield {'op': op, 'input': [kind, ps[:-1]]}
            yield {'op': op, 'input': [kind, ps[1:]]}
    elif op == 'parse':
        for i in range(len(a)):
            yield {'op': op, 'input': a[:i] + a[i + 1:]}
    elif op == 'pyset':
        for i in range(len(a)):
            yield {'op': op, 'input': a[:i] + a[i + 1:]}


META = {
    'level_text': ('Theorems about the model for ALL pitch lists (any length, any integers, any order, duplicates): the '
                   'name produced by pitches_to_chord_symbol either is ChordSymbolError or is accepted by the interpreter '
                   'and denotes exactly the supplied pitch classes with the lowest pitch as bass. Proved by complete '
                   'in-kernel enumeration (vm_compute at Qed, 4 shards, per-root search memoised by a table whose use is proved sound) of all 4095 pitch-class sets x every bass x, for sets of '
                   '<= 4 classes, every first-occurrence order (the CPython set order the code depends on), lifted to '
                   'arbitrary lists by general lemmas (the name is a function of first-occurrence order and bass; of set '
                   'and bass when >= 5 classes). Interpreter consistency (root/bass in 0..11, quality implies its triad) '
                   'is proved for every structured symbol. The model follows the code with notes/C15-fix-1.diff and C15-fix-2.diff; the '
                   'model of the code as found is proved to violate the round trip (C15_as_found_refuted). The model is tied to the code by differential runs: names, '
                   'their regex split, and the four interpretations are compared on every case.'),
    'level_note': ('Trusted: Coq kernel + vm_compute; hand-written model Model/ChordSym.v (tied by correspondence, incl. '
                   'the CPython small-int set iteration order); regex lexing of figures is done by the library itself and '
                   'is exercised, not modelled; tables regenerated from the imported module into Gen/G15.v each run.'),
}
