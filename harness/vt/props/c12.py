"""C12 — results do not depend on the storage order of notes and events.

Coq half (coq/Props/C12.v): perm_invariant_<op> theorems — `Permutation` of every
repeated field gives Permutation-equal outputs (equal outputs for the event
extractors) — about the Gallina models that the C01/C02/C03/C07/C10/C13/C14
checks tie to the code.

Implementation half (this module): the statement itself is evaluated on the real
code: every operation is run on the sequence as generated and on permuted copies
(each repeated field shuffled), and the canonical (multiset) outputs are compared.
Thorough tier: all permutations of the notes for <= 5 notes.

Model side (coq/Run/C12.v): for 17 of the 22 operations the imported models are run
on the same original / permuted wire-format sequences, the multiset comparison is
done inside the extracted Coq code, and the verdict (accepted or raises; which
permuted copies give another result) must be the verdict computed on the real code.
"""
import copy
import hashlib
import itertools
import random

from vt import nsio

ID = 'C12'
META = {
    'level_text': (
        'Proof (Coq, 36 statements): perm_invariant_<op> theorems for ALL sequences satisfying the named distinctness '
        'hypotheses and ALL permutations of each repeated field, about the Gallina models the other checks tie to '
        'the code; plus the property statement itself evaluated on the real implementation for every operation the '
        'property lists (original vs permuted storage order, canonical multiset outputs compared), plus the same '
        'verdict computed by the models on the same inputs (coq/Run/C12.v).'),
    'level_note': (
        'Permutation THEOREM (full strength): transpose_note_sequence, stretch_note_sequence, shift_sequence_times, '
        '_quantize_notes / quantize_note_sequence_absolute / quantize_note_sequence (validation verdict + per-element '
        'map, bit-exact float step function), _extract_subsequences, split_note_sequence (hop and list form), '
        'split_note_sequence_on_time_changes, split_note_sequence_on_silence, PianorollSequence, DrumTrack, '
        'ChordProgression, Melody, Performance/MetricPerformance event lists (+ program/is_drum), quantize-then-extract '
        'end to end, apply_sustain_control_changes (same verdict, same notes INCLUDING the new end times, same '
        'total_time; via C14\'s refinement sustain_refines_spec, the order independence of its specification and '
        'total_time = max(old total_time, latest new end)), MIDI export glue (note_sequence_to_pretty_midi without '
        'drop_events_n_seconds_after_last_note). No partial theorems remain. '
        'Implementation-side comparison ONLY (tested, not proved): sequence_to_pianoroll (numpy frame rolls), the '
        'drop_events_n_seconds_after_last_note argument and pretty_midi internals of MIDI export, NotePerformance. The theorems are about models; each model is tied to the code by its '
        'own property check (C01, C02, C03, C07, C10, C13, C14) and, for permutation behaviour, by the model side of '
        'this check.'),
}
RULE = ('one case = (operation, arguments, NoteSequence with no two same-pitch notes overlapping or coinciding and no two '
        'state events of one kind sharing a time, permutation seed); generators add targeted material per operation '
        '(abutting same-pitch notes inside a frame, events beyond the MIDI cut-off, notes starting together under a '
        'pedal); non-trivial when at least one repeated field with >= 2 elements is actually reordered; distinct by '
        'hash of the canonical case')
ASSUMPTIONS = ['outputs are compared as multisets (notes, events sorted on all fields); numpy rolls compared exactly',
               'event extractors: the quantifier is re-read on the quantized sequence (no two same-pitch notes '
               'overlap or coincide in steps, no two chord annotations share a step); cases outside it are skipped',
               'model side: transposition only with transpose_chords=False (chord figures are a separate encoding '
               'in the C10 model); quantization and MIDI export have no model side here (float / microsecond models)']

T = nsio.QUARTER_SEC
OPS = ['quantize_rel', 'quantize_abs', 'extract_many', 'extract_one', 'trim', 'split_hop', 'split_list',
       'split_time_changes', 'split_silence', 'sustain', 'transpose', 'stretch', 'shift', 'midi', 'pianoroll',
       'melody', 'drums', 'chords', 'pianorollseq', 'performance', 'metric_performance', 'note_performance']
# every repeated field an operation reads ('iinfos' = instrument_infos, read by MIDI export only)
FIELDS = ('notes', 'tempos', 'tsigs', 'ksigs', 'texts', 'ccs', 'bends', 'sects', 'iinfos')
IN_PLACE_OPS = ('transpose', 'stretch')


def _quiet():
    try:
        from absl import logging as absl_logging
        absl_logging.set_verbosity(absl_logging.ERROR)
    except Exception:  # noqa
        pass


def _to_proto(desc):
    ns = nsio.to_proto(desc)
    for (i, k) in desc.get('iinfos', []):
        ii = ns.instrument_infos.add()
        ii.instrument = i
        ii.name = 'name-%d' % k
    return ns


def _canon_seq(ns):
    w = nsio.to_wire(ns, tfun=lambda x: round(x * 1e9), qfun=lambda x: round(x * 1e6))
    out = []
    for part in w[:8]:
        out.append(sorted(part, key=repr))
    return out + w[8:]


def _permute(desc, seed, note_perm=None):
    rng = random.Random(seed)
    d = copy.deepcopy(desc)
    for f in FIELDS:
        xs = d.get(f, [])
        if f == 'notes' and note_perm is not None:
            d[f] = [xs[i] for i in note_perm]
        else:
            rng.shuffle(xs)
    return d


def _digest(x):
    return hashlib.sha1(repr(x).encode()).hexdigest()[:16]


def _quantized_distinct(q):
    """The quantifier's hypotheses re-read on the quantized sequence (event extraction sees steps, not seconds):
    no two same-pitch notes overlap or coincide in steps, no two chord annotations share a step."""
    seen = {}
    for n in q.notes:
        for (a, b) in seen.get(n.pitch, []):
            if (a < n.quantized_end_step and n.quantized_start_step < b) or a == n.quantized_start_step:
                return False
        seen.setdefault(n.pitch, []).append((n.quantized_start_step, n.quantized_end_step))
    steps = [t.quantized_step for t in q.text_annotations if t.annotation_type == 1]
    return len(steps) == len(set(steps))


def _events(m):
    return [[e.event_type, e.event_value] for e in m]


def _run(op, ns, p):
    """Run the REAL code with exactly the requested parameter values (every keyword passed explicitly)."""
    from note_seq import sequences_lib as sl
    _quiet()
    pres = p.get('pres')
    if op == 'quantize_rel':
        return _canon_seq(sl.quantize_note_sequence(ns, p['spq']))
    if op == 'quantize_abs':
        return _canon_seq(sl.quantize_note_sequence_absolute(ns, p['sps']))
    if op == 'extract_many':
        return [_canon_seq(s) for s in sl._extract_subsequences(ns, [nsio.t2f(t) for t in p['ts']],
                                                                 preserve_control_numbers=pres)]
    if op == 'extract_one':
        return _canon_seq(sl.extract_subsequence(ns, nsio.t2f(p['a']), nsio.t2f(p['b']),
                                                 preserve_control_numbers=pres))
    if op == 'trim':
        return _canon_seq(sl.trim_note_sequence(ns, nsio.t2f(p['a']), nsio.t2f(p['b'])))
    if op == 'split_hop':
        return [_canon_seq(s) for s in sl.split_note_sequence(ns, nsio.t2f(p['hop']),
                                                               skip_splits_inside_notes=bool(p['skip']))]
    if op == 'split_list':
        return [_canon_seq(s) for s in sl.split_note_sequence(ns, [nsio.t2f(t) for t in p['times']],
                                                               skip_splits_inside_notes=bool(p['skip']))]
    if op == 'split_time_changes':
        return [_canon_seq(s) for s in sl.split_note_sequence_on_time_changes(
            ns, skip_splits_inside_notes=bool(p['skip']))]
    if op == 'split_silence':
        return [_canon_seq(s) for s in sl.split_note_sequence_on_silence(ns, gap_seconds=nsio.t2f(p['gap']))]
    if op == 'sustain':
        return _canon_seq(sl.apply_sustain_control_changes(ns, sustain_control_number=p['ctl']))
    if op == 'transpose':
        r, k = sl.transpose_note_sequence(ns, p['amount'], min_allowed_pitch=p['lo'], max_allowed_pitch=p['hi'],
                                          transpose_chords=bool(p['chords']), in_place=bool(p['in_place']))
        return [_canon_seq(r), k, (r is ns) == bool(p['in_place'])]
    if op == 'stretch':
        r = sl.stretch_note_sequence(ns, p['f4'] / 4.0, in_place=bool(p['in_place']))
        return [_canon_seq(r), (r is ns) == bool(p['in_place'])]
    if op == 'shift':
        return _canon_seq(sl.shift_sequence_times(ns, nsio.t2f(p['d'])))
    if op == 'midi':
        from note_seq import midi_io
        pm = midi_io.note_sequence_to_pretty_midi(
            ns, drop_events_n_seconds_after_last_note=(None if p['drop'] is None else p['drop'] / 4.0))
        insts = []
        for i in pm.instruments:
            insts.append([i.program, int(i.is_drum), i.name,
                          sorted([n.pitch, n.velocity, round(n.start * 1e9), round(n.end * 1e9)] for n in i.notes),
                          sorted([c.number, c.value, round(c.time * 1e9)] for c in i.control_changes),
                          sorted([b.pitch, round(b.time * 1e9)] for b in i.pitch_bends)])
        tt, tv = pm.get_tempo_changes()
        return [sorted(insts, key=repr), [round(float(x) * 1e9) for x in tt], [round(float(x) * 1e6) for x in tv],
                sorted([t.numerator, t.denominator, round(t.time * 1e9)] for t in pm.time_signature_changes),
                sorted([k.key_number, round(k.time * 1e9)] for k in pm.key_signature_changes), pm.resolution]
    if op == 'pianoroll':
        import numpy as np
        r = sl.sequence_to_pianoroll(ns, frames_per_second=p['fps'], min_pitch=p['lo'], max_pitch=p['hi'],
                                     max_velocity=p['max_vel'], add_blank_frame_before_onset=bool(p['blank']),
                                     onset_upweight=float(p['upweight']), onset_window=p['window'],
                                     onset_length_ms=p['onset_ms'], offset_length_ms=p['offset_ms'],
                                     onset_mode=p['onset_mode'], onset_delay_ms=float(p['delay_ms']),
                                     min_frame_occupancy_for_label=p['occ4'] / 4.0,
                                     onset_overlap=bool(p['overlap']))
        return [[list(a.shape), _digest(np.ascontiguousarray(a).tobytes())] for a in r]
    # event-sequence extraction works on quantized sequences
    if op in ('performance', 'note_performance'):
        q = sl.quantize_note_sequence_absolute(ns, p['sps'])
    else:
        q = sl.quantize_note_sequence(ns, p['spq'])
    if not _quantized_distinct(q):
        return 'OUTSIDE-QUANTIFIER'
    if op == 'melody':
        from note_seq import melodies_lib
        m = melodies_lib.Melody()
        m.from_quantized_sequence(q, search_start_step=p['start'], instrument=p['instrument'],
                                  gap_bars=p['gap_bars'], ignore_polyphonic_notes=bool(p['ignore_poly']),
                                  pad_end=bool(p['pad_end']), filter_drums=bool(p['filter_drums']))
        return [list(m), m.start_step, m.end_step]
    if op == 'drums':
        from note_seq import drums_lib
        m = drums_lib.DrumTrack()
        m.from_quantized_sequence(q, search_start_step=p['start'], gap_bars=p['gap_bars'],
                                  pad_end=bool(p['pad_end']), ignore_is_drum=bool(p['ignore_is_drum']))
        return [[sorted(e) for e in m], m.start_step, m.end_step]
    if op == 'chords':
        from note_seq import chords_lib
        m = chords_lib.ChordProgression()
        m.from_quantized_sequence(q, p['start'], p['start'] + p['len'])
        return [list(m), m.start_step, m.end_step]
    if op == 'pianorollseq':
        from note_seq import pianoroll_lib
        m = pianoroll_lib.PianorollSequence(quantized_sequence=q, start_step=p['start'], min_pitch=p['lo'],
                                            max_pitch=p['hi'], split_repeats=bool(p['split']),
                                            shift_range=bool(p['shift_range']))
        return [[list(e) for e in m], m.start_step, m.end_step]
    if op == 'metric_performance':
        from note_seq import performance_lib
        m = performance_lib.MetricPerformance(quantized_sequence=q, start_step=p['start'],
                                              num_velocity_bins=p['bins'], max_shift_quarters=p['max_shift_q'],
                                              instrument=p['instrument'])
        return [_events(m), m.start_step, m.end_step, m.program, m.is_drum]
    if op == 'performance':
        from note_seq import performance_lib
        m = performance_lib.Performance(quantized_sequence=q, start_step=p['start'], num_velocity_bins=p['bins'],
                                        max_shift_steps=p['max_shift'], instrument=p['instrument'])
        return [_events(m), m.start_step, m.end_step, m.program, m.is_drum]
    if op == 'note_performance':
        from note_seq import performance_lib
        m = performance_lib.NotePerformance(q, num_velocity_bins=p['bins'], instrument=p['instrument'],
                                            start_step=p['start'], max_shift_steps=p['max_shift'],
                                            max_duration_steps=p['max_dur'])
        return [[_events(t) for t in m], m.start_step, m.end_step]
    raise ValueError(op)


def _safe(op, desc, p, check_arg=False):
    """-> ['OK', canonical result] | ['EXC', class name]; with check_arg also whether the argument was modified
    (by a successful call that is not in_place, or by a call that raised)."""
    ns = _to_proto(desc)
    before = ns.SerializeToString(deterministic=True) if check_arg else None
    try:
        out = ['OK', _run(op, ns, p)]
    except Exception as e:  # noqa
        out = ['EXC', type(e).__name__]
    if check_arg:
        # in_place=True asks for the modification (also observed: a ChordSymbolError raised by an in-place
        # transposition leaves the argument half transposed — not a storage-order matter, not flagged here)
        in_place = op in IN_PLACE_OPS and p.get('in_place')
        modified = (not in_place) and ns.SerializeToString(deterministic=True) != before
        return out, modified
    return out


def impl(case):
    inp = case['input']
    op, p = case['op'], inp['args']
    base, modified = _safe(op, inp['seq'], p, check_arg=True)
    diffs = []
    perms = inp.get('note_perms') or [None]
    for k, pm in enumerate(perms):
        alt = _safe(op, _permute(inp['seq'], inp['seed'] + k, pm), p)
        if alt != base:
            diffs.append(k)
    # the same call again, after all the others (and after every other configuration run so far in this process):
    # a result that depends on what was called before would make every comparison above meaningless
    again = _safe(op, inp['seq'], p)
    flags = []
    if again != base:
        flags.append('not-reproducible')
    if modified:
        flags.append('argument-modified')
    return [base[0] if base[0] == 'OK' else base[1], len(perms), diffs[:3], _digest(base), flags]


# ---------------------------------------------------------------- model side (coq/Run/C12.v)
MODEL_OPS = {'transpose': 1, 'stretch': 2, 'shift': 3, 'extract_many': 4, 'split_hop': 5, 'split_time_changes': 6,
             'split_silence': 7, 'sustain': 8, 'melody': 9, 'drums': 10, 'chords': 11, 'pianorollseq': 12,
             'performance': 13, 'metric_performance': 13, 'split_list': 14, 'extract_one': 15, 'trim': 16}
FQ_OPS = ('melody', 'drums', 'chords', 'pianorollseq', 'metric_performance', 'performance')


def _desc_wire(d):
    return [d['notes'], d['tempos'], d['tsigs'], d['ksigs'], d['texts'], d['ccs'], d['bends'], d.get('sects', []),
            d['total'], d.get('qsteps', 0), d.get('spq', 0), d.get('sps', 0), d.get('sub', [0, 0]),
            d.get('tpq', 220), 0]


def _descs(inp):
    perms = inp.get('note_perms') or [None]
    return [inp['seq']] + [_permute(inp['seq'], inp['seed'] + k, pm) for k, pm in enumerate(perms)]


def _pres(p):
    """The preserved control numbers the call asks for (None = the documented default)."""
    if p.get('pres') is None:
        from note_seq import sequences_lib as sl
        return list(sl.DEFAULT_SUBSEQUENCE_PRESERVE_CONTROL_NUMBERS)
    return list(p['pres'])


def model_input(case):
    """(op seq (permuted seqs) args...) for coq/Run/C12.v: the imported models are run on the sequence as
    stored and on the same permuted copies impl() uses; None = no model side for this case."""
    op, inp = case['op'], case['input']
    p = inp['args']
    code = MODEL_OPS.get(op)
    if code is None:
        return None
    if op == 'transpose' and p['chords']:
        return None                     # chord figures are a separate encoding in the C10 model
    if op == 'pianorollseq' and p['shift_range']:
        return None                     # shift_range is not part of the C07 model
    if any(n[2] < 0 for n in inp['seq']['notes']):
        return None                     # negative times: rejection paths of the code, outside the tick models
    descs = _descs(inp)
    if op in FQ_OPS:
        from note_seq import sequences_lib as sl
        _quiet()
        try:
            if op == 'performance':
                qs = [sl.quantize_note_sequence_absolute(_to_proto(d), p['sps']) for d in descs]
            else:
                qs = [sl.quantize_note_sequence(_to_proto(d), p['spq']) for d in descs]
        except Exception:  # noqa  the quantizer rejects the sequence: nothing reaches the extractor
            return None
        if not _quantized_distinct(qs[0]):
            return None
        try:
            wires = [nsio.to_wire(q) for q in qs]
        except nsio.OffGrid:
            return None
    else:
        wires = [_desc_wire(d) for d in descs]
    opt = lambda x: [] if x is None else [x]  # noqa
    if op == 'transpose':
        margs = [p['amount'], p['lo'], p['hi'], 0]
    elif op == 'stretch':
        margs = [p['f4'], 4]
    elif op == 'shift':
        margs = [p['d']]
    elif op == 'extract_many':
        margs = [p['ts'], _pres(p)]
    elif op == 'extract_one':
        margs = [p['a'], p['b'], _pres(p)]
    elif op == 'trim':
        margs = [p['a'], p['b']]
    elif op == 'split_hop':
        margs = [p['hop'], bool(p['skip'])]
    elif op == 'split_list':
        margs = [p['times'], bool(p['skip'])]
    elif op == 'split_time_changes':
        margs = [bool(p['skip'])]
    elif op == 'split_silence':
        margs = [p['gap']]
    elif op == 'sustain':
        margs = [p['ctl']]
    elif op == 'melody':
        margs = [p['start'], p['instrument'], p['gap_bars'], bool(p['ignore_poly']), bool(p['pad_end']),
                 bool(p['filter_drums'])]
    elif op == 'drums':
        margs = [p['start'], p['gap_bars'], bool(p['pad_end']), bool(p['ignore_is_drum'])]
    elif op == 'chords':
        margs = [p['start'], p['start'] + p['len']]
    elif op == 'pianorollseq':
        margs = [p['start'], p['lo'], p['hi'], bool(p['split'])]
    elif op == 'performance':
        margs = [p['start'], p['bins'], p['max_shift'], opt(p['instrument'])]
    elif op == 'metric_performance':
        margs = [p['start'], p['bins'], p['spq'] * p['max_shift_q'], opt(p['instrument'])]
    else:
        return None
    return [code, wires[0], wires[1:]] + margs


def model_output(case, out):
    """-> [accepted?, number of permuted copies, indices (first 3) whose result differs as a multiset]"""
    flags = out[1]
    return [out[0] == 0, len(flags), [k for k, f in enumerate(flags) if not f][:3]]


def equal(case, io, mo):
    """The model's verdict (accepted / raises; which permuted copies give another result) is the verdict
    computed on the real code."""
    if not isinstance(io, list) or len(io) != 5:
        return False
    return [io[0] == 'OK', io[1], io[2]] == mo


def oracle(case, io):
    if not isinstance(io, list) or len(io) != 5 or io[0] == 'HARNESS-EXC':
        return {'kind': 'harness-exception', 'detail': str(io)[:300]}
    if io[2]:
        return {'kind': 'result-depends-on-storage-order', 'op': case['op'], 'status': io[0],
                'first_differing_permutation': io[2][0]}
    if 'not-reproducible' in io[4]:
        return {'kind': 'result-changes-between-identical-calls', 'op': case['op'], 'status': io[0]}
    if 'argument-modified' in io[4]:
        return {'kind': 'argument-modified-by-call', 'op': case['op'], 'status': io[0]}
    return None


def nontrivial(case, io):
    d = case['input']['seq']
    return any(len(d.get(f, [])) >= 2 for f in FIELDS)


def _distinct(d, keep_zero_length=True):
    """Enforce the quantifier's hypotheses on a generated description."""
    kept = []
    for n in sorted(d['notes'], key=lambda r: (r[2], r[3])):
        if n[3] == n[2] and not keep_zero_length:
            continue
        clash = any(k[0] == n[0] and (k[2] < n[3] and n[2] < k[3] or k[2] == n[2] or k[3] == n[3]) for k in kept)
        if not clash:
            kept.append(n)
    d['notes'] = kept

    def uniq(rows, key):
        seen = set(); out = []
        for r in rows:
            k = key(r)
            if k not in seen:
                seen.add(k); out.append(r)
        return out
    d['tempos'] = uniq(d['tempos'], lambda r: r[0])
    d['tsigs'] = uniq(d['tsigs'], lambda r: r[0])
    d['ksigs'] = uniq(d['ksigs'], lambda r: r[0])
    d['texts'] = uniq(d['texts'], lambda r: (r[0], r[3]))
    d['ccs'] = uniq(d['ccs'], lambda r: (r[0], r[2], r[4]))
    d['bends'] = uniq(d['bends'], lambda r: (r[0], r[2]))
    d['sects'] = uniq(d.get('sects', []), lambda r: r[0])
    d['iinfos'] = uniq(d.get('iinfos', []), lambda r: r[0])
    ends = [n[3] for n in d['notes']]
    d['total'] = max([d['total']] + ends) if ends else d['total']
    return d


def _single_tempo(rng, d):
    d['tempos'] = [[0, d['tempos'][0][1]]] if d['tempos'] and rng.random() < 0.7 else []
    if d['tsigs'] and rng.random() < 0.7:
        # mostly legal; denominator 3 / numerator 0 are the BadTimeSignatureError path
        d['tsigs'] = [[0, rng.choice([d['tsigs'][0][1]] * 12 + [0]), rng.choice([2, 4, 8] * 6 + [3])]]
    else:
        d['tsigs'] = []
    return d


def _proto_to_desc(ns):
    """An operation's OUTPUT as the input description of the next one (two-step use)."""
    w = nsio.to_wire(ns)
    return {'notes': [r[:7] + [0, 0, r[9]] for r in w[0]], 'tempos': w[1], 'tsigs': w[2], 'ksigs': w[3],
            'texts': [[r[0], 0, ''.join(chr(c) for c in r[2]), r[3]] for r in w[4]],
            'ccs': [[r[0], 0] + r[2:] for r in w[5]], 'bends': w[6], 'sects': w[7], 'total': w[8], 'qsteps': 0,
            'spq': 0, 'sps': 0, 'sub': w[12], 'tpq': w[13], 'meta': None}


def _two_step(rng, d):
    """Replace d by the output of an earlier operation on it (None if that operation rejects it)."""
    from note_seq import sequences_lib as sl
    _quiet()
    try:
        ns = _to_proto(d)
        k = rng.randrange(4)
        if k == 0:
            out = sl.apply_sustain_control_changes(ns)
        elif k == 1:
            out = sl.stretch_note_sequence(ns, rng.choice([0.5, 2.0]))
        elif k == 2:
            ps = sl.split_note_sequence(ns, nsio.t2f(rng.choice([3, 5, 8]) * T))
            out = rng.choice(ps) if ps else None
        else:
            out = sl.extract_subsequence(ns, nsio.t2f(rng.randint(0, 6) * T), nsio.t2f(rng.randint(7, 30) * T))
        return _proto_to_desc(out) if out is not None else None
    except Exception:  # noqa
        return None


def gen_case(rng, op, max_notes=None):
    d = nsio.gen_desc(rng, max_notes=max_notes or rng.choice([1, 3, 6, 12]), max_events=rng.choice([2, 4]),
                      max_instr=rng.choice([1, 2, 3]), meta=False, sects=True)
    # values at the ends of the MIDI ranges
    for n in d['notes']:
        if rng.random() < 0.06:
            n[0] = rng.choice([0, 1, 126, 127])
        if rng.random() < 0.06:
            n[1] = rng.choice([1, 127])
    if op == 'pianoroll' and rng.random() < 0.7:
        # same-pitch notes that abut inside one frame (off the frame grid), different velocities: the cells
        # they share are written by both, last writer wins
        for _ in range(rng.randint(1, 3)):
            pitch = rng.choice([n[0] for n in d['notes']] or [60])
            s0 = rng.randint(0, 30) * T
            m = s0 + rng.randint(0, 4) * T + rng.choice([T // 3, T // 5, (2 * T) // 3, T // 64 + 7, 0])
            e = m + rng.randint(0, 4) * T + rng.choice([T // 3, T // 7, T])
            if s0 < m < e:
                d['notes'].append([pitch, rng.randint(1, 60), s0, m, 0, 0, 0, 0, 0, 0])
                d['notes'].append([pitch, rng.randint(61, 127), m, e, 0, 0, 0, 0, 0, 0])
        rng.shuffle(d['notes'])
    ctl = 64
    if op == 'sustain':
        ctl = rng.choice([64, 64, 66, 7])
    if op == 'sustain' and rng.random() < 0.6:
        # pedal scenarios: several notes of different pitches starting TOGETHER on a pedalled instrument, some
        # ending before the pedal is released (held), some after (still sounding): every per-instrument list of
        # the state machine is then built in storage order
        for _ in range(rng.randint(1, 2)):
            i = rng.choice([n[4] for n in d['notes']] or [0])
            t_on = rng.randint(0, 20) * T
            t_off = t_on + rng.randint(2, 12) * T
            d['ccs'].append([t_on, 0, ctl, rng.choice([64, 100, 127]), i, 0, 0])
            d['ccs'].append([t_off, 0, ctl, rng.choice([0, 10, 63]), i, 0, 0])
            if rng.random() < 0.4:
                d['ccs'].append([t_off + rng.randint(1, 4) * T, 0, ctl, 127, i, 0, 0])
            s0 = max(0, t_on + rng.randint(-2, 6) * T)
            for pitch in rng.sample(range(40, 80), rng.randint(2, 4)):
                st = s0 if rng.random() < 0.8 else s0 + rng.randint(1, 3) * T
                e = st + rng.randint(0, 14) * T
                d['notes'].append([pitch, rng.randint(1, 127), st, e, i, 0, 0, 0, 0, 0])
            if rng.random() < 0.5:      # a re-struck pitch while the pedal is down
                n0 = d['notes'][-1]
                d['notes'].append([n0[0], 90, n0[3] + rng.randint(0, 3) * T, n0[3] + 5 * T, i, 0, 0, 0, 0, 0])
        rng.shuffle(d['notes'])
        rng.shuffle(d['ccs'])
    drop = None
    if op == 'midi':
        # drop_events_n_seconds_after_last_note (quarter seconds), with events stored beyond the cut-off
        drop = rng.choice([None, None, 0, 1, 4, 8, 20])
        if drop is not None and rng.random() < 0.7:
            last = max([n[3] for n in d['notes']] or [0])
            for _ in range(rng.randint(1, 2)):
                late = last + drop * T + rng.randint(1, 8) * T
                d['ccs'].insert(rng.randint(0, len(d['ccs'])),
                                [late, 0, rng.choice([64, 7]), rng.randint(0, 127), 0, 0, 0])
                d['bends'].insert(rng.randint(0, len(d['bends'])), [late + T, rng.randint(-100, 100), 0, 0, 0])
                if rng.random() < 0.5:      # time / key signatures and tempos are cut off too
                    d['tsigs'].insert(0, [late, 3, 4])
                    d['ksigs'].insert(0, [late + 2 * T, 5, 0])
                    d['tempos'].insert(0, [late + 3 * T, 90 << nsio.QPM_BITS])
            d['total'] = max(d['total'], late + 3 * T)
        # instrument names: one instrument_info per instrument number, any subset
        d['iinfos'] = [[i, rng.randrange(100)] for i in rng.sample(range(4), rng.randint(0, 4))]
    d = _distinct(d, keep_zero_length=True)
    if op not in ('midi',) and rng.random() < 0.12:
        # two-step use: the input is the OUTPUT of an earlier operation
        d2 = _two_step(rng, copy.deepcopy(d))
        if d2 is not None:
            d2['iinfos'] = []
            d = _distinct(d2)
    if rng.random() < 0.1:
        d['sub'] = [rng.randint(0, 8) * T, rng.randint(0, 8) * T]     # a piece of something longer
    if rng.random() < 0.03:
        d['spq'] = 4                    # already quantized: QuantizationStatusError for the seconds-only operations
    if rng.random() < 0.02 and d['notes']:
        d['notes'][rng.randrange(len(d['notes']))][2] = -T            # NegativeTimeError path of the quantizers
    total = d['total']
    pres = rng.choice([None, None, [], [64], [7, 64], [1, 7, 10], [64, 66, 67]])
    if op == 'quantize_rel':
        r = rng.random()
        if r < 0.6:
            d = _single_tempo(rng, d)
        elif r < 0.8:
            # tempo marks at different times whose values are equal or differ by a hair (round-off sized): a
            # validation that tolerates the difference must not let the storage order pick the surviving one
            q0 = rng.choice([60, 90, 120, 133]) << nsio.QPM_BITS
            times = [0] + sorted(rng.sample(range(1, 40), rng.randint(1, 2)))
            d['tempos'] = [[t * T, q0 - rng.choice([0, 0, 1, 100, 524, 1000])] for t in times]
            rng.shuffle(d['tempos'])
            if rng.random() < 0.5:
                d['tsigs'] = []
        elif r < 0.9 and d['tsigs']:
            # the same for time signatures: several marks with one value, the earliest not at time 0
            v = d['tsigs'][0][1:]
            d['tsigs'] = [[t * T] + v for t in rng.sample(range(0, 30), rng.randint(2, 3))]
        args = {'spq': rng.choice([1, 2, 4, 12, 96])}
    elif op == 'quantize_abs':
        args = {'sps': rng.choice([1, 4, 10, 100, 1000])}
    elif op == 'extract_many':
        hi_q = max(2, total // T) if rng.random() < 0.8 else 40
        ts = sorted(set(rng.randint(0, hi_q) * T + rng.choice([0, 0, 1]) for _ in range(rng.randint(2, 5))))
        if len(ts) < 2:
            ts = [0, 10 * T]
        if rng.random() < 0.05:
            ts = ts[::-1]               # unsorted split times: ValueError
        if rng.random() < 0.03:
            ts = ts[:1]                 # fewer than two: ValueError
        args = {'ts': ts, 'pres': pres}
    elif op in ('extract_one', 'trim'):
        a = rng.randint(0, max(1, min(20, total // T))) * T + rng.choice([0, 0, 1, -1])
        args = {'a': max(a, 0), 'b': max(a, 0) + rng.randint(0, 20) * T + rng.choice([0, 0, 2]), 'pres': pres}
    elif op == 'split_hop':
        args = {'hop': rng.choice([1, 2, 3, 5, 8, 40]) * T, 'skip': rng.random() < 0.5}
    elif op == 'split_list':
        times = [rng.randint(1, 40) * T + rng.choice([0, 0, 1]) for _ in range(rng.randint(0, 4))]
        args = {'times': times, 'skip': rng.random() < 0.5}
    elif op == 'split_time_changes':
        args = {'skip': rng.random() < 0.5}
    elif op == 'split_silence':
        args = {'gap': rng.choice([0, 1, 2, 4, 12, 12]) * T}
    elif op == 'sustain':
        args = {'ctl': ctl}
    elif op == 'transpose':
        if rng.random() < 0.04:
            d['texts'].append([rng.randint(0, 20) * T + 5, 0, rng.choice(['H7#', 'Cmaj#x']), 1])   # ChordSymbolError
        args = {'amount': rng.choice([rng.randint(-20, 20), 0, 127, -127]), 'lo': rng.choice([0, 21, 40, 60]),
                'hi': rng.choice([127, 108, 80, 60]), 'chords': rng.random() < 0.5, 'in_place': rng.random() < 0.3}
    elif op == 'stretch':
        args = {'f4': rng.choice([1, 2, 3, 4, 6, 8, 16]), 'in_place': rng.random() < 0.3}
    elif op == 'shift':
        args = {'d': rng.choice([0, 1, 2, 5, 40]) * T + rng.choice([0, 0, 3])}
    elif op == 'midi':
        args = {'drop': drop}
    elif op == 'pianoroll':
        # sequence_to_pianoroll assumes a single instrument: two control changes of one number at one time
        # are "two state events of one kind sharing a time" whatever their instrument field says
        seen = set(); keep = []
        for r in d['ccs']:
            if (r[0], r[2]) not in seen:
                seen.add((r[0], r[2])); keep.append(r)
        d['ccs'] = keep
        lo = rng.choice([0, 21, 60])
        args = {'fps': rng.choice([4, 8, 16, 32, 31.25]), 'lo': lo, 'hi': rng.choice([108, 127, lo, lo + 12]),
                'onset_mode': rng.choice(['window', 'length_ms']), 'onset_ms': rng.choice([0, 32, 250]),
                'offset_ms': rng.choice([0, 32, 250]), 'blank': rng.random() < 0.4, 'overlap': rng.random() < 0.7,
                'occ4': rng.choice([0, 0, 1, 2]), 'max_vel': rng.choice([127, 127, 127, 100]),
                'upweight': rng.choice([5, 1, 2.5]), 'window': rng.choice([1, 0, 2]),
                'delay_ms': rng.choice([0, 0, 50, -50])}
    elif op == 'melody':
        d = _single_tempo(rng, d)
        args = {'spq': rng.choice([1, 2, 4]), 'start': rng.choice([0, 0, 1, 4, 16]), 'instrument': rng.randrange(3),
                'gap_bars': rng.choice([1, 2, 4]), 'ignore_poly': rng.random() < 0.6, 'pad_end': rng.random() < 0.5,
                'filter_drums': rng.random() < 0.6}
    elif op == 'drums':
        d = _single_tempo(rng, d)
        args = {'spq': rng.choice([1, 2, 4]), 'start': rng.choice([0, 0, 1, 4, 16]), 'gap_bars': rng.choice([1, 2, 4]),
                'pad_end': rng.random() < 0.5, 'ignore_is_drum': rng.random() < 0.4}
    elif op == 'chords':
        d = _single_tempo(rng, d)
        args = {'spq': rng.choice([1, 2, 4]), 'start': rng.randint(0, 8), 'len': rng.choice([0, 1, rng.randint(1, 64)])}
    elif op == 'pianorollseq':
        d = _single_tempo(rng, d)
        lo = rng.choice([0, 21, 60])
        args = {'spq': rng.choice([1, 2, 4]), 'start': rng.choice([0, 0, 1, 4]), 'lo': lo,
                'hi': rng.choice([108, 127, lo, lo + 12]), 'split': rng.random() < 0.6,
                'shift_range': rng.random() < 0.3}
    elif op == 'metric_performance':
        d = _single_tempo(rng, d)
        args = {'spq': rng.choice([1, 2, 4]), 'start': rng.choice([0, 0, 1, 4]), 'bins': rng.choice([0, 1, 8, 32, 127]),
                'max_shift_q': rng.choice([4, 4, 1, 8]), 'instrument': rng.choice([None, 0, 1, 2])}
    elif op == 'performance':
        args = {'sps': rng.choice([4, 10, 100]), 'start': rng.choice([0, 0, 1, 4]), 'bins': rng.choice([0, 1, 8, 32, 127]),
                'max_shift': rng.choice([100, 100, 1, 3, 1000]), 'instrument': rng.choice([None, 0, 1, 2])}
    elif op == 'note_performance':
        args = {'sps': rng.choice([4, 10, 100]), 'start': rng.choice([0, 0, 1, 4]), 'bins': rng.choice([1, 8, 32, 127]),
                'max_shift': rng.choice([1000, 1000, 5, 50]), 'max_dur': rng.choice([1000, 1000, 5, 50]),
                'instrument': rng.choice([None, 0, 1, 2])}
    else:
        raise ValueError(op)
    return {'op': op, 'input': {'seq': d, 'args': args, 'seed': rng.randrange(1 << 30)}}


def cases(rng, tier, n=None):
    if n is None:
        n = 8800 if tier == "quick" else 88000
    out = [gen_case(rng, OPS[i % len(OPS)]) for i in range(n)]
    if tier == 'thorough':
        # all permutations of the notes for sequences of <= 5 notes
        for i in range(len(OPS) * 40):
            c = gen_case(rng, OPS[i % len(OPS)], max_notes=5)
            k = len(c['input']['seq']['notes'])
            if 2 <= k <= 5:
                c['input']['note_perms'] = [list(p) for p in itertools.permutations(range(k))]
                out.append(c)
    return out


PR_DEFAULT = {'fps': 8, 'lo': 21, 'hi': 108, 'onset_mode': 'window', 'onset_ms': 0, 'offset_ms': 0, 'blank': False,
              'overlap': True, 'occ4': 0, 'max_vel': 127, 'upweight': 5, 'window': 1, 'delay_ms': 0}


def corpus():
    out = []
    # F1: tempos stored out of time order must be rejected (or accepted) independently of storage order
    base = {'notes': [[60, 100, 0, 4 * T, 0, 0, 0, 0, 0, 0]], 'tempos': [[20 * T, 60 << 20], [0, 120 << 20]],
            'tsigs': [], 'ksigs': [], 'texts': [], 'ccs': [], 'bends': [], 'sects': [], 'total': 4 * T, 'meta': None}
    for s in range(4):
        out.append({'op': 'quantize_rel', 'input': {'seq': copy.deepcopy(base), 'args': {'spq': 4}, 'seed': s}})
    # two tempo marks that differ by round-off (120 and 119.9995 qpm), later one stored first: rejected or
    # accepted, but the same either way, and with the same surviving tempo
    b1 = copy.deepcopy(base)
    b1['tempos'] = [[20 * T, (120 << 20) - 524], [0, 120 << 20]]
    b1['notes'] = [[60, 100, 250 * T + T // 4, 260 * T, 0, 0, 0, 0, 0, 0]]; b1['total'] = 260 * T
    for s in range(4):
        out.append({'op': 'quantize_rel', 'input': {'seq': copy.deepcopy(b1), 'args': {'spq': 4}, 'seed': s}})
    # F8: MIDI export with unsorted tempos
    b2 = copy.deepcopy(base)
    b2['tempos'] = [[8 * T, 60 << 20], [4 * T, 90 << 20], [0, 120 << 20]]
    b2['notes'] = [[60, 100, 10 * T, 12 * T, 0, 0, 0, 0, 0, 0]]; b2['total'] = 12 * T
    for s in range(4):
        out.append({'op': 'midi', 'input': {'seq': copy.deepcopy(b2), 'args': {'drop': None}, 'seed': s}})
    # F7: two abutting same-pitch notes, PianorollSequence split_repeats
    b3 = copy.deepcopy(base)
    b3['tempos'] = []
    b3['notes'] = [[60, 100, 0, 2 * T, 0, 0, 0, 0, 0, 0], [60, 100, 2 * T, 4 * T, 0, 0, 0, 0, 0, 0]]
    for s in range(4):
        out.append({'op': 'pianorollseq', 'input': {'seq': copy.deepcopy(b3), 'args': {'spq': 4, 'start': 0, 'lo': 0, 'hi': 127, 'split': True,
                                                             'shift_range': False}, 'seed': s}})
    # MIDI export with drop_events_n_seconds_after_last_note: a stray control change / pitch bend beyond the
    # cut-off stored among the in-range ones (an early exit from the loop would lose the later-stored ones)
    b4 = copy.deepcopy(base)
    b4['tempos'] = [[0, 120 << 20]]
    b4['notes'] = [[60, 100, 0, 4 * T, 0, 0, 0, 0, 0, 0], [64, 100, 4 * T, 8 * T, 0, 0, 0, 0, 0, 0]]
    b4['ccs'] = [[40 * T, 0, 64, 0, 0, 0, 0], [T, 0, 64, 127, 0, 0, 0], [3 * T, 0, 64, 0, 0, 0, 0],
                 [6 * T, 0, 64, 127, 0, 0, 0]]
    b4['bends'] = [[40 * T, 0, 0, 0, 0], [2 * T, 1000, 0, 0, 0], [5 * T, -1000, 0, 0, 0]]
    b4['total'] = 40 * T
    for s in range(6):
        out.append({'op': 'midi', 'input': {'seq': copy.deepcopy(b4), 'args': {'drop': 4}, 'seed': s}})
    # frame pianoroll: two same-pitch notes of different velocity abutting inside a frame, later one stored first
    b5 = copy.deepcopy(base)
    b5['tempos'] = [[0, 120 << 20]]
    b5['notes'] = [[60, 100, T + T // 3, 4 * T, 0, 0, 0, 0, 0, 0], [60, 40, 0, T + T // 3, 0, 0, 0, 0, 0, 0],
                   [64, 80, T, 3 * T, 0, 0, 0, 0, 0, 0]]
    for s in range(6):
        out.append({'op': 'pianoroll', 'input': {'seq': copy.deepcopy(b5),
                                                 'args': dict(PR_DEFAULT, fps=4, lo=60, hi=64), 'seed': s}})
    # sustain: two notes starting together under the pedal, one held, one still sounding at the release
    b6 = copy.deepcopy(base)
    b6['tempos'] = []
    b6['notes'] = [[64, 100, 0, 40 * T, 0, 0, 0, 0, 0, 0], [60, 100, 0, 16 * T, 0, 0, 0, 0, 0, 0]]
    b6['ccs'] = [[24 * T, 0, 64, 0, 0, 0, 0], [4 * T, 0, 64, 127, 0, 0, 0]]
    b6['total'] = 40 * T
    for s in range(4):
        out.append({'op': 'sustain', 'input': {'seq': copy.deepcopy(b6), 'args': {'ctl': 64}, 'seed': s}})
    # Performance: notes stored out of (start, pitch) order with different velocity bins (the velocity must be the
    # sorted note's), one instrument filter, a non-default max_shift_steps
    b7 = copy.deepcopy(base)
    b7['tempos'] = []
    b7['notes'] = [[67, 120, 4 * T, 8 * T, 1, 0, 0, 0, 0, 0], [60, 10, 0, 4 * T, 1, 0, 0, 0, 0, 0],
                   [64, 60, 0, 2 * T, 0, 0, 0, 0, 0, 0]]
    b7['total'] = 8 * T
    for s in range(3):
        out.append({'op': 'performance', 'input': {'seq': copy.deepcopy(b7), 'seed': s, 'args': {
            'sps': 4, 'start': 0, 'bins': 8, 'max_shift': 3, 'instrument': None}}})
        out.append({'op': 'note_performance', 'input': {'seq': copy.deepcopy(b7), 'seed': s, 'args': {
            'sps': 4, 'start': 0, 'bins': 8, 'max_shift': 50, 'max_dur': 50, 'instrument': 1}}})
    # rare shapes: the empty sequence and a single zero-length note through every operation (defaults)
    empty = {'notes': [], 'tempos': [], 'tsigs': [], 'ksigs': [], 'texts': [], 'ccs': [], 'bends': [], 'sects': [],
             'total': 0, 'meta': None, 'qinfo_empty': True}
    one = copy.deepcopy(empty); one['notes'] = [[0, 1, 2 * T, 2 * T, 0, 0, 0, 0, 0, 0]]; one['total'] = 2 * T
    defaults = {
        'quantize_rel': {'spq': 4}, 'quantize_abs': {'sps': 100}, 'extract_many': {'ts': [0, T], 'pres': []},
        'extract_one': {'a': 0, 'b': T, 'pres': None}, 'trim': {'a': 0, 'b': T}, 'split_hop': {'hop': T, 'skip': True},
        'split_list': {'times': [], 'skip': False}, 'split_time_changes': {'skip': True}, 'split_silence': {'gap': 0},
        'sustain': {'ctl': 64}, 'transpose': {'amount': 1, 'lo': 0, 'hi': 127, 'chords': True, 'in_place': True},
        'stretch': {'f4': 8, 'in_place': True}, 'shift': {'d': T}, 'midi': {'drop': 0}, 'pianoroll': dict(PR_DEFAULT),
        'melody': {'spq': 4, 'start': 0, 'instrument': 0, 'gap_bars': 1, 'ignore_poly': False, 'pad_end': True,
                   'filter_drums': True},
        'drums': {'spq': 4, 'start': 0, 'gap_bars': 1, 'pad_end': True, 'ignore_is_drum': True},
        'chords': {'spq': 4, 'start': 0, 'len': 4},
        'pianorollseq': {'spq': 4, 'start': 0, 'lo': 0, 'hi': 0, 'split': True, 'shift_range': True},
        'performance': {'sps': 100, 'start': 0, 'bins': 127, 'max_shift': 1, 'instrument': None},
        'metric_performance': {'spq': 4, 'start': 0, 'bins': 1, 'max_shift_q': 1, 'instrument': 0},
        'note_performance': {'sps': 100, 'start': 0, 'bins': 1, 'max_shift': 1000, 'max_dur': 1000, 'instrument': None}}
    for op in OPS:
        for sq in (empty, one):
            out.append({'op': op, 'input': {'seq': copy.deepcopy(sq), 'args': copy.deepcopy(defaults[op]), 'seed': 1}})
    return out


def shrink(case):
    for sd in nsio.shrink_desc(case['input']['seq']):
        c = copy.deepcopy(case)
        c['input']['seq'] = sd
        c['input'].pop('note_perms', None)
        yield c
