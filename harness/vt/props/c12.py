"""C12 — results do not depend on the storage order of notes and events.

Coq half (coq/Props/C12.v): perm_invariant_<op> theorems — `Permutation` of every
repeated field gives Permutation-equal outputs (equal outputs for the event
extractors) — about the Gallina models that the C01/C02/C03/C07/C10/C13/C14
checks tie to the code.

Implementation half (this module): the statement itself is evaluated on the real
code: every operation is run on the sequence as generated and on permuted copies
(each repeated field shuffled), and the canonical (multiset) outputs are compared.
Thorough tier: all permutations of the notes for <= 5 notes.

Model side (coq/Run/C12.v): for 14 of the 18 operations the imported models are run
on the same original / permuted wire-format sequences, the multiset comparison is
done inside the extracted Coq code, and the verdict (accepted or raises; which
permuted copies give another result) must be the verdict computed on the real code.
"""
import copy
import hashlib
import itertools
import random

from vt import nsio

ID = 'C12'
META = {
    'level_text': (
        'Proof (Coq, 34 statements): perm_invariant_<op> theorems for ALL sequences satisfying the named distinctness '
        'hypotheses and ALL permutations of each repeated field, about the Gallina models the other checks tie to '
        'the code; plus the property statement itself evaluated on the real implementation for every operation the '
        'property lists (original vs permuted storage order, canonical multiset outputs compared), plus the same '
        'verdict computed by the models on the same inputs (coq/Run/C12.v).'),
    'level_note': (
        'Permutation THEOREM (full strength): transpose_note_sequence, stretch_note_sequence, shift_sequence_times, '
        '_quantize_notes / quantize_note_sequence_absolute / quantize_note_sequence (validation verdict + per-element '
        'map, bit-exact float step function), _extract_subsequences, split_note_sequence (hop and list form), '
        'split_note_sequence_on_time_changes, split_note_sequence_on_silence, PianorollSequence, DrumTrack, '
        'ChordProgression, Melody, Performance/MetricPerformance event lists (+ program/is_drum), quantize-then-extract '
        'end to end, apply_sustain_control_changes (same verdict, same notes INCLUDING the new end times, same '
        'total_time; via C14\'s refinement sustain_refines_spec, the order independence of its specification and '
        'total_time = max(old total_time, latest new end)), MIDI export glue (note_sequence_to_pretty_midi without '
        'drop_events_n_seconds_after_last_note). No partial theorems remain. '
        'Implementation-side comparison ONLY (tested, not proved): sequence_to_pianoroll (numpy frame rolls), the '
        'drop_events_n_seconds_after_last_note argument and pretty_midi internals of MIDI export, NotePerformance. The theorems are about models; each model is tied to the code by its '
        'own property check (C01, C02, C03, C07, C10, C13, C14) and, for permutation behaviour, by the model side of '
        'this check.'),
}
RULE = ('one case = (operation, arguments, NoteSequence with no two same-pitch notes overlapping or coinciding and no two '
        'state events of one kind sharing a time, permutation seed); generators add targeted material per operation '
        '(abutting same-pitch notes inside a frame, events beyond the MIDI cut-off, notes starting together under a '
        'pedal); non-trivial when at least one repeated field with >= 2 elements is actually reordered; distinct by '
        'hash of the canonical case')
ASSUMPTIONS = ['outputs are compared as multisets (notes, events sorted on all fields); numpy rolls compared exactly',
               'event extractors: the quantifier is re-read on the quantized sequence (no two same-pitch notes '
               'overlap or coincide in steps, no two chord annotations share a step); cases outside it are skipped',
               'model side: transposition only with transpose_chords=False (chord figures are a separate encoding '
               'in the C10 model); quantization and MIDI export have no model side here (float / microsecond models)']

T = nsio.QUARTER_SEC
OPS = ['quantize_rel', 'quantize_abs', 'extract_many', 'split_hop', 'split_time_changes', 'split_silence',
       'sustain', 'transpose', 'stretch', 'midi', 'pianoroll', 'melody', 'drums', 'chords', 'pianorollseq',
       'performance', 'metric_performance', 'shift']
FIELDS = ('notes', 'tempos', 'tsigs', 'ksigs', 'texts', 'ccs', 'bends')


def _quiet():
    try:
        from absl import logging as absl_logging
        absl_logging.set_verbosity(absl_logging.ERROR)
    except Exception:  # noqa
        pass


def _canon_seq(ns):
    w = nsio.to_wire(ns, tfun=lambda x: round(x * 1e9), qfun=lambda x: round(x * 1e6))
    out = []
    for part in w[:8]:
        out.append(sorted(part, key=repr))
    return out + w[8:]


def _permute(desc, seed, note_perm=None):
    rng = random.Random(seed)
    d = copy.deepcopy(desc)
    for f in FIELDS:
        xs = d.get(f, [])
        if f == 'notes' and note_perm is not None:
            d[f] = [xs[i] for i in note_perm]
        else:
            rng.shuffle(xs)
    return d


def _digest(x):
    return hashlib.sha1(repr(x).encode()).hexdigest()[:16]


def _quantized_distinct(q):
    """The quantifier's hypotheses re-read on the quantized sequence (event extraction sees steps, not seconds):
    no two same-pitch notes overlap or coincide in steps, no two chord annotations share a step."""
    seen = {}
    for n in q.notes:
        for (a, b) in seen.get(n.pitch, []):
            if (a < n.quantized_end_step and n.quantized_start_step < b) or a == n.quantized_start_step:
                return False
        seen.setdefault(n.pitch, []).append((n.quantized_start_step, n.quantized_end_step))
    steps = [t.quantized_step for t in q.text_annotations if t.annotation_type == 1]
    return len(steps) == len(set(steps))


def _run(op, ns, args):
    from note_seq import sequences_lib as sl
    _quiet()
    if op == 'quantize_rel':
        return _canon_seq(sl.quantize_note_sequence(ns, args[0]))
    if op == 'quantize_abs':
        return _canon_seq(sl.quantize_note_sequence_absolute(ns, args[0]))
    if op == 'extract_many':
        return [_canon_seq(s) for s in sl._extract_subsequences(ns, [nsio.t2f(t) for t in args[0]])]
    if op == 'split_hop':
        return [_canon_seq(s) for s in sl.split_note_sequence(ns, nsio.t2f(args[0]), bool(args[1]))]
    if op == 'split_time_changes':
        return [_canon_seq(s) for s in sl.split_note_sequence_on_time_changes(ns, bool(args[0]))]
    if op == 'split_silence':
        return [_canon_seq(s) for s in sl.split_note_sequence_on_silence(ns, nsio.t2f(args[0]))]
    if op == 'sustain':
        return _canon_seq(sl.apply_sustain_control_changes(ns))
    if op == 'transpose':
        r, k = sl.transpose_note_sequence(ns, args[0], min_allowed_pitch=args[1], max_allowed_pitch=args[2],
                                          transpose_chords=bool(args[3]))
        return [_canon_seq(r), k]
    if op == 'stretch':
        return _canon_seq(sl.stretch_note_sequence(ns, args[0] / 4.0))
    if op == 'shift':
        return _canon_seq(sl.shift_sequence_times(ns, nsio.t2f(args[0])))
    if op == 'midi':
        from note_seq import midi_io
        pm = midi_io.note_sequence_to_pretty_midi(
            ns, drop_events_n_seconds_after_last_note=(None if args[0] is None else args[0] / 4.0))
        insts = []
        for i in pm.instruments:
            insts.append([i.program, int(i.is_drum),
                          sorted([n.pitch, n.velocity, round(n.start * 1e9), round(n.end * 1e9)] for n in i.notes),
                          sorted([c.number, c.value, round(c.time * 1e9)] for c in i.control_changes),
                          sorted([b.pitch, round(b.time * 1e9)] for b in i.pitch_bends)])
        tt, tv = pm.get_tempo_changes()
        return [sorted(insts, key=repr), [round(float(x) * 1e9) for x in tt], [round(float(x) * 1e6) for x in tv],
                sorted([t.numerator, t.denominator, round(t.time * 1e9)] for t in pm.time_signature_changes),
                sorted([k.key_number, round(k.time * 1e9)] for k in pm.key_signature_changes)]
    if op == 'pianoroll':
        import numpy as np
        r = sl.sequence_to_pianoroll(ns, frames_per_second=args[0], min_pitch=args[1], max_pitch=args[2],
                                     onset_mode=args[3], onset_length_ms=args[4], offset_length_ms=args[4],
                                     add_blank_frame_before_onset=bool(args[5]), onset_overlap=bool(args[6]),
                                     min_frame_occupancy_for_label=args[7] / 4.0)
        return [[list(a.shape), _digest(np.ascontiguousarray(a).tobytes())] for a in r]
    # event-sequence extraction works on quantized sequences
    if op in ('melody', 'drums', 'chords', 'pianorollseq', 'metric_performance'):
        q = sl.quantize_note_sequence(ns, args[0])
    if op in ('melody', 'drums', 'chords', 'pianorollseq', 'metric_performance') and not _quantized_distinct(q):
        return 'OUTSIDE-QUANTIFIER'
    if op == 'melody':
        from note_seq import melodies_lib
        m = melodies_lib.Melody()
        m.from_quantized_sequence(q, search_start_step=0, instrument=args[1], gap_bars=args[2],
                                  ignore_polyphonic_notes=bool(args[3]), pad_end=bool(args[4]))
        return [list(m), m.start_step, m.end_step]
    if op == 'drums':
        from note_seq import drums_lib
        m = drums_lib.DrumTrack()
        m.from_quantized_sequence(q, search_start_step=0, gap_bars=args[2], pad_end=bool(args[4]))
        return [[sorted(e) for e in m], m.start_step, m.end_step]
    if op == 'chords':
        from note_seq import chords_lib
        m = chords_lib.ChordProgression()
        m.from_quantized_sequence(q, args[1], args[1] + args[2])
        return [list(m), m.start_step, m.end_step]
    if op == 'pianorollseq':
        from note_seq import pianoroll_lib
        m = pianoroll_lib.PianorollSequence(quantized_sequence=q, start_step=args[1], min_pitch=args[2],
                                            max_pitch=args[3], split_repeats=bool(args[4]))
        return [[list(e) for e in m], m.start_step, m.end_step]
    if op == 'metric_performance':
        from note_seq import performance_lib
        m = performance_lib.MetricPerformance(quantized_sequence=q, start_step=args[1], num_velocity_bins=args[2],
                                              instrument=args[3])
        return [[[e.event_type, e.event_value] for e in m], m.start_step, m.end_step]
    if op == 'performance':
        from note_seq import performance_lib
        q = sl.quantize_note_sequence_absolute(ns, args[0])
        if not _quantized_distinct(q):
            return 'OUTSIDE-QUANTIFIER'
        m = performance_lib.Performance(quantized_sequence=q, start_step=args[1], num_velocity_bins=args[2],
                                        instrument=args[3])
        return [[[e.event_type, e.event_value] for e in m], m.start_step, m.end_step]
    raise ValueError(op)


def _safe(op, desc, args):
    try:
        return ['OK', _run(op, nsio.to_proto(desc), args)]
    except Exception as e:  # noqa
        return ['EXC', type(e).__name__]


def impl(case):
    inp = case['input']
    base = _safe(case['op'], inp['seq'], inp['args'])
    diffs = []
    perms = inp.get('note_perms') or [None]
    for k, p in enumerate(perms):
        alt = _safe(case['op'], _permute(inp['seq'], inp['seed'] + k, p), inp['args'])
        if alt != base:
            diffs.append(k)
    return [base[0] if base[0] == 'OK' else base[1], len(perms), diffs[:3], _digest(base)]


# ---------------------------------------------------------------- model side (coq/Run/C12.v)
MODEL_OPS = {'transpose': 1, 'stretch': 2, 'shift': 3, 'extract_many': 4, 'split_hop': 5, 'split_time_changes': 6,
             'split_silence': 7, 'sustain': 8, 'melody': 9, 'drums': 10, 'chords': 11, 'pianorollseq': 12,
             'performance': 13, 'metric_performance': 13}
FQ_OPS = ('melody', 'drums', 'chords', 'pianorollseq', 'metric_performance', 'performance')


def _desc_wire(d):
    return [d['notes'], d['tempos'], d['tsigs'], d['ksigs'], d['texts'], d['ccs'], d['bends'], d.get('sects', []),
            d['total'], d.get('qsteps', 0), d.get('spq', 0), d.get('sps', 0), d.get('sub', [0, 0]),
            d.get('tpq', 220), 0]


def _descs(inp):
    perms = inp.get('note_perms') or [None]
    return [inp['seq']] + [_permute(inp['seq'], inp['seed'] + k, p) for k, p in enumerate(perms)]


def model_input(case):
    """(op seq (permuted seqs) args...) for coq/Run/C12.v: the imported models are run on the sequence as
    stored and on the same permuted copies impl() uses; None = no model side for this case."""
    op, inp = case['op'], case['input']
    args = inp['args']
    code = MODEL_OPS.get(op)
    if code is None:
        return None
    if op == 'transpose' and args[3]:
        return None                     # chord figures are a separate encoding in the C10 model
    descs = _descs(inp)
    if op in FQ_OPS:
        from note_seq import sequences_lib as sl
        _quiet()
        try:
            if op == 'performance':
                qs = [sl.quantize_note_sequence_absolute(nsio.to_proto(d), args[0]) for d in descs]
            else:
                qs = [sl.quantize_note_sequence(nsio.to_proto(d), args[0]) for d in descs]
        except Exception:  # noqa  the quantizer rejects the sequence: nothing reaches the extractor
            return None
        if not _quantized_distinct(qs[0]):
            return None
        try:
            wires = [nsio.to_wire(q) for q in qs]
        except nsio.OffGrid:
            return None
    else:
        wires = [_desc_wire(d) for d in descs]
    opt = lambda x: [] if x is None else [x]  # noqa
    if op == 'transpose':
        margs = [args[0], args[1], args[2], 0]
    elif op == 'stretch':
        margs = [args[0], 4]
    elif op == 'shift':
        margs = [args[0]]
    elif op == 'extract_many':
        margs = [args[0]]
    elif op == 'split_hop':
        margs = [args[0], bool(args[1])]
    elif op == 'split_time_changes':
        margs = [bool(args[0])]
    elif op == 'split_silence':
        margs = [args[0]]
    elif op == 'sustain':
        margs = []
    elif op == 'melody':
        margs = [0, args[1], args[2], bool(args[3]), bool(args[4]), 1]
    elif op == 'drums':
        margs = [0, args[2], bool(args[4]), 0]
    elif op == 'chords':
        margs = [args[1], args[1] + args[2]]
    elif op == 'pianorollseq':
        margs = [args[1], args[2], args[3], bool(args[4])]
    elif op == 'performance':
        margs = [args[1], args[2], 100, opt(args[3])]
    elif op == 'metric_performance':
        margs = [args[1], args[2], args[0] * 4, opt(args[3])]
    else:
        return None
    return [code, wires[0], wires[1:]] + margs


def model_output(case, out):
    """-> [accepted?, number of permuted copies, indices (first 3) whose result differs as a multiset]"""
    flags = out[1]
    return [out[0] == 0, len(flags), [k for k, f in enumerate(flags) if not f][:3]]


def equal(case, io, mo):
    """The model's verdict (accepted / raises; which permuted copies give another result) is the verdict
    computed on the real code."""
    if not isinstance(io, list) or len(io) != 4:
        return False
    return [io[0] == 'OK', io[1], io[2]] == mo


def oracle(case, io):
    if not isinstance(io, list) or len(io) != 4 or io[0] == 'HARNESS-EXC':
        return {'kind': 'harness-exception', 'detail': str(io)[:300]}
    if io[2]:
        return {'kind': 'result-depends-on-storage-order', 'op': case['op'], 'status': io[0],
                'first_differing_permutation': io[2][0]}
    return None


def nontrivial(case, io):
    d = case['input']['seq']
    return any(len(d.get(f, [])) >= 2 for f in FIELDS)


def _distinct(d):
    """Enforce the quantifier's hypotheses on a generated description."""
    kept = []
    for n in sorted(d['notes'], key=lambda r: (r[2], r[3])):
        if n[3] == n[2]:
            continue                    # zero-length notes coincide with themselves at quantization
        clash = any(k[0] == n[0] and (k[2] < n[3] and n[2] < k[3] or k[2] == n[2] or k[3] == n[3]) for k in kept)
        if not clash:
            kept.append(n)
    d['notes'] = kept

    def uniq(rows, key):
        seen = set(); out = []
        for r in rows:
            k = key(r)
            if k not in seen:
                seen.add(k); out.append(r)
        return out
    d['tempos'] = uniq(d['tempos'], lambda r: r[0])
    d['tsigs'] = uniq(d['tsigs'], lambda r: r[0])
    d['ksigs'] = uniq(d['ksigs'], lambda r: r[0])
    d['texts'] = uniq(d['texts'], lambda r: (r[0], r[3]))
    d['ccs'] = uniq(d['ccs'], lambda r: (r[0], r[2], r[4]))
    d['bends'] = uniq(d['bends'], lambda r: (r[0], r[2]))
    d['sects'] = []
    ends = [n[3] for n in d['notes']]
    d['total'] = max([d['total']] + ends) if ends else d['total']
    return d


def _single_tempo(rng, d):
    d['tempos'] = [[0, d['tempos'][0][1]]] if d['tempos'] and rng.random() < 0.7 else []
    if d['tsigs'] and rng.random() < 0.7:
        d['tsigs'] = [[0, d['tsigs'][0][1], rng.choice([2, 4, 8])]]
    else:
        d['tsigs'] = []
    return d


def gen_case(rng, op, max_notes=None):
    d = nsio.gen_desc(rng, max_notes=max_notes or rng.choice([3, 6, 12]), max_events=rng.choice([2, 4]),
                      max_instr=rng.choice([1, 2, 3]), meta=False, sects=False)
    # times on the coarse grid only for ops that multiply / quantize (exactness is not needed here, but
    # coincidences are wanted)
    if op == 'pianoroll' and rng.random() < 0.7:
        # same-pitch notes that abut inside one frame (off the frame grid), different velocities: the cells
        # they share are written by both, last writer wins
        for _ in range(rng.randint(1, 3)):
            pitch = rng.choice([n[0] for n in d['notes']] or [60])
            s0 = rng.randint(0, 30) * T
            m = s0 + rng.randint(0, 4) * T + rng.choice([T // 3, T // 5, (2 * T) // 3, T // 64 + 7, 0])
            e = m + rng.randint(0, 4) * T + rng.choice([T // 3, T // 7, T])
            if s0 < m < e:
                d['notes'].append([pitch, rng.randint(1, 60), s0, m, 0, 0, 0, 0, 0, 0])
                d['notes'].append([pitch, rng.randint(61, 127), m, e, 0, 0, 0, 0, 0, 0])
        rng.shuffle(d['notes'])
    if op == 'sustain' and rng.random() < 0.6:
        # pedal scenarios: several notes of different pitches starting TOGETHER on a pedalled instrument, some
        # ending before the pedal is released (held), some after (still sounding): every per-instrument list of
        # the state machine is then built in storage order
        for _ in range(rng.randint(1, 2)):
            i = rng.choice([n[4] for n in d['notes']] or [0])
            t_on = rng.randint(0, 20) * T
            t_off = t_on + rng.randint(2, 12) * T
            d['ccs'].append([t_on, 0, 64, rng.choice([64, 100, 127]), i, 0, 0])
            d['ccs'].append([t_off, 0, 64, rng.choice([0, 10, 63]), i, 0, 0])
            if rng.random() < 0.4:
                d['ccs'].append([t_off + rng.randint(1, 4) * T, 0, 64, 127, i, 0, 0])
            s0 = max(0, t_on + rng.randint(-2, 6) * T)
            for pitch in rng.sample(range(40, 80), rng.randint(2, 4)):
                st = s0 if rng.random() < 0.8 else s0 + rng.randint(1, 3) * T
                e = st + rng.randint(1, 14) * T
                d['notes'].append([pitch, rng.randint(1, 127), st, e, i, 0, 0, 0, 0, 0])
            if rng.random() < 0.5:      # a re-struck pitch while the pedal is down
                n0 = d['notes'][-1]
                d['notes'].append([n0[0], 90, n0[3] + rng.randint(0, 3) * T, n0[3] + 5 * T, i, 0, 0, 0, 0, 0])
        rng.shuffle(d['notes'])
        rng.shuffle(d['ccs'])
    drop = None
    if op == 'midi':
        # drop_events_n_seconds_after_last_note (quarter seconds), with events stored beyond the cut-off
        drop = rng.choice([None, None, 0, 1, 4, 8, 20])
        if drop is not None and rng.random() < 0.7:
            last = max([n[3] for n in d['notes']] or [0])
            for _ in range(rng.randint(1, 2)):
                late = last + drop * T + rng.randint(1, 8) * T
                d['ccs'].insert(rng.randint(0, len(d['ccs'])),
                                [late, 0, rng.choice([64, 7]), rng.randint(0, 127), 0, 0, 0])
                d['bends'].insert(rng.randint(0, len(d['bends'])), [late + T, rng.randint(-100, 100), 0, 0, 0])
            d['total'] = max(d['total'], late + T)
    d = _distinct(d)
    total = d['total']
    if op == 'quantize_rel':
        r = rng.random()
        if r < 0.5:
            d = _single_tempo(rng, d)
        elif r < 0.75:
            # tempo marks at different times whose values are equal or differ by a hair (round-off sized): a
            # validation that tolerates the difference must not let the storage order pick the surviving one
            q0 = rng.choice([60, 90, 120, 133]) << nsio.QPM_BITS
            times = [0] + sorted(rng.sample(range(1, 40), rng.randint(1, 2)))
            d['tempos'] = [[t * T, q0 - rng.choice([0, 0, 1, 100, 524, 1000])] for t in times]
            rng.shuffle(d['tempos'])
            if rng.random() < 0.5:
                d['tsigs'] = []
        args = [rng.choice([1, 2, 4, 12])]
    elif op == 'quantize_abs':
        args = [rng.choice([1, 4, 10, 100])]
    elif op == 'extract_many':
        args = [sorted(set(rng.randint(0, 40) * T for _ in range(rng.randint(2, 5))))]
        if len(args[0]) < 2:
            args = [[0, 10 * T]]
    elif op == 'split_hop':
        args = [rng.choice([1, 2, 3, 5, 8]) * T, rng.random() < 0.5]
    elif op == 'split_time_changes':
        args = [rng.random() < 0.5]
    elif op == 'split_silence':
        args = [rng.choice([1, 2, 4, 12]) * T]
    elif op == 'sustain':
        args = []
    elif op == 'transpose':
        args = [rng.randint(-20, 20), rng.choice([0, 21, 40]), rng.choice([127, 108, 80]), rng.random() < 0.5]
    elif op == 'stretch':
        args = [rng.choice([1, 2, 3, 4, 6, 8, 16])]
    elif op == 'shift':
        args = [rng.choice([0, 1, 2, 5, 40]) * T + rng.choice([0, 0, 3])]
    elif op == 'midi':
        args = [drop]
    elif op == 'pianoroll':
        # sequence_to_pianoroll assumes a single instrument: two control changes of one number at one time
        # are "two state events of one kind sharing a time" whatever their instrument field says
        seen = set(); keep = []
        for r in d['ccs']:
            if (r[0], r[2]) not in seen:
                seen.add((r[0], r[2])); keep.append(r)
        d['ccs'] = keep
        args = [rng.choice([4, 8, 16, 32]), rng.choice([0, 21]), rng.choice([108, 127]),
                rng.choice(['window', 'length_ms']), rng.choice([0, 250]), rng.random() < 0.3,
                rng.random() < 0.8, rng.choice([0, 0, 2])]
    elif op in ('melody', 'drums'):
        d = _single_tempo(rng, d)
        args = [rng.choice([1, 2, 4]), rng.randrange(3), rng.choice([1, 2]), rng.random() < 0.7, rng.random() < 0.5]
    elif op == 'chords':
        d = _single_tempo(rng, d)
        args = [rng.choice([1, 2, 4]), rng.randint(0, 8), rng.randint(1, 64)]
    elif op == 'pianorollseq':
        d = _single_tempo(rng, d)
        args = [rng.choice([1, 2, 4]), rng.choice([0, 0, 4]), rng.choice([0, 21]), rng.choice([108, 127]),
                rng.random() < 0.7]
    elif op == 'metric_performance':
        d = _single_tempo(rng, d)
        args = [rng.choice([1, 2, 4]), rng.choice([0, 0, 4]), rng.choice([0, 8, 32]), rng.choice([None, 0, 1])]
    elif op == 'performance':
        args = [rng.choice([4, 10, 100]), rng.choice([0, 0, 4]), rng.choice([0, 8, 32]), rng.choice([None, 0, 1])]
    else:
        raise ValueError(op)
    return {'op': op, 'input': {'seq': d, 'args': args, 'seed': rng.randrange(1 << 30)}}


def cases(rng, tier, n=None):
    if n is None:
        n = 3600 if tier == "quick" else 72000
    out = [gen_case(rng, OPS[i % len(OPS)]) for i in range(n)]
    if tier == 'thorough':
        # all permutations of the notes for sequences of <= 5 notes
        for i in range(len(OPS) * 40):
            c = gen_case(rng, OPS[i % len(OPS)], max_notes=5)
            k = len(c['input']['seq']['notes'])
            if 2 <= k <= 5:
                c['input']['note_perms'] = [list(p) for p in itertools.permutations(range(k))]
                out.append(c)
    return out


def corpus():
    out = []
    # F1: tempos stored out of time order must be rejected (or accepted) independently of storage order
    base = {'notes': [[60, 100, 0, 4 * T, 0, 0, 0, 0, 0, 0]], 'tempos': [[20 * T, 60 << 20], [0, 120 << 20]],
            'tsigs': [], 'ksigs': [], 'texts': [], 'ccs': [], 'bends': [], 'sects': [], 'total': 4 * T, 'meta': None}
    for s in range(4):
        out.append({'op': 'quantize_rel', 'input': {'seq': copy.deepcopy(base), 'args': [4], 'seed': s}})
    # two tempo marks that differ by round-off (120 and 119.9995 qpm), later one stored first: rejected or
    # accepted, but the same either way, and with the same surviving tempo
    b1 = copy.deepcopy(base)
    b1['tempos'] = [[20 * T, (120 << 20) - 524], [0, 120 << 20]]
    b1['notes'] = [[60, 100, 250 * T + T // 4, 260 * T, 0, 0, 0, 0, 0, 0]]; b1['total'] = 260 * T
    for s in range(4):
        out.append({'op': 'quantize_rel', 'input': {'seq': copy.deepcopy(b1), 'args': [4], 'seed': s}})
    # F8: MIDI export with unsorted tempos
    b2 = copy.deepcopy(base)
    b2['tempos'] = [[8 * T, 60 << 20], [4 * T, 90 << 20], [0, 120 << 20]]
    b2['notes'] = [[60, 100, 10 * T, 12 * T, 0, 0, 0, 0, 0, 0]]; b2['total'] = 12 * T
    for s in range(4):
        out.append({'op': 'midi', 'input': {'seq': copy.deepcopy(b2), 'args': [None], 'seed': s}})
    # F7: two abutting same-pitch notes, PianorollSequence split_repeats
    b3 = copy.deepcopy(base)
    b3['tempos'] = []
    b3['notes'] = [[60, 100, 0, 2 * T, 0, 0, 0, 0, 0, 0], [60, 100, 2 * T, 4 * T, 0, 0, 0, 0, 0, 0]]
    for s in range(4):
        out.append({'op': 'pianorollseq', 'input': {'seq': copy.deepcopy(b3), 'args': [4, 0, 0, 127, True], 'seed': s}})
    # MIDI export with drop_events_n_seconds_after_last_note: a stray control change / pitch bend beyond the
    # cut-off stored among the in-range ones (an early exit from the loop would lose the later-stored ones)
    b4 = copy.deepcopy(base)
    b4['tempos'] = [[0, 120 << 20]]
    b4['notes'] = [[60, 100, 0, 4 * T, 0, 0, 0, 0, 0, 0], [64, 100, 4 * T, 8 * T, 0, 0, 0, 0, 0, 0]]
    b4['ccs'] = [[40 * T, 0, 64, 0, 0, 0, 0], [T, 0, 64, 127, 0, 0, 0], [3 * T, 0, 64, 0, 0, 0, 0],
                 [6 * T, 0, 64, 127, 0, 0, 0]]
    b4['bends'] = [[40 * T, 0, 0, 0, 0], [2 * T, 1000, 0, 0, 0], [5 * T, -1000, 0, 0, 0]]
    b4['total'] = 40 * T
    for s in range(6):
        out.append({'op': 'midi', 'input': {'seq': copy.deepcopy(b4), 'args': [4], 'seed': s}})
    # frame pianoroll: two same-pitch notes of different velocity abutting inside a frame, later one stored first
    b5 = copy.deepcopy(base)
    b5['tempos'] = [[0, 120 << 20]]
    b5['notes'] = [[60, 100, T + T // 3, 4 * T, 0, 0, 0, 0, 0, 0], [60, 40, 0, T + T // 3, 0, 0, 0, 0, 0, 0],
                   [64, 80, T, 3 * T, 0, 0, 0, 0, 0, 0]]
    for s in range(6):
        out.append({'op': 'pianoroll', 'input': {'seq': copy.deepcopy(b5),
                                                 'args': [4, 60, 64, 'window', 0, False, True, 0], 'seed': s}})
    # sustain: two notes starting together under the pedal, one held, one still sounding at the release
    b6 = copy.deepcopy(base)
    b6['tempos'] = []
    b6['notes'] = [[64, 100, 0, 40 * T, 0, 0, 0, 0, 0, 0], [60, 100, 0, 16 * T, 0, 0, 0, 0, 0, 0]]
    b6['ccs'] = [[24 * T, 0, 64, 0, 0, 0, 0], [4 * T, 0, 64, 127, 0, 0, 0]]
    b6['total'] = 40 * T
    for s in range(4):
        out.append({'op': 'sustain', 'input': {'seq': copy.deepcopy(b6), 'args': [], 'seed': s}})
    return out


def shrink(case):
    for sd in nsio.shrink_desc(case['input']['seq']):
        c = copy.deepcopy(case)
        c['input']['seq'] = sd
        c['input'].pop('note_perms', None)
        yield c
