"""C03 — NoteSequence -> MIDI -> NoteSequence preserves the music.

Times in a case are integers in units of u = 1/(10^6 * resolution) seconds, tempos are MIDI tempo values
(microseconds per quarter note), so the Gallina model (coq/Model/TempoMap.v, MidiGlue.v) is exact integer
arithmetic; the implementation sees floats (t = k*u, qpm = 6e7/us) and its outputs are rounded back to units
(a result further than 1e-3 units from an integer is reported as such, never rounded silently).
"""
import io

from vt import coqgen as G

ID = 'C03'
RULE = ('seeded structured generator of MIDI-representable NoteSequences (1-6 (instrument, program, is_drum) groups incl. '
        'several programs on one instrument number and instrument 0, drums, tpq 24..960 or unset, 0-4 tempos with '
        'microsecond-representable qpm in random storage order, times off the tick grid, touching notes, notes exactly '
        'two ticks long, ccs/bends on note-less instruments, time/key signatures) plus a stream of 3-8 tempo changes at off-grid times with same-sign sub-tick remainders at tpq 24/48/96; each case is run as op "write" (writer '
        'glue alone vs the model) and op "rt" (write -> PrettyMIDI.write -> midi_to_note_sequence vs model and oracle); '
        'non-trivial = at least one note and (>= 2 groups or a tempo change or an off-grid time); distinct by canonical input')
ASSUMPTIONS = [
    'pm_roundtrip (Model/TempoMap.v) is an idealised model of pretty_midi 0.2.x + mido (PrettyMIDI.write ; PrettyMIDI(file)): '
    'validated only by the differential run, not proved; byte encoding is not modelled (claim is PARTIAL)',
    'binary64 rounding in time_to_tick agrees with exact nearest-tick except at exact half-tick ties; cases where the model '
    'meets a tie are counted (extra_evidence.ties_skipped) and skipped',
    'the integer pretty_midi writes for a tempo (int(6e7/(60./(tick_scale*resolution))), F19) is evaluated by the harness '
    'with the same binary64 expression and handed to the model as a table; theorems assume it is the identity',
    'instrument names and drop_events_n_seconds_after_last_note are not modelled',
]
USE_VM = False

STATS = {'ties_skipped': 0, 'pre_false': 0, 'f19_cases': 0, 'rt_cases': 0, 'drop_given': 0, 'drop_cuts_events': 0,
         'routes': {}, 'names_given': 0, 'readpm_rejections': 0}


def extra_evidence():
    return {'c03_stats': dict(STATS)}


def gen_coq():
    from note_seq import constants, midi_io
    from note_seq.protobuf import music_pb2
    us = 6e7 / constants.DEFAULT_QUARTERS_PER_MINUTE
    if us != int(us):
        raise TypeError('default tempo is not microsecond-representable: %r' % (us,))
    s = G.HEADER
    s += G.defz('STANDARD_PPQ', constants.STANDARD_PPQ)
    s += G.defz('DEFAULT_US_PER_QUARTER', int(us))
    s += G.defz('MAJOR_TO_MINOR_OFFSET', midi_io._PRETTY_MIDI_MAJOR_TO_MINOR_OFFSET)
    s += G.defz('KEY_MODE_MAJOR', music_pb2.NoteSequence.KeySignature.MAJOR)
    s += G.defz('KEY_MODE_MINOR', music_pb2.NoteSequence.KeySignature.MINOR)
    return s


# ---------------------------------------------------------------- units
def res_of(d):
    from note_seq import constants
    return d['tpq'] or constants.STANDARD_PPQ


def to_proto(d):
    from note_seq.protobuf import music_pb2
    ns = music_pb2.NoteSequence()
    ns.ticks_per_quarter = d['tpq']
    f = 1e6 * res_of(d)
    for p, v, s, e, ins, prog, dr in d['notes']:
        n = ns.notes.add()
        n.pitch, n.velocity, n.start_time, n.end_time = p, v, s / f, e / f
        n.instrument, n.program, n.is_drum = ins, prog, bool(dr)
    for t, us in d['tempos']:
        x = ns.tempos.add(); x.time = t / f; x.qpm = 6e7 / us
    for t, num, den in d['tsigs']:
        x = ns.time_signatures.add(); x.time = t / f; x.numerator = num; x.denominator = den
    for t, k, m in d['ksigs']:
        x = ns.key_signatures.add(); x.time = t / f; x.key = k; x.mode = m
    for t, num, val, ins, prog, dr in d['ccs']:
        x = ns.control_changes.add(); x.time = t / f; x.control_number = num; x.control_value = val
        x.instrument, x.program, x.is_drum = ins, prog, bool(dr)
    for t, b, ins, prog, dr in d['bends']:
        x = ns.pitch_bends.add(); x.time = t / f; x.bend = b
        x.instrument, x.program, x.is_drum = ins, prog, bool(dr)
    if d['notes']:
        ns.total_time = max(n[3] for n in d['notes']) / f
    for ins, name in d.get('names') or []:
        ii = ns.instrument_infos.add(); ii.instrument = ins; ii.name = name
    fl = d.get('flags') or []
    if 'qinfo_empty' in fl:
        ns.quantization_info.SetInParent()
    if 'sub' in fl:
        ns.subsequence_info.start_time_offset = 1.5
        ns.subsequence_info.end_time_offset = 0.25
    if 'meta' in fl:
        ns.id = 'id-7'; ns.filename = 'x.mid'; ns.source_info.parser = 3
    return ns


def last_end(d):
    return max([n[3] for n in d['notes']] or [0])


def eff_desc(d):
    """The sequence that has to come back, from the REQUESTED drop_events_n_seconds_after_last_note (documented meaning:
    events -- tempo / time signature / key / control change / pitch bend -- later than that many seconds after the end
    of the last note are dropped; None drops nothing; notes are never dropped)."""
    drop = d.get('drop')
    if drop is None:
        return d
    cut = last_end(d) + drop
    e = dict(d)
    for fld in ('tempos', 'tsigs', 'ksigs', 'ccs', 'bends'):
        e[fld] = [r for r in d[fld] if not r[0] > cut]
    e['drop'] = None
    return e


class NonInt(Exception):
    pass


def U(x, f):
    """seconds -> integer units; fail loudly when the value is not (nearly) an integer number of units"""
    v = float(x) * f
    r = round(v)
    if abs(v - r) > 1e-3 + 1e-12 * abs(v):
        raise NonInt('%r s is %r units' % (x, v))
    return int(r)


def qpm_to_us(q):
    v = 6e7 / float(q)
    r = round(v)
    if abs(v - r) > 1e-6 * max(1.0, v) * 1e-3:
        raise NonInt('qpm %r is %r us' % (q, v))
    return int(r)


def written_us(us, res):
    """the integer PrettyMIDI.write stores for a tempo of `us` microseconds (same binary64 expression, F19)"""
    qpm = 6e7 / us
    tick_scale = 60.0 / (res * qpm)
    return int(6e7 / (60. / (tick_scale * res)))


def wr_table(d):
    res = res_of(d)
    vals = sorted(set([500000] + [t[1] for t in d['tempos']]))
    return [[us, written_us(us, res)] for us in vals]


_TMP = []


def _tmp_path():
    import atexit, os, shutil, tempfile
    if not _TMP:
        _TMP.append(tempfile.mkdtemp(prefix='verif-c03-'))
        _TMP.append(0)
        atexit.register(shutil.rmtree, _TMP[0], True)
    _TMP[1] += 1
    return os.path.join(_TMP[0], 'c%d.mid' % _TMP[1])


ROUTES = ('bytes', 'pmobj', 'file', 'alias_file', 'alias_bytes')


def roundtrip(ns, drop_s=None, route='bytes'):
    """every public way from a NoteSequence to MIDI and back"""
    import os
    import pretty_midi
    from note_seq import midi_io
    if route in ('file', 'alias_file'):
        path = _tmp_path()
        try:
            if route == 'file':
                if drop_s is None:
                    midi_io.note_sequence_to_midi_file(ns, path)
                else:
                    midi_io.note_sequence_to_midi_file(ns, path, drop_s)
                return midi_io.midi_file_to_note_sequence(path)
            midi_io.sequence_proto_to_midi_file(ns, path, drop_events_n_seconds_after_last_note=drop_s)
            return midi_io.midi_file_to_sequence_proto(path)
        finally:
            if os.path.exists(path):
                os.remove(path)
    if route == 'alias_bytes':
        pm = midi_io.sequence_proto_to_pretty_midi(ns, drop_s)
    elif drop_s is None:
        pm = midi_io.note_sequence_to_pretty_midi(ns)
    else:
        pm = midi_io.note_sequence_to_pretty_midi(ns, drop_events_n_seconds_after_last_note=drop_s)
    buf = io.BytesIO()
    pm.write(buf)
    if route == 'pmobj':
        return midi_io.midi_to_note_sequence(pretty_midi.PrettyMIDI(io.BytesIO(buf.getvalue())))
    if route == 'alias_bytes':
        return midi_io.midi_to_sequence_proto(buf.getvalue())
    return midi_io.midi_to_note_sequence(buf.getvalue())


def _rank(rows_lists):
    """the property allows instrument numbers to be renumbered: replace them by their dense rank"""
    ids = sorted(set(r[0] for rows in rows_lists for r in rows))
    rk = {v: i for i, v in enumerate(ids)}
    return [sorted([rk[r[0]]] + list(r[1:]) for r in rows) for rows in rows_lists]


def _drop_empty(instrs):
    """an Instrument without notes, bends and controls is only a program change on a track of its own; the order of
    the events inside an Instrument is not observable (PrettyMIDI.write sorts them)"""
    return [[i[0], i[1], sorted(i[2]), sorted(i[3]), sorted(i[4])] for i in instrs if i[2] or i[3] or i[4]]


def canon_seq(out, f):
    notes = sorted([n.instrument, n.program, int(n.is_drum), n.pitch, n.velocity, U(n.start_time, f), U(n.end_time, f)]
                   for n in out.notes)
    ccs = sorted([c.instrument, c.program, int(c.is_drum), c.control_number, c.control_value, U(c.time, f)]
                 for c in out.control_changes)
    bends = sorted([b.instrument, b.program, int(b.is_drum), b.bend, U(b.time, f)] for b in out.pitch_bends)
    tempos = [[U(t.time, f), qpm_to_us(t.qpm)] for t in out.tempos]
    tsigs = [[U(t.time, f), t.numerator, t.denominator] for t in out.time_signatures]
    ksigs = [[U(k.time, f), k.key, k.mode] for k in out.key_signatures]
    names = [[ii.instrument, ii.name] for ii in out.instrument_infos]
    ids = set(r[0] for r in notes + ccs + bends)
    stray = [r for r in names if r[0] not in ids]
    notes, ccs, bends, names = _rank([notes, ccs, bends, [r for r in names if r[0] in ids]])
    return [notes, ccs, bends, tempos, tsigs, ksigs, U(out.total_time, f), out.ticks_per_quarter,
            {'names': names, 'stray_names': stray, 'parser': out.source_info.parser,
             'encoding': out.source_info.encoding_type}]


def canon_pm(pm, f):
    scales = [[int(k), int(round(sc * f))] for k, sc in pm._tick_scales]
    for (k, sc), (_, us) in zip(pm._tick_scales, scales):
        if abs(sc * f - us) > 1e-3:
            raise NonInt('tick scale %r' % sc)
    instrs = [[i.program, int(i.is_drum),
               [[n.velocity, n.pitch, U(n.start, f), U(n.end, f)] for n in i.notes],
               [[b.pitch, U(b.time, f)] for b in i.pitch_bends],
               [[c.number, c.value, U(c.time, f)] for c in i.control_changes]] for i in pm.instruments]
    return [pm.resolution, scales,
            [[t.numerator, t.denominator, U(t.time, f)] for t in pm.time_signature_changes],
            [[k.key_number, U(k.time, f)] for k in pm.key_signature_changes], _drop_empty(instrs)]


def drop_seconds(d):
    return None if d.get('drop') is None else d['drop'] / (1e6 * res_of(d))


# ---------------------------------------------------------------- implementation
def impl(case):
    d = case['input']
    f = 1e6 * res_of(d)
    ns = to_proto(d)
    before = ns.SerializeToString(deterministic=True)
    from note_seq import midi_io
    try:
        if case['op'] == 'write':
            ds = drop_seconds(d)
            pm = midi_io.note_sequence_to_pretty_midi(ns) if ds is None else midi_io.note_sequence_to_pretty_midi(ns, ds)
            r = ['OK'] + canon_pm(pm, f)
        elif case['op'] == 'readpm':
            pm = midi_io.note_sequence_to_pretty_midi(ns, drop_seconds(d))
            bad = d.get('bad')
            if bad and bad[0] == 'key':
                pm.key_signature_changes[bad[1]].key_number = bad[2]
            if bad and bad[0] == 'den':
                pm.time_signature_changes[bad[1]].denominator = bad[2]
            pm_before = canon_pm(pm, f)
            try:
                out = midi_io.midi_to_note_sequence(pm)
                r = ['OK'] + canon_seq(out, f)
            except NonInt:
                raise
            except Exception as e:  # noqa
                r = ['EXC', type(e).__name__]
            if canon_pm(pm, f) != pm_before:
                r = ['ARG-MODIFIED', 'PrettyMIDI object changed by midi_to_note_sequence']
        else:
            out = roundtrip(ns, drop_seconds(d), d.get('route') or 'bytes')
            r = ['OK'] + canon_seq(out, f)
        if ns.SerializeToString(deterministic=True) != before:
            return ['ARG-MODIFIED', 'NoteSequence changed by the conversion']
        return r
    except NonInt as e:
        return ['NONINT', str(e)[:120]]
    except Exception as e:  # noqa
        return ['EXC', type(e).__name__]


# ---------------------------------------------------------------- model
def wire(d):
    notes = [[p, v, s, e, ins, prog, dr, 0, 0, 0] for p, v, s, e, ins, prog, dr in d['notes']]
    ccs = [[t, 0, num, val, ins, prog, dr] for t, num, val, ins, prog, dr in d['ccs']]
    bends = [[t, b, ins, prog, dr] for t, b, ins, prog, dr in d['bends']]
    total = max([n[3] for n in d['notes']] or [0])
    return [notes, d['tempos'], d['tsigs'], d['ksigs'], [], ccs, bends, [], total, 0, 0, 0, [0, 0], d['tpq'], 0]


def model_input(case):
    d = eff_desc(case['input'])            # the harness applies the REQUESTED drop parameter by its documented meaning
    if case['op'] == 'readpm':
        bad = case['input'].get('bad')
        if bad and bad[0] != 'key':
            return None                    # oversized denominators: oracle only (protobuf int32 range is not modelled)
        return [4, wire(d), wr_table(d), [bad[1], bad[2]] if bad else []]
    return [1 if case['op'] == 'write' else 2, wire(d), wr_table(d)]


def model_output(case, m):
    if case['op'] == 'write':
        ties, (res, scales, tsigs, ksigs, instrs) = m
        return ['OK', res, scales, tsigs, ksigs, _drop_empty(instrs), {'ties': ties}]
    if m[0] != 1:
        return ['EXC', 'MIDIConversionError']
    _, pre, ties, notes, ccs, bends, tempos, tsigs, ksigs, total, tpq = m
    notes, ccs, bends = _rank([notes, ccs, bends])
    return ['OK', notes, ccs, bends, tempos, tsigs, ksigs, total, tpq, {'pre': pre, 'ties': ties}]


def equal(case, a, b):
    if a and a[0] == 'OK' and isinstance(a[-1], dict):
        a = a[:-1]                              # names / source_info: oracle only, not modelled
    if case['op'] == 'write':
        if b[-1]['ties']:
            STATS['ties_skipped'] += 1
            return True
        return a == b[:-1]
    flags = b[-1] if isinstance(b[-1], dict) else None
    STATS['rt_cases'] += 1
    if flags is not None:
        if flags['ties']:
            STATS['ties_skipped'] += 1          # binary64 decides an exact half-tick tie; not comparable
            return True
        if not flags['pre']:
            STATS['pre_false'] += 1             # generator promised >= 2 ticks and no same-pitch overlap
            return False
        b = b[:-1]
    return a == b


# ---------------------------------------------------------------- oracle: the property on the implementation
def _in_effect(changes, t):
    """value of the last change (stable time order, later stored wins) with time <= t, else None"""
    best = None
    for (tm, v) in changes:
        if tm <= t and (best is None or tm >= best[0]):
            best = (tm, v)
    return None if best is None else best[1]


def _tempo_segments(d):
    """(time, us) in effect, time-sorted (stable), with the implicit 120 qpm from 0"""
    ts = sorted(d['tempos'], key=lambda r: r[0])
    return [(0, 500000)] + [(t, us) for t, us in ts]


def _tick_near(d, t, span):
    segs = _tempo_segments(d)
    lo, hi = t - span, t + span
    best = 0
    for i, (tm, us) in enumerate(segs):
        nxt = segs[i + 1][0] if i + 1 < len(segs) else None
        if tm <= hi and (nxt is None or nxt >= lo):
            best = max(best, us)
    return best


def _spaced(changes, gap):
    """two changes of one kind closer than two ticks collapse onto one MIDI tick, where only the storage order is
    left to tell them apart: such inputs are outside 'MIDI-representable' for the in-effect clause (see notes/C03.md)"""
    ts = sorted(t for t, _ in changes)
    return all(b - a >= gap for a, b in zip(ts, ts[1:]))


def representable(d):
    """the property's quantifier, checked on the input"""
    umax = max([500000] + [t[1] for t in d['tempos']])
    if not (d['tpq'] == 0 or 24 <= d['tpq'] <= 960):
        return False
    for t, us in d['tempos']:
        if t < 0 or not (1 <= us <= 0xFFFFFF):
            return False
    groups = {}
    for p, v, s, e, ins, prog, dr in d['notes']:
        if not (0 <= p <= 127 and 1 <= v <= 127 and 0 <= prog <= 127 and ins >= 0 and s >= 0):
            return False
        if e - s < 2 * umax:
            return False
        groups.setdefault((ins, prog, dr, p), []).append((s, e))
    for iv in groups.values():
        iv.sort()
        for (s1, e1), (s2, e2) in zip(iv, iv[1:]):
            if s2 < e1:
                return False
    for t, num, den in d['tsigs']:
        if t < 0 or not (1 <= num <= 255) or den not in (1, 2, 4, 8, 16, 32, 64, 128):
            return False
    for t, k, m in d['ksigs']:
        if t < 0 or not (0 <= k <= 11 and m in (0, 1)):
            return False
    for t, num, val, ins, prog, dr in d['ccs']:
        if t < 0 or not (0 <= num <= 127 and 0 <= val <= 127 and 0 <= prog <= 127 and ins >= 0):
            return False
    for t, b, ins, prog, dr in d['bends']:
        if t < 0 or not (-8192 <= b <= 8191 and 0 <= prog <= 127 and ins >= 0):
            return False
    return True


def _match_lists(xs, ys, tol):
    """xs, ys sorted lists of (discrete..., times...) as (tuple_discrete, tuple_times); elementwise equality with
    per-time tolerance tol(t)."""
    if len(xs) != len(ys):
        return False
    for (dx, tx), (dy, ty) in zip(xs, ys):
        if dx != dy:
            return False
        for a, b in zip(tx, ty):
            if abs(a - b) > tol(a):
                return False
    return True


def _oracle_readpm(case, io_):
    """reader glue alone on a PrettyMIDI object (the other documented argument type of midi_to_note_sequence) and its
    documented rejections: a key number outside major/minor and a time signature denominator beyond int32 are
    MIDIConversionError -- also when the offending element comes after valid ones -- and the object is left alone"""
    d_req = case['input']
    d = eff_desc(d_req)
    bad = d_req.get('bad')
    if bad:
        invalid = (bad[2] // 12) not in (0, 1) if bad[0] == 'key' else not (-2 ** 31 <= bad[2] < 2 ** 31)
        STATS['readpm_rejections'] += int(invalid)
        if invalid and io_ != ['EXC', 'MIDIConversionError']:
            return {'kind': 'invalid-midi-object-not-rejected-with-MIDIConversionError', 'got': io_[:2], 'bad': bad}
        if not invalid and io_[0] != 'OK':
            return {'kind': 'valid-midi-object-rejected', 'got': io_[:2], 'bad': bad}
        return None
    if not representable(d):
        return None
    if io_[0] != 'OK':
        return {'kind': 'reader-raises', 'what': io_[:2]}
    want = sorted([prog, dr, p, v, s, e] for p, v, s, e, ins, prog, dr in d['notes'])
    got = sorted(r[1:] for r in io_[1])
    if want != got:
        return {'kind': 'reader-changes-notes', 'in': len(want), 'out': len(got)}
    if io_[8] != res_of(d):
        return {'kind': 'resolution-changed', 'in': res_of(d), 'out': io_[8]}
    return None


def oracle(case, io_):
    if io_ and io_[0] == 'ARG-MODIFIED':
        return {'kind': 'argument-modified', 'what': io_[1], 'op': case['op']}
    if case['op'] == 'readpm':
        return _oracle_readpm(case, io_)
    if case['op'] != 'rt':
        return None
    d_req = case['input']
    d = eff_desc(d_req)            # what has to come back, from the requested drop_events_n_seconds_after_last_note
    if not representable(d):
        return None
    if io_[0] != 'OK':
        return {'kind': 'roundtrip-raises', 'what': io_[:2]}
    notes, ccs, bends, tempos, tsigs, ksigs, total, tpq = io_[1:9]
    extra = io_[9]
    if d_req.get('drop') is not None:
        STATS['drop_given'] += 1
        STATS['drop_cuts_events'] += int(any(d[k] != d_req[k] for k in ('tempos', 'tsigs', 'ksigs', 'ccs', 'bends')))
    rt_ = d_req.get('route') or 'bytes'
    STATS['routes'][rt_] = STATS['routes'].get(rt_, 0) + 1
    STATS['names_given'] += int(bool(d_req.get('names')))
    res = res_of(d)
    if tpq != res:
        return {'kind': 'resolution-changed', 'in': res, 'out': tpq}
    # --- F19 presence: a tempo value came back exactly one microsecond shorter
    in_us = set([500000] + [t[1] for t in d['tempos']])
    out_us = [us for _, us in tempos]
    f19 = [us for us in out_us if us not in in_us and (us + 1) in in_us]
    min_us = min(in_us)

    def tol(t):
        base = _tick_near(d, t, 2 * max(in_us))
        drift = (abs(t) // (min_us - 1) + 2) if f19 else 0      # <= one unit per tick elapsed
        return base + drift + 1

    # --- notes: group -> output instrument, injective, contents equal within a tick
    if len(notes) != len(d['notes']):
        return {'kind': 'note-count-changed', 'in': len(d['notes']), 'out': len(notes),
                'zero_instrument_groups': len(set((n[5], n[6]) for n in d['notes'] if n[4] == 0))}
    gin = {}
    for p, v, s, e, ins, prog, dr in d['notes']:
        gin.setdefault((ins, prog, dr), []).append(((p,), (s, e), v))
    gout = {}
    for ins, prog, dr, p, v, s, e in notes:
        gout.setdefault(ins, {'pd': set(), 'notes': []})
        gout[ins]['pd'].add((prog, dr))
        gout[ins]['notes'].append(((p,), (s, e), v))
    for ins, g in gout.items():
        if len(g['pd']) != 1:
            return {'kind': 'output-instrument-mixes-programs', 'instrument': ins}
    if len(gout) != len(gin):
        return {'kind': 'grouping-changed', 'groups_in': len(gin), 'groups_out': len(gout)}

    def norm(lst):
        lst = sorted(lst, key=lambda r: (r[0], r[1][0]))
        return [((r[0], r[2]), r[1]) for r in lst]

    keys_in = sorted(gin)
    outs = sorted(gout)
    cand = {}
    for k in keys_in:
        cand[k] = [o for o in outs if list(gout[o]['pd'])[0] == (k[1], k[2]) and
                   _match_lists(norm(gin[k]), norm(gout[o]['notes']), tol)]
        if not cand[k]:
            return {'kind': 'note-group-not-preserved', 'group': list(k)}

    def assign(i, used):
        if i == len(keys_in):
            return {}
        for o in cand[keys_in[i]]:
            if o not in used:
                r = assign(i + 1, used | {o})
                if r is not None:
                    r[keys_in[i]] = o
                    return r
        return None
    amap = assign(0, frozenset())
    if amap is None:
        return {'kind': 'grouping-changed', 'groups_in': len(gin), 'groups_out': len(gout)}
    # --- ccs and bends on instruments that have notes
    cin, cout, bin_, bout = {}, {}, {}, {}
    for t, num, val, ins, prog, dr in d['ccs']:
        if (ins, prog, dr) in gin:
            cin.setdefault(amap[(ins, prog, dr)], []).append(((num, val), (t,)))
    pd_out = {o: list(gout[o]['pd'])[0] for o in gout}
    for ins, prog, dr, num, val, t in ccs:
        if pd_out.get(ins) != (prog, dr):
            return {'kind': 'control-change-on-wrong-program', 'out_instrument': ins}
        cout.setdefault(ins, []).append(((num, val), (t,)))
    for t, b, ins, prog, dr in d['bends']:
        if (ins, prog, dr) in gin:
            bin_.setdefault(amap[(ins, prog, dr)], []).append(((b,), (t,)))
    for ins, prog, dr, b, t in bends:
        if pd_out.get(ins) != (prog, dr):
            return {'kind': 'pitch-bend-on-wrong-program', 'out_instrument': ins}
        bout.setdefault(ins, []).append(((b,), (t,)))
    for o in set(cin) | set(cout):
        if not _match_lists(sorted(cin.get(o, [])), sorted(cout.get(o, [])), tol):
            return {'kind': 'control-changes-not-preserved', 'out_instrument': o}
    for o in set(bin_) | set(bout):
        if not _match_lists(sorted(bin_.get(o, [])), sorted(bout.get(o, [])), tol):
            return {'kind': 'pitch-bends-not-preserved', 'out_instrument': o}
    # --- tempo / time signature / key in effect at every instant (probes between change points)
    distinct_tempo_times = len(set(t for t, _ in d['tempos'])) == len(d['tempos'])
    span = max(in_us) + 2
    end = max([n[3] for n in d['notes']] + [t for t, _ in d['tempos']] + [r[0] for r in d['tsigs']] +
              [r[0] for r in d['ksigs']] + [0]) + 10 * span

    def probes(a, b):
        pts = sorted(set([0] + [r[0] for r in a] + [r[0] for r in b] + [end]))
        out = []
        for x, y in zip(pts, pts[1:]):
            if y - x > 2 * (tol(x) + tol(y)):
                out.append((x + y) // 2)
        out.append(end + span)
        return out
    tin = [(t, us) for t, us in d['tempos']]
    tout = [(t, us) for t, us in tempos]
    one_us = None
    if distinct_tempo_times:
        for p in probes(tin, tout):
            a = _in_effect(tin, p) or 500000
            b = _in_effect(tout, p) or 500000
            if a != b:
                if b == a - 1 and written_us(a, res) == b:
                    one_us = {'kind': 'tempo-written-one-microsecond-short', 'us': a, 'resolution': res,
                              'third_party': 'pretty_midi.PrettyMIDI.write'}
                else:
                    return {'kind': 'tempo-in-effect-changed', 'at_units': p, 'in_us': a, 'out_us': b,
                            'tempos_time_sorted': tin == sorted(tin, key=lambda r: r[0])}
        # every tempo change comes back within ONE tick of where it was put: exact integer arithmetic on the ORIGINAL
        # sequence (one tick of the tempo in force before the change = us_prev units); just more than one tick after
        # the change the new tempo must be in effect, just more than one tick before it still the old one
        segs = _tempo_segments(d)
        for i in range(1, len(segs)):
            t, us_new = segs[i]
            us_prev = segs[i - 1][1]
            if us_new == us_prev:
                continue
            drift = (t // (min_us - 1) + 2) if f19 else 0
            nxt = segs[i + 1][0] if i + 1 < len(segs) else None
            checks = []
            pa = t + us_prev + drift + 1
            if nxt is None or nxt - (us_new + drift) - 1 > pa:
                checks.append((pa, us_new, 'after'))
            pb = t - us_prev - drift - 1
            if pb >= 0 and (i == 1 or segs[i - 1][0] + segs[i - 2][1] + drift + 1 < pb):
                checks.append((pb, us_prev, 'before'))
            for pp, a, side in checks:
                b = _in_effect(tout, pp) or 500000
                if a != b:
                    if b == a - 1 and written_us(a, res) == b:
                        one_us = {'kind': 'tempo-written-one-microsecond-short', 'us': a, 'resolution': res,
                                  'third_party': 'pretty_midi.PrettyMIDI.write'}
                    else:
                        return {'kind': 'tempo-change-moved-more-than-one-tick', 'change_at_units': t,
                                'change_index': i, 'probe_units': pp, 'side': side, 'tick_units': us_prev,
                                'expected_us': a, 'out_us': b, 'resolution': res}
    sin = [(t, (num, den)) for t, num, den in d['tsigs']]
    sout = [(t, (num, den)) for t, num, den in tsigs]
    if _spaced(sin, 2 * max(in_us)):
        for p in probes(sin, sout):
            a = _in_effect(sin, p) or (4, 4)
            b = _in_effect(sout, p) or (4, 4)
            if a != b:
                return {'kind': 'time-signature-in-effect-changed', 'at_units': p, 'in': list(a), 'out': list(b)}
    kin = [(t, (k, m)) for t, k, m in d['ksigs']]
    kout = [(t, (k, m)) for t, k, m in ksigs]
    if _spaced(kin, 2 * max(in_us)):
        for p in probes(kin, kout):
            a = _in_effect(kin, p)
            b = _in_effect(kout, p)
            if a != b:
                return {'kind': 'key-in-effect-changed', 'at_units': p, 'in': a and list(a), 'out': b and list(b)}
    # --- a name given for an instrument number comes back on every output instrument carrying its notes
    given = {}
    for ins, name in d_req.get('names') or []:
        given[ins] = name
    for k in keys_in:
        nm = given.get(k[0])
        if nm and [amap[k], nm] not in extra['names']:
            return {'kind': 'instrument-name-lost', 'instrument': k[0], 'name': nm,
                    'got': [r[1] for r in extra['names'] if r[0] == amap[k]]}
    from note_seq.protobuf import music_pb2
    if (extra['parser'], extra['encoding']) != (music_pb2.NoteSequence.SourceInfo.PRETTY_MIDI,
                                                music_pb2.NoteSequence.SourceInfo.MIDI):
        return {'kind': 'source-info-wrong', 'got': [extra['parser'], extra['encoding']]}
    # --- storage order of notes and tempos does not matter
    if distinct_tempo_times:
        d2 = dict(d_req)
        d2['notes'] = list(reversed(d_req['notes']))
        d2['tempos'] = list(reversed(d_req['tempos']))
        if d2['notes'] != d_req['notes'] or d2['tempos'] != d_req['tempos']:
            io2 = impl({'op': 'rt', 'input': d2})
            if io2 != io_:
                return {'kind': 'depends-on-storage-order',
                        'tempos_time_sorted': tin == sorted(tin, key=lambda r: r[0])}
    # --- state across calls / aliasing: a second identical call gives the same answer; the returned PrettyMIDI shares
    #     nothing with the argument or with a later result; the output fed back in is a fixed point
    from note_seq import midi_io
    f = 1e6 * res
    ns = to_proto(d_req)
    snap0 = ns.SerializeToString(deterministic=True)
    try:
        out1 = roundtrip(ns, drop_seconds(d_req), d_req.get('route') or 'bytes')
        if ['OK'] + canon_seq(out1, f) != io_:
            return {'kind': 'second-call-differs'}
        pm1 = midi_io.note_sequence_to_pretty_midi(ns, drop_seconds(d_req))
        c1 = canon_pm(pm1, f)
        for ins_ in pm1.instruments:
            for n_ in ins_.notes:
                n_.pitch = (n_.pitch + 1) % 128
            del ins_.notes[:], ins_.pitch_bends[:], ins_.control_changes[:]
            ins_.program = 99
        del pm1.time_signature_changes[:], pm1.key_signature_changes[:]
        pm1._tick_scales.append((10 ** 6, 1.0))
        if ns.SerializeToString(deterministic=True) != snap0:
            return {'kind': 'argument-aliased-by-result', 'what': 'editing the PrettyMIDI changed the NoteSequence'}
        if canon_pm(midi_io.note_sequence_to_pretty_midi(ns, drop_seconds(d_req)), f) != c1:
            return {'kind': 'result-aliased-across-calls', 'what': 'editing an earlier PrettyMIDI changed a later one'}
        def exact_again(q):        # F19 on the second pass depends on the binary64 value of the qpm read back
            return int(6e7 / (60. / ((60.0 / (res * q)) * res))) == qpm_to_us(q)
        if not f19 and all(exact_again(t_.qpm) for t_ in out1.tempos):
            out2 = roundtrip(out1)
            a1, a2 = canon_seq(out1, f)[:8], canon_seq(out2, f)[:8]   # default track names depend on the instrument number
            if a1 != a2:
                diff = [i for i in range(len(a1)) if a1[i] != a2[i]]
                return {'kind': 'second-round-trip-not-a-fixed-point', 'fields': diff}
    except NonInt as e:
        return {'kind': 'non-integer-time', 'what': str(e)[:100]}
    if one_us:
        STATS['f19_cases'] += 1
    return one_us


def nontrivial(case, io_):
    d = case['input']
    if not d['notes'] or io_[0] != 'OK':
        return False
    groups = set((n[4], n[5], n[6]) for n in d['notes'])
    res = res_of(d)
    offgrid = any(n[2] % 500000 or n[3] % 500000 for n in d['notes'])
    return len(groups) >= 2 or len(d['tempos']) >= 2 or offgrid


# ---------------------------------------------------------------- generator
def _desc(tpq=220, notes=(), tempos=(), tsigs=(), ksigs=(), ccs=(), bends=(), drop=None, route='bytes', names=(),
          flags=()):
    return {'tpq': tpq, 'notes': [list(x) for x in notes], 'tempos': [list(x) for x in tempos],
            'tsigs': [list(x) for x in tsigs], 'ksigs': [list(x) for x in ksigs], 'ccs': [list(x) for x in ccs],
            'bends': [list(x) for x in bends], 'drop': drop, 'route': route, 'names': [list(x) for x in names],
            'flags': list(flags)}


NAMES = ['Lead', 'Bass gtr', 'Drums', 'x', 'Caf\xe9 piano', 'Acoustic Grand Piano', 'track 1']


def decorate(rng, d):
    """Parameters and rare shapes drawn INDEPENDENTLY of the musical content: drop_events_n_seconds_after_last_note
    (None / 0 / boundary +-1 unit around an event / random), the conversion route (every public entry point and alias,
    file and bytes, PrettyMIDI object), instrument_infos names (also for instruments without notes), empty / unrelated
    sub-messages, values at range ends, events at time 0."""
    d = dict(d)
    res = res_of(d)
    sec = 1000000 * res
    # rare shapes first (they may add events the drop parameter then cuts)
    if rng.random() < 0.25 and d['notes']:
        k = rng.choice(d['notes'])[4:7]
        d['bends'] = d['bends'] + [[rng.choice([0, rng.randint(0, 10 * sec)]), rng.choice([-8192, 8191, 0]), k[0], k[1], k[2]]]
        d['ccs'] = d['ccs'] + [[rng.choice([0, rng.randint(0, 10 * sec)]), rng.choice([0, 127]), rng.choice([0, 127]),
                               k[0], k[1], k[2]]]
    if rng.random() < 0.15:
        times = set(r[0] for r in d['tsigs'])
        t = rng.choice([0, rng.randint(1, 20 * sec)])
        if all(abs(t - x) >= 4000000 for x in times):
            d['tsigs'] = d['tsigs'] + [[t, rng.choice([1, 255, 5]), rng.choice([1, 32, 64, 128])]]
    if rng.random() < 0.1 and d['notes']:
        n0 = list(d['notes'][0])
        same = [n for n in d['notes'] if n[0] == n0[0] and n[4:7] == n0[4:7]]
        if len(same) == 1:                       # a note starting exactly at time 0, pitch / velocity at a range end
            ln = n0[3] - n0[2]
            d['notes'] = [[n0[0], rng.choice([1, 127]), 0, ln] + n0[4:7]] + d['notes'][1:]
    if rng.random() < 0.07:
        # consecutive meters sharing the numerator, the second one n/n (a real change that a reader remembering only
        # part of the last meter would take for a repetition), optionally followed by a change back
        nn = rng.choice([2, 4, 8, 16])
        dd = rng.choice([x for x in (2, 4, 8, 16) if x != nn])
        t0 = rng.choice([0, 0, rng.randint(1, 3 * sec)])
        t1 = t0 + rng.randint(1, 4) * sec + rng.randint(0, 1000)
        ts = [[t0, nn, dd], [t1, nn, nn]]
        if rng.random() < 0.5:
            ts.append([t1 + rng.randint(1, 4) * sec + rng.randint(0, 1000), rng.choice([nn, 3]), dd])
        if rng.random() < 0.3:
            rng.shuffle(ts)
        d['tsigs'] = ts
    # drop_events_n_seconds_after_last_note
    r = rng.random()
    L = last_end(d)
    ev = sorted(set(x[0] for fld in ('tempos', 'tsigs', 'ksigs', 'ccs', 'bends') for x in d[fld] if x[0] > L))
    drop = None
    if r < 0.45:
        if ev and rng.random() < 0.6:
            drop = rng.choice(ev) - L + rng.choice([-1, 1])          # just before / just after an event
        else:
            drop = rng.choice([0, 1, sec // 3, rng.randint(0, 12 * sec)])
        if drop < 0 or (drop == 0 and L == 0):
            drop = None                                              # "after the last note" is undefined without notes
        while drop is not None and (L + drop) in ev:
            drop += 1                                                # equality is decided by binary64 rounding
    d['drop'] = drop
    d['route'] = rng.choice(ROUTES) if rng.random() < 0.5 else 'bytes'
    names = []
    ids = sorted(set(n[4] for n in d['notes']) | set(c[3] for c in d['ccs']))
    for i in ids:
        if rng.random() < 0.3:
            names.append([i, rng.choice(NAMES)])
    if rng.random() < 0.1:
        names.append([max(ids + [0]) + 3, 'nobody'])
    if rng.random() < 0.05 and ids:
        names.append([ids[0], ''])
        names = [r for r in names if r[0] != ids[0]] + [[ids[0], '']]
    rng.shuffle(names)
    d['names'] = names
    d['flags'] = [fl for fl in ('qinfo_empty', 'sub', 'meta') if rng.random() < 0.15]
    return d


def gen_desc(rng, big=False):
    tpq = rng.choice([0, 24, 96, 220, 220, 384, 480, 480, 960, rng.randint(24, 960)])
    res = tpq or 220
    sec = 1000000 * res
    dur = rng.choice([4, 10, 30]) * sec
    # tempos
    nt = rng.choice([0, 0, 1, 2, 3, 4])
    tempos = []
    times = set()
    for i in range(nt):
        if i == 0 and rng.random() < 0.6:
            t = 0
        else:
            t = rng.randint(1, dur)
            if rng.random() < 0.3:
                t = (t // 500000) * 500000                 # on the default-tempo tick grid
        if t in times:
            continue
        times.add(t)
        us = rng.choice([500000, 600000, 400000, 250000, 1000000, 1500000, rng.randint(250000, 1500000),
                         rng.randint(250000, 1500000), 819249])
        tempos.append([t, us])
    rng.shuffle(tempos)
    if rng.random() < 0.5:
        tempos.sort(key=lambda r: r[0])
    umax = max([500000] + [t[1] for t in tempos])
    # groups
    ng = rng.randint(1, 6 if big else 4)
    keys = []
    ids = rng.choice([[0, 1, 2], [0, 0, 1], [1, 2, 3], [0], [2, 5, 9], [0, 1]])
    while len(keys) < ng:
        k = (rng.choice(ids), rng.choice([0, 0, 1, 33, 127, rng.randint(0, 127)]), int(rng.random() < 0.25))
        if k not in keys:
            keys.append(k)
    notes = []
    for k in keys:
        if rng.random() < 0.12:
            continue                                        # a group with ccs/bends only
        for p in rng.sample(range(0, 128), rng.randint(1, 3)):
            t = rng.randint(0, dur // 2)
            for _ in range(rng.randint(1, 4 if big else 3)):
                length = rng.choice([2 * umax, 2 * umax + rng.randint(0, 5), rng.randint(2 * umax, 40 * umax)])
                notes.append([p, rng.randint(1, 127), t, t + length, k[0], k[1], k[2]])
                t = t + length + rng.choice([0, 0, 1, rng.randint(0, 3 * umax), rng.randint(0, dur // 4)])
    rng.shuffle(notes)
    ccs, bends = [], []
    for _ in range(rng.randint(0, 5)):
        k = rng.choice(keys)
        ccs.append([rng.randint(0, dur), rng.choice([64, 7, 1, 10, rng.randint(0, 127)]), rng.randint(0, 127),
                    k[0], k[1], k[2]])
    for _ in range(rng.randint(0, 4)):
        k = rng.choice(keys)
        bends.append([rng.randint(0, dur), rng.randint(-8192, 8191), k[0], k[1], k[2]])
    tsigs, ksigs = [], []
    seen = set()
    for _ in range(rng.choice([0, 0, 1, 2, 3])):
        t = rng.choice([0, 0, rng.randint(1, dur), rng.randint(1, umax // 3)])
        if t not in seen:
            seen.add(t)
            tsigs.append([t, rng.choice([2, 3, 4, 6, 7, 12]), rng.choice([2, 4, 8, 16])])
    seen = set()
    for _ in range(rng.choice([0, 0, 1, 2, 3])):
        t = rng.choice([0, rng.randint(1, dur)])
        if t not in seen:
            seen.add(t)
            ksigs.append([t, rng.randint(0, 11), rng.randint(0, 1)])
    rng.shuffle(tsigs)
    rng.shuffle(ksigs)
    return _desc(tpq, notes, tempos, tsigs, ksigs, ccs, bends)


def corpus():
    out = []
    sec = 220 * 1000000
    n = lambda p, s, e, ins=0, prog=0, dr=0, v=80: [p, v, s, e, ins, prog, dr]   # noqa
    ds = [
        _desc(),                                                                         # empty sequence
        _desc(notes=[n(60, sec // 2, sec)]),
        # F9: instrument 0 with three (program, is_drum) groups
        _desc(notes=[n(60, sec // 2, sec), n(62, sec // 2, sec, prog=5), n(36, sec // 2, sec, dr=1)]),
        # F8: tempos stored out of time order
        _desc(tempos=[(4 * sec, 1000000), (0, 500000), (2 * sec, 250000)], notes=[n(60, 5 * sec // 2, 3 * sec)]),
        _desc(tempos=[(2 * sec, 250000), (sec, 1000000)], notes=[n(60, 5 * sec // 2, 3 * sec)]),
        # F19: 819249 us comes back as 819248
        _desc(tempos=[(0, 819249)], notes=[n(60, sec, 2 * sec)]),
        # no tempo at 0, unset ticks_per_quarter, off-grid note, minor key, 6/8, cc + bend, cc on a note-less instrument
        _desc(tpq=0, tempos=[(sec + 12345, 600000)], notes=[n(60, 777777, 3 * sec + 1, ins=1), n(61, sec, 2 * sec, ins=2, prog=33)],
              tsigs=[(0, 6, 8)], ksigs=[(0, 9, 1), (sec, 3, 0)], ccs=[(sec, 64, 127, 1, 0, 0), (sec, 64, 127, 3, 0, 0)],
              bends=[(sec + 5, -100, 2, 33, 0)]),
        # a time signature a third of a tick after 0 (default 4/4 still written), two tempos snapping to one tick
        _desc(tempos=[(sec, 400000), (sec + 10, 700000)], tsigs=[(150000, 3, 4)], notes=[n(60, 0, sec), n(60, sec, 2 * sec)]),
        # three tempos at time 0, the first and the last equal by value (the writer skips BOTH as "the initial tempo")
        _desc(tempos=[(0, 600000), (0, 750000), (0, 600000)], notes=[n(64, sec, 3 * sec, ins=1)]),
        # two time signatures and two keys inside one tick, later one stored first (storage order wins on the tick)
        _desc(tsigs=[(200000, 4, 16), (100000, 2, 4)], ksigs=[(200000, 3, 1), (100000, 5, 0)], notes=[n(64, sec, 3 * sec)]),
        # five tempo changes each 10.45 ticks (of the tempo in force) after the previous one, tpq 24
        _desc(tpq=24, tempos=[(0, 500000), (5225000, 600000), (11495000, 500000), (16720000, 600000), (22990000, 500000),
                              (28215000, 600000)], notes=[n(60, 0, 6000000), n(61, 31200000, 37200000)]),
        # drop parameter: events after last note end + drop are cut (here: 1 s); before it kept; every route
        _desc(notes=[n(60, 0, sec)], tempos=[(0, 600000), (3 * sec, 400000)], tsigs=[(0, 3, 4), (2 * sec - 1, 5, 8), (2 * sec + 1, 7, 8)],
              ksigs=[(sec, 2, 1), (5 * sec, 3, 0)], ccs=[(2 * sec - 5, 64, 127, 0, 0, 0), (2 * sec + 5, 64, 0, 0, 0, 0)],
              bends=[(9 * sec, 5, 0, 0, 0)], drop=sec, route='file', names=[(0, 'Lead')]),
        _desc(notes=[n(60, 0, sec, ins=3), n(36, 0, sec, ins=3, dr=1)], tempos=[(2 * sec, 400000)], drop=0,
              route='alias_file', names=[(3, 'Caf\xe9 piano'), (9, 'nobody')], flags=['qinfo_empty', 'sub', 'meta']),
        _desc(notes=[n(0, 0, sec, v=1), n(127, 0, sec, v=127, prog=127)], tsigs=[(0, 255, 128)], drop=5 * sec,
              route='alias_bytes', bends=[(0, -8192, 0, 0, 0), (1, 8191, 0, 127, 0)], ccs=[(0, 0, 0, 0, 0, 0), (0, 127, 127, 0, 0, 0)]),
        _desc(notes=[n(60, sec, 2 * sec, ins=1)], route='pmobj', names=[(1, 'x')]),
        # 18 groups (more tracks than MIDI channels), a negative instrument number
        _desc(notes=[n(40 + j, sec, 2 * sec, ins=j, prog=j) for j in range(18)]),
        _desc(notes=[n(60, sec, 2 * sec, ins=-1, prog=4), n(61, sec, 2 * sec, ins=0, prog=5)]),
        # long pieces at fine resolution: the last event lies beyond tick 10,000,000 (pretty_midi's built-in MAX_TICK,
        # which midi_io raises to 1e10 at import); sparse, so they cost one big tick table each
        _desc(tpq=960, tempos=[(0, 200000)], notes=[n(60, 200000 * 1000 + 77, 200000 * 5000), n(72, 200000 * 10500000 + 3, 200000 * 10500960, ins=1, prog=33)],
              ccs=[(200000 * 10400000, 64, 127, 1, 33, 0)], ksigs=[(200000 * 9999999, 4, 1)]),
        _desc(tpq=480, tempos=[(0, 250000), (250000 * 6000000 + 5, 400000)], notes=[n(36, 250000 * 10000001, 250000 * 10000001 + 400000 * 3, dr=1)],
              route='file'),
        # a meter change n/d -> n/n (same numerator, new denominator equal to the numerator) is a real change
        _desc(tsigs=[(0, 2, 4), (2 * sec, 2, 2)], notes=[n(60, sec, 3 * sec)]),
        _desc(tsigs=[(0, 4, 8), (sec + 5, 4, 4), (3 * sec, 4, 8)], notes=[n(60, sec, 4 * sec)]),
        _desc(tsigs=[(0, 8, 4), (2 * sec + 1, 8, 8)], notes=[n(60, sec, 3 * sec, ins=1)], route='file'),
        _desc(tsigs=[(0, 3, 4), (sec, 3, 8), (2 * sec, 4, 4), (3 * sec, 4, 16), (4 * sec, 16, 16)], notes=[n(60, sec, 5 * sec)]),
        # same tempo twice in a row (the loader merges them)
        _desc(tempos=[(0, 600000), (sec, 600000), (2 * sec, 500000)], notes=[n(64, sec, 3 * sec, ins=1, dr=1)]),
    ]
    for d in ds:
        out.append({'op': 'write', 'input': d})
        out.append({'op': 'rt', 'input': d})
    out += readpm_cases(ds[6])
    out += readpm_cases([d for d in ds if d['drop'] == sec][0])
    return out


def readpm_cases(d):
    """reader glue on the PrettyMIDI object + rejection paths (offending element last, after valid ones)"""
    d = dict(d, route='bytes')
    out = [{'op': 'readpm', 'input': d}]
    nk = len(eff_desc(d)['ksigs'])
    if nk:
        for key in (24, 35, -1, 23, 12):
            out.append({'op': 'readpm', 'input': dict(d, bad=['key', nk - 1, key])})
    nt = len(eff_desc(d)['tsigs'])
    if nt:
        for den in (2 ** 31, 2 ** 31 - 1):
            out.append({'op': 'readpm', 'input': dict(d, bad=['den', nt - 1, den])})
    return out


def exhaustive(tier):
    """small scopes enumerated completely: every storage order of a tempo list, every assignment of
    (instrument, program, is_drum) from a small set to 2 (quick) / 3 (thorough) notes"""
    import itertools
    sec = 220 * 1000000
    ds = []
    tsets = [[(0, 400000), (sec + 7, 819249), (2 * sec, 250000), (3 * sec + 110000, 1000000)]]
    if tier == 'thorough':
        tsets += [[(sec, 600000), (sec + 100, 500000), (2 * sec, 600000), (5 * sec, 333333)],
                  [(0, 500000), (1, 1500000), (sec, 1500000)]]
    for ts in tsets:
        for perm in itertools.permutations(ts):
            ds.append(_desc(tempos=perm, notes=[[60, 80, sec // 2 + 3, 4 * sec, 0, 0, 0], [60, 90, 4 * sec, 5 * sec + 9, 0, 0, 0]],
                            ccs=[[3 * sec + 1, 64, 127, 0, 0, 0]]))
    keys = [(i, p, dr) for i in (0, 1) for p in (0, 5) for dr in (0, 1)]
    k = 3 if tier == 'thorough' else 2
    for combo in itertools.product(keys, repeat=k):
        notes = [[60 + j, 70 + j, sec * (j + 1) + j, sec * (j + 2), kk[0], kk[1], kk[2]] for j, kk in enumerate(combo)]
        ds.append(_desc(notes=notes, bends=[[sec, 100, combo[0][0], combo[0][1], combo[0][2]]]))
    return ds


def gen_tempo_chain(rng):
    """3-8 tempo changes at off-grid times whose sub-tick remainders (against the tempo in force) all have the same
    sign, at a coarse resolution: a writer that lets rounding remainders accumulate from one change to the next puts
    the later changes more than one tick away"""
    tpq = rng.choice([24, 48, 96])
    sign = rng.choice([1, -1])
    vals = rng.sample([500000, 600000, 400000, 750000, 1000000, 428571, 545454, rng.randint(300000, 1200000)], 3)
    tempos = []
    us = 500000
    t = 0
    if rng.random() < 0.7:
        us = vals[0]
        tempos.append([0, us])
    for i in range(rng.randint(3, 8)):
        frac = rng.randint(30, 48) * us // 100
        t += rng.randint(4, 30) * us + sign * frac
        nus = rng.choice([v for v in vals if v != us])
        tempos.append([t, nus])
        us = nus
    umax = max([500000] + [r[1] for r in tempos])
    notes = []
    s0 = rng.randint(0, umax)
    for j in range(rng.randint(1, 3)):
        ln = rng.randint(2 * umax, 12 * umax)
        notes.append([60 + j, 80, s0, s0 + ln, 0, 0, 0])
        s0 += ln + rng.randint(0, t // 3 + 1)
    if rng.random() < 0.5:
        rng.shuffle(tempos)
    return _desc(tpq, notes, tempos)


def cases(rng, tier, n=None):
    k = 450 if tier == 'quick' else 40000
    if n is not None:
        k = max(0, n // 2)
    ds = exhaustive(tier) if n is None else []
    for i in range(k):
        ds.append(gen_desc(rng, big=(i % 5 == 0)))
    crng = __import__('random').Random(rng.randint(0, 2 ** 30))
    for i in range(k // 6):
        ds.append(gen_tempo_chain(crng))
    prng = __import__('random').Random(rng.randint(0, 2 ** 30))
    ds = [decorate(prng, d) if i % 4 else d for i, d in enumerate(ds)]
    out = []
    for i, d in enumerate(ds):
        out.append({'op': 'write', 'input': d})
        out.append({'op': 'rt', 'input': d})
        if i % 5 == 2:
            rp = readpm_cases(d)
            out += rp if i % 15 == 2 else rp[:1]
    return out


def shrink(case):
    d = case['input']
    for f in ('notes', 'tempos', 'tsigs', 'ksigs', 'ccs', 'bends'):
        xs = d[f]
        for i in range(len(xs)):
            c = dict(d)
            c[f] = xs[:i] + xs[i + 1:]
            if c.get('bad'):
                continue
            yield {'op': case['op'], 'input': c}
    if not d.get('bad'):
        if d.get('route', 'bytes') != 'bytes':
            yield {'op': case['op'], 'input': dict(d, route='bytes')}
        if d.get('names'):
            yield {'op': case['op'], 'input': dict(d, names=[])}
        if d.get('flags'):
            yield {'op': case['op'], 'input': dict(d, flags=[])}
        if d.get('drop') is not None:
            yield {'op': case['op'], 'input': dict(d, drop=None)}


META = {
    'level_text': ('Theorems for ALL inputs about the Gallina model of the note_seq MIDI glue composed with an idealised '
                   'pretty_midi channel: the tempo map built by the writer loop is well-formed and strictly monotone; '
                   'time -> tick -> time moves a time by at most half a tick and is idempotent; the round trip returns, per '
                   '(instrument, program, is_drum) group that has notes, exactly that group\'s notes / control changes / '
                   'pitch bends under one fresh instrument number (injective renumbering, nothing dropped, duplicated or '
                   'moved to another program), every time within half a tick; tempo list equal in effect. The model is tied '
                   'to the real note_sequence_to_pretty_midi -> PrettyMIDI.write -> midi_to_note_sequence by a differential '
                   'run (writer glue alone, and end to end) and the property statement itself is evaluated on the real '
                   'round trip by an oracle.'),
    'level_note': ('PARTIAL: the pretty_midi + mido channel (pm_roundtrip in Model/TempoMap.v) is an ASSUMPTION validated only '
                   'differentially on generated cases; byte encoding is not modelled. Trusted: Coq kernel, the hand-written '
                   'models (tied by correspondence), exact-integer time units (binary64 half-tick ties skipped and counted), '
                   'the harness-evaluated table of tempo integers pretty_midi writes (F19: third-party truncation, '
                   'theorems assume the identity; the oracle reports it with a stable kind).'),
}
