"""C20 — audio sample helpers are lossless on 16-bit PCM and exact about lengths.

Anchors (note_seq/audio_io.py): int16_samples_to_float32, float_samples_to_int16,
samples_to_wav_data / wav_data_to_samples, crop_samples, repeat_samples_to_duration,
make_stereo.  Model: coq/Model/Audio.v (binary32 via SpecFloat, binary64 via PrimFloat),
evaluated with vm_compute (USE_VM).
"""
import math

from vt import fl

ID = 'C20'
USE_VM = True
RATES = [8000, 16000, 22050, 44100, 48000]
MAXLEN = 100000

RULE = ('all 65536 int16 values through int16_samples_to_float32 / float_samples_to_int16 (16 blocks, every run); '
        'float32/float64 samples at and one ulp around every k/32767 boundary; ramps of 0..10^5 samples and random '
        'explicit sample lists at the five rates with crop offsets/lengths and repeat durations placed on, one/two '
        'ulps around and half-way between sample boundaries and multiples of the signal length, shorter and longer '
        'than the signal, zero, tiny, negative and huge; stereo pairs of every length relation and dtype relation; '
        'mono int16 signals through the scipy WAV container, and the "decode twice" discipline (decode, modify the result in place, '
        'decode / crop / jitter / normalize the same bytes again: nothing may change); every helper call under a call-twice / overwrite-the-result / arguments-untouched discipline; the same samples in six containers, non-standard and float sample rates, int-typed times; rejection classes; two-step sessions feeding outputs into other helpers; '
        'a spy run of the real repeat arithmetic for durations '
        'far too long to allocate. non-trivial = the implementation returned a value (not an exception) that is not '
        'the whole input unchanged; distinct by canonical input')
ASSUMPTIONS = ['numpy float32 division/multiplication are IEEE-754 correctly rounded (tied exhaustively for the division on all '
               '65536 int16 values, by sampling for the multiplication)',
               'astype(np.int16) of an in-range float is C truncation; out-of-range products are not modelled (UB)',
               'sample rates are positive Python ints, times are finite Python floats',
               'the scipy WAV container is exercised end to end, not modelled']
TRUSTED = ['Coq.Floats.SpecFloat (SFdiv/SFmul/binary_normalize at prec=24, emax=128) as the definition of IEEE binary32',
           'scipy.io.wavfile (read/write of 16-bit PCM), exercised not modelled']
EXHAUSTIVE = {'quick': False, 'thorough': False}

ERR = {1: 'OverflowError', 2: 'ZeroDivisionError', 3: 'ValueError', 4: 'AudioIODataTypeError'}
DTYPES = {1: 'int16', 2: 'float32', 3: 'float64', 4: 'int64', 5: 'int32', 6: 'uint8'}


def _stereo_arr(np, vals, d):
    """channel values in dtype d: fractional (v/8) for float dtypes, |v| for unsigned"""
    if d in (2, 3):
        return np.array(vals, dtype=DTYPES[d]) / np.dtype(DTYPES[d]).type(8)
    if d == 6:
        return np.array([abs(v) for v in vals], dtype=DTYPES[d])
    return np.array(vals, dtype=DTYPES[d])


def _stereo_val(v, d):
    return abs(v) if d == 6 else v


def _np():
    import numpy as np
    return np


def _aio():
    from note_seq import audio_io
    return audio_io


def _exc(e):
    return ['EXC', type(e).__name__]


def runs(xs):
    """[5,6,7,1,2] -> [[5,3],[1,2]] (same compression as Run/C20.v oRuns)."""
    np = _np()
    a = np.asarray(xs, dtype=np.int64)
    if a.size == 0:
        return []
    brk = np.nonzero(np.diff(a) != 1)[0] + 1
    starts = np.concatenate(([0], brk))
    ends = np.concatenate((brk, [a.size]))
    return [[int(a[s]), int(e - s)] for s, e in zip(starts, ends)]


def _me32(x):
    """float32 value -> canonical (odd mantissa, exponent)."""
    return fl.me(float(x))


HMASK = 4611686018427387903   # 2^62 - 1


def _hash_floats(ys):
    """order-sensitive checksum of canonical (m, e) pairs; same as Run/C20.v hSF"""
    h = 0
    for v in ys:
        m, e = fl.me(float(v))
        h = (h * 1000003 + m) & HMASK
        h = (h * 1000003 + e) & HMASK
    return h


def _canon_me(p):
    m, e = p
    if e == 99999:
        return ['NONFINITE', m]
    if m == 0:
        return [0, 0]
    while m % 2 == 0:
        m //= 2
        e += 1
    return [m, e]


def _F(p):
    return fl.unme(p)


# ------------------------------------------------------------------ case generation
def _ulps(x, k):
    return fl.nextafter_n(x, k)


def _time_near(rng, rate, k):
    """a time whose product with rate is at/near sample index k (k may be fractional)."""
    t = k / rate
    return _ulps(t, rng.choice([0, 0, 0, 1, -1, 2, -2, 3, -3]))


def _rand_time(rng, rate, length):
    hi = max(length, 4) * 1.3
    r = rng.random()
    if r < 0.45:
        return _time_near(rng, rate, rng.randint(0, int(hi)))
    if r < 0.6:
        return _time_near(rng, rate, rng.randint(0, int(hi)) + 0.5)
    if r < 0.8:
        return rng.uniform(0, hi / rate)
    if r < 0.9:
        return float(rng.randint(0, 1 + int(hi / rate)))
    return rng.choice([0.0, 0.1, 0.25, 1.0 / 3, 0.5, 1.0, 2.5, 1e-9, 5e-324])


def _len(rng, big):
    r = rng.random()
    if r < 0.15:
        return rng.choice([0, 1, 2, 3, 7])
    if r < 0.6:
        return rng.randint(1, 300)
    if r < 0.85 or not big:
        return rng.randint(300, 5000)
    return rng.choice([MAXLEN, MAXLEN - 1, rng.randint(5000, MAXLEN)])


def _boundary_f32(rng, n):
    """float32 samples at / around k/32767 (where truncation vs rounding shows) and random."""
    np = _np()
    out = []
    for _ in range(n):
        r = rng.random()
        if r < 0.5:
            k = rng.randint(-32767, 32767)
            y = np.float32(k) / np.float32(32767)
            for _ in range(rng.choice([0, 0, 1, 2])):
                y = np.nextafter(y, np.float32(rng.choice([-2, 2])), dtype=np.float32)
        elif r < 0.8:
            y = np.float32(rng.uniform(-1, 1))
        elif r < 0.9:
            y = np.float32(rng.uniform(-1e-4, 1e-4))
        else:
            y = np.float32(rng.choice([0.0, 1.0, -1.0, 0.5, -0.5, 1 - 2 ** -24, -(1 - 2 ** -24), 2 ** -126, 2 ** -149,
                                       32766.5 / 32767, -32766.5 / 32767, 0.99996948, 1.0000305]))
        if abs(float(y)) * 32767 < 32767.9:
            out.append(_me32(y))
    return out


def _boundary_f64(rng, n):
    out = []
    for _ in range(n):
        r = rng.random()
        if r < 0.5:
            k = rng.randint(-32767, 32767)
            y = _ulps(k / 32767, rng.choice([0, 0, 1, -1, 2, -2]))
        elif r < 0.8:
            y = rng.uniform(-1, 1)
        else:
            y = rng.choice([0.0, 1.0, -1.0, 0.5, 1 - 2 ** -53, 5e-324, 32766.5 / 32767, 1e-300, -1e-5])
        if abs(y) * 32767 < 32767.9:
            out.append(fl.me(y))
    return out


def corpus():
    out = []
    # every int16 value, every run
    for lo in range(-32768, 32768, 4096):
        out.append({'op': 'pcm', 'input': [lo, 4096]})
    # crop: boundary cases
    T = fl.me
    for rate in RATES:
        out.append({'op': 'crop_ramp', 'input': [0, 1000, rate, T(0.0), T(1000 / rate)]})
        out.append({'op': 'crop_ramp', 'input': [0, 1000, rate, T(10 / rate), T(5000 / rate)]})     # longer than signal
        out.append({'op': 'crop_ramp', 'input': [0, 1000, rate, T(2000 / rate), T(1.0)]})           # starts past the end
        out.append({'op': 'crop_ramp', 'input': [0, 1000, rate, T(0.5), T(0.0)]})                   # zero length
        out.append({'op': 'crop_ramp', 'input': [0, 1000, rate, T(0.001), T(1e300)]})
        out.append({'op': 'crop_ramp', 'input': [0, 1000, rate, T(0.001), T(1.5e305)]})             # int(inf)
        out.append({'op': 'crop_ramp', 'input': [0, 1000, rate, T(-0.01), T(0.05)]})                # negative begin wraps (Python)
        out.append({'op': 'crop_ramp', 'input': [0, 1000, rate, T(0.05), T(-0.01)]})
        out.append({'op': 'crop_ramp', 'input': [0, MAXLEN, rate, T(1.0), T(0.5)]})
        # repeat
        out.append({'op': 'rep_ramp', 'input': [0, 1000, rate, T(0.0)]})                            # C20-fix-1
        out.append({'op': 'rep_ramp', 'input': [0, 1000, rate, T(5e-324)]})
        out.append({'op': 'rep_ramp', 'input': [0, 1000, rate, T(1000 / rate)]})
        out.append({'op': 'rep_ramp', 'input': [0, 1000, rate, T(3000 / rate)]})
        out.append({'op': 'rep_ramp', 'input': [0, 1000, rate, T(3000.5 / rate)]})
        out.append({'op': 'rep_ramp', 'input': [0, 1000, rate, T(999 / rate)]})
        out.append({'op': 'rep_ramp', 'input': [0, 0, rate, T(1.0)]})                               # empty input
        out.append({'op': 'rep_ramp', 'input': [0, 1000, rate, T(-0.5)]})                           # negative duration
        out.append({'op': 'rep_ramp', 'input': [0, 1000, rate, T(-1e-9)]})
        out.append({'op': 'rep_ramp', 'input': [0, MAXLEN, rate, T(2.5 * MAXLEN / rate)]})
        out.append({'op': 'rep_ramp', 'input': [0, 3, rate, T(100 / rate)]})
    out.append({'op': 'rep_ramp', 'input': [0, MAXLEN, 8000, T(5e-324)]})                           # quotient underflows to 0
    out.append({'op': 'rep_list', 'input': [[5, -3, 9], 8000, T(0.001)]})
    out.append({'op': 'crop_list', 'input': [[5, -3, 9, 4, 4, 0], 8000, T(1 / 8000), T(3 / 8000)]})
    # stereo
    out.append({'op': 'stereo', 'input': [1, 1, [1, 2, 3], [7]]})
    out.append({'op': 'stereo', 'input': [1, 1, [7], [1, 2, 3]]})
    out.append({'op': 'stereo', 'input': [1, 1, [], []]})
    out.append({'op': 'stereo', 'input': [1, 1, [], [4, 5]]})
    out.append({'op': 'stereo', 'input': [1, 2, [1], [2]]})
    out.append({'op': 'stereo', 'input': [2, 2, [1, -2], [2, 3]]})
    # wav
    out.append({'op': 'wav', 'input': [[-32768, -32767, -1, 0, 1, 32766, 32767], 16000]})
    out.append({'op': 'wav', 'input': [[], 8000]})
    # decode twice: a later decode of the same bytes must not see what the caller did to an earlier result
    k = 0
    for rate in RATES:
        for helper in range(len(WAV_HELPERS)):
            out.append({'op': 'wav_twice', 'input': [[-32768, -1, 0, 32767, 12345, -4242, 7, 5], rate, k % 3, helper]})
            k += 1
    out.append({'op': 'wav_twice', 'input': [[], 16000, 0, 0]})
    # durations just below / exactly at / just above k whole copies (seed C20-3: the copy count must not be short by one)
    for rate in RATES:
        for ln, big in ((2500, False), (rate, True), (min(2 * rate, MAXLEN), True)):
            for k in (0, 1, 2, 3):
                for e in (-2, -1, 0, 1, 2, 7):
                    want = k * ln + e
                    if want < 0:
                        continue
                    for d in ((want + 0.5) / rate, want / rate):
                        if big or k * ln > 10000:
                            out.append({'op': 'rep_len', 'input': [ln, rate, T(d)]})       # recorder: nothing allocated
                        else:
                            out.append({'op': 'rep_ramp', 'input': [0, ln, rate, T(d)]})
    out += _audit_corpus()
    return out


def cases(rng, tier, n=None):
    thorough = tier == 'thorough'
    mul = 12 if thorough else 1
    out = []
    T = fl.me
    for _ in range(4 * mul):
        out.append({'op': 'f32_i16', 'input': [_boundary_f32(rng, 400)]})
        out.append({'op': 'f64_i16', 'input': [_boundary_f64(rng, 400)]})
    for _ in range(500 * mul):
        rate = _rate(rng)
        ln = _len(rng, True)
        b = _rand_time(rng, rate, ln)
        t = _rand_time(rng, rate, ln)
        r = rng.random()
        if r < 0.03:
            b = -b
        elif r < 0.06:
            t = -t
        elif r < 0.08:
            t = rng.choice([1e300, 1e17, 3e303])
        out.append({'op': 'crop_ramp', 'input': [rng.choice([0, 0, 1, -5000]), ln, rate, T(b), T(t)]})
    for _ in range(150 * mul):
        rate = _rate(rng)
        ln = rng.randint(0, 12)
        xs = [rng.randint(-32768, 32767) for _ in range(ln)]
        out.append({'op': 'crop_list', 'input': [xs, rate, T(_rand_time(rng, rate, ln)), T(_rand_time(rng, rate, ln))]})
    cap = 2000000 if thorough else 400000
    for _ in range(350 * mul):
        rate = _rate(rng)
        ln = _len(rng, True)
        r = rng.random()
        if ln == 0:
            d = _rand_time(rng, rate, 10)
        elif r < 0.2:       # whole multiples of the signal, +- ulps
            k = rng.randint(1, max(1, min(6, cap // ln)))
            d = _ulps(k * ln / rate, rng.choice([0, 0, 1, -1, 2, -2]))
        elif r < 0.35:      # within +-2 samples of a whole multiple (0 copies included)
            k = rng.randint(0, max(1, min(6, cap // ln)))
            want = max(0, k * ln + rng.choice([-2, -1, 1, 2]))
            d = rng.choice([(want + 0.5) / rate, _ulps(want / rate, rng.choice([0, 1, -1]))])
        elif r < 0.5:       # multiples computed the way callers do: k * (len / rate)
            k = rng.randint(1, max(1, min(6, cap // ln)))
            d = k * (ln / rate)
        elif r < 0.9:
            d = _rand_time(rng, rate, min(ln * rng.choice([1, 1, 2, 4]), cap))
        elif r < 0.95:
            d = rng.choice([0.0, 5e-324, 1e-300, 1e-12])
        else:
            d = -_rand_time(rng, rate, ln)
        lim = min(cap, 40 * ln)            # at most 40 copies: the (compressed) output stays small
        if ln and d * rate > lim:
            d = _ulps(lim / rate, rng.choice([0, 1, -1]))
        out.append({'op': 'rep_ramp', 'input': [rng.choice([0, 0, 1, -5000]), ln, rate, T(d)]})
    for _ in range(150 * mul):
        rate = _rate(rng)
        ln = rng.randint(0, 9)
        xs = [rng.randint(-32768, 32767) for _ in range(ln)]
        d = _rand_time(rng, rate, 4 * max(ln, 1))
        if d * rate > 64:
            d = _ulps(64 / rate, rng.choice([0, 1, -1]))
        out.append({'op': 'rep_list', 'input': [xs, rate, T(d)]})
    for _ in range(200 * mul):
        la, lb = rng.randint(0, 10), rng.randint(0, 10)
        if rng.random() < 0.2:
            lb = la
        dl = rng.choice([1, 1, 2, 3, 4, 5, 6])
        dr = dl if rng.random() < 0.85 else rng.choice([1, 2, 3, 4, 5, 6])
        out.append({'op': 'stereo', 'input': [dl, dr, [rng.randint(-99, 99) for _ in range(la)],
                                              [rng.randint(-99, 99) for _ in range(lb)]]})
    for _ in range(8 * mul):
        k = rng.choice([1, 10, 100, 300])
        out.append({'op': 'wav', 'input': [[rng.randint(-32768, 32767) for _ in range(k)], _rate(rng)]})
    for _ in range(12 * mul):
        k = rng.choice([1, 2, 10, 100, 2000])
        out.append({'op': 'wav_twice', 'input': [[rng.randint(-32768, 32767) for _ in range(k)], rng.choice(RATES),
                                                 rng.randrange(3), rng.randrange(len(WAV_HELPERS))]})
    for _ in range(300 * mul):     # real repeat arithmetic at sizes that cannot be allocated (spy)
        rate = _rate(rng)
        ln = rng.randint(1, MAXLEN)
        kmax = 10 ** rng.randint(1, 6)
        k = rng.randint(1, kmax)
        r = rng.random()
        if r < 0.3:
            d = _ulps(k * ln / rate, rng.choice([0, 0, 1, -1, 2, -2]))
        elif r < 0.5:       # within +-2 samples of a whole multiple
            d = (max(0, rng.choice([0, k, k]) * ln + rng.choice([-2, -1, 1, 2])) + 0.5) / rate
        elif r < 0.7:
            d = k * (ln / rate)
        else:
            d = rng.uniform(0, k * ln / rate)
        out.append({'op': 'rep_len', 'input': [ln, rate, T(d)]})
    if thorough:
        # exhaustive small scope: every length <= 6, every offset/length/duration on the half-sample grid
        for rate in RATES:
            for ln in range(0, 7):
                xs = list(range(10, 10 + ln))
                for a2 in range(0, 2 * ln + 5):
                    for n2 in range(0, 2 * ln + 5):
                        out.append({'op': 'crop_list', 'input': [xs, rate, T(a2 / (2 * rate)), T(n2 / (2 * rate))]})
                for d2 in range(0, 6 * ln + 5):
                    out.append({'op': 'rep_list', 'input': [xs, rate, T(d2 / (2 * rate))]})
    out += _audit_cases(rng, mul)
    if n is not None:
        out = out[:n]
    return out


# ------------------------------------------------------------------ implementation
def _ramp(lo, ln):
    np = _np()
    return np.arange(lo, lo + ln, dtype=np.int64)


def _call(f):
    try:
        return ['OK', f()]
    except BaseException as e:   # AudioIOError derives from BaseException
        if isinstance(e, (KeyboardInterrupt, SystemExit, MemoryError)):
            raise
        return _exc(e)


class _FakeSamples(object):
    def __init__(self, n):
        self.n = n

    def __len__(self):
        return self.n

    def __getitem__(self, sl):
        return ('slice', 0, 0)


class _FakeArr(object):
    def __getitem__(self, sl):
        return ('slice', sl.start, sl.stop)


class _NPStub(object):
    def __init__(self):
        self.k = 0

    def concatenate(self, lst):
        if len(lst) == 0:
            raise ValueError('need at least one array to concatenate')
        self.k = len(lst)
        return _FakeArr()


def _spy_repeat(ln, rate, d):
    """Run the REAL repeat_samples_to_duration with np.concatenate replaced by a recorder
    (no allocation): returns [number of copies concatenated, slice stop]."""
    aio = _aio()
    stub = _NPStub()
    saved = aio.np
    aio.np = stub
    try:
        r = aio.repeat_samples_to_duration(_FakeSamples(ln), rate, d)
    except (AttributeError, TypeError):
        return 'SPY-NA'          # the code was refactored to use numpy in a way the recorder cannot follow
    finally:
        aio.np = saved
    if not (isinstance(r, tuple) and r[0] == 'slice' and r[1] == 0):
        return 'SPY-NA'
    return min(stub.k * ln, r[2])    # the observable: length of the result (not how many copies were made)


WAV_HELPERS = ['decode', 'crop', 'jitter', 'normalize']
WAV_MUTATIONS = ['scale', 'zero', 'reverse']


def _wav_helper(aio, helper, wav, rate, n):
    """bytes -> canonical observable of one wav helper that decodes internally"""
    np = _np()
    if helper == 'decode':
        return aio.wav_data_to_samples(wav, rate).copy()
    if helper == 'crop':
        return aio.crop_wav_data(wav, rate, 1.0 / rate, (n + 3.0) / rate)
    if helper == 'jitter':
        return aio.jitter_wav_data(wav, rate, 2.0 / rate)
    if helper == 'normalize':
        return aio.normalize_wav_data(wav, rate)
    raise ValueError(helper)


def _same(u, v):
    np = _np()
    if isinstance(u, bytes) or isinstance(v, bytes):
        return u == v
    return u.dtype == v.dtype and u.shape == v.shape and np.array_equal(u.view(np.uint32), v.view(np.uint32))


def _decode_twice(xs, rate, mutation, helper):
    """The "decode twice" discipline: every decode of the same WAV bytes returns the stored signal, whatever
    the caller did to an array returned by an earlier decode.  Returns None or a failure dict."""
    np = _np()
    aio = _aio()
    x = np.array(xs, dtype=np.int16)
    y = aio.int16_samples_to_float32(x)
    wav = aio.samples_to_wav_data(y.copy(), rate)
    info = {'n': len(xs), 'rate': rate, 'mutation': mutation, 'helper': helper}
    ref = _wav_helper(aio, helper, wav, rate, len(xs))          # before anything was modified
    a1 = aio.wav_data_to_samples(wav, rate)
    if not _same(a1, y):
        again = aio.wav_data_to_samples(wav, rate)
        if a1.size and np.shares_memory(a1, again):
            return dict(info, kind='decoded-samples-shared-between-calls',
                        how='the decode returns a buffer kept from an earlier decode of the same bytes in this process, '
                            'which its caller had modified')
        return dict(info, kind='wav-roundtrip-not-identity')
    try:                                                          # the caller works on its samples in place
        if mutation == 'scale':
            a1 *= np.float32(0.5)
            a1 += np.float32(0.25)
        elif mutation == 'zero':
            a1[...] = np.float32(0.125)
        else:
            a1[...] = a1[::-1].copy() + np.float32(0.5)
    except ValueError:
        pass                                                      # read-only result: nothing can be shared
    a2 = aio.wav_data_to_samples(wav, rate)
    if np.shares_memory(a1, a2) and a1.size:
        return dict(info, kind='decoded-samples-shared-between-calls', how='second decode returns the same buffer')
    if not _same(a2, y):
        bad = int(np.nonzero(a2.view(np.uint32) != y.view(np.uint32))[0][0]) if a2.shape == y.shape else -1
        return dict(info, kind='decoded-samples-shared-between-calls', how='second decode differs from the stored signal',
                    index=bad)
    out = _wav_helper(aio, helper, wav, rate, len(xs))
    if not _same(out, ref):
        return dict(info, kind='decoded-samples-shared-between-calls',
                    how='%s of the same bytes changed after the caller modified its decoded samples' % helper)
    if helper == 'decode' and not _same(out, y):
        return dict(info, kind='wav-roundtrip-not-identity')
    return None


def impl(case):
    np = _np()
    aio = _aio()
    op, a = case['op'], case['input']
    if op in AUDIT_OPS:
        r = _call(lambda: _audit_verdict(case))
        return r if r[0] != 'OK' else ['OK', 'holds' if r[1] is None else r[1]['kind']]
    if op == 'wav_twice':
        xs, rate, mutation, helper = a
        r = _call(lambda: _decode_twice(xs, rate, WAV_MUTATIONS[mutation], WAV_HELPERS[helper]))
        return r if r[0] != 'OK' else ['OK', 'stable' if r[1] is None else r[1]['kind']]
    if op == 'pcm':
        lo, n = a
        x = np.arange(lo, lo + n).astype(np.int16)
        y = aio.int16_samples_to_float32(x)
        assert y.dtype == np.float32, y.dtype
        z = aio.float_samples_to_int16(y)
        assert z.dtype == np.int16, z.dtype
        return [_hash_floats(y), runs(z)]
    if op == 'f32_i16':
        y = np.array([_F(p) for p in a[0]], dtype=np.float64).astype(np.float32)
        assert all(float(v) == _F(p) for v, p in zip(y, a[0]))
        return [int(v) for v in aio.float_samples_to_int16(y)]
    if op == 'f64_i16':
        y = np.array([_F(p) for p in a[0]], dtype=np.float64)
        return [int(v) for v in aio.float_samples_to_int16(y)]
    if op == 'crop_ramp':
        lo, ln, rate, b, t = a
        return _call(lambda: runs(aio.crop_samples(_ramp(lo, ln), rate, _F(b), _F(t))))
    if op == 'crop_list':
        xs, rate, b, t = a
        return _call(lambda: [int(v) for v in aio.crop_samples(np.array(xs, dtype=np.int64), rate, _F(b), _F(t))])
    if op == 'rep_ramp':
        lo, ln, rate, d = a
        return _call(lambda: runs(aio.repeat_samples_to_duration(_ramp(lo, ln), rate, _F(d))))
    if op == 'rep_list':
        xs, rate, d = a
        return _call(lambda: [int(v) for v in aio.repeat_samples_to_duration(np.array(xs, dtype=np.int64), rate, _F(d))])
    if op == 'rep_len':
        ln, rate, d = a
        r = _call(lambda: _spy_repeat(ln, rate, _F(d)))
        return ['SPY-NA'] if r == ['OK', 'SPY-NA'] else r
    if op == 'stereo':
        dl, dr, l, r = a
        def f():
            o = aio.make_stereo(_stereo_arr(np, l, dl), _stereo_arr(np, r, dr))
            assert o.ndim == 2 and o.shape[1] == 2, o.shape
            k = 8 if dl in (2, 3) else 1
            assert all(float(u * k) == int(u * k) and float(v * k) == int(v * k) for u, v in o)
            return [[int(u * k), int(v * k)] for u, v in o]
        return _call(f)
    if op == 'wav':
        xs, rate = a
        def f():
            import io
            import scipy.io.wavfile
            x = np.array(xs, dtype=np.int16)
            y = aio.int16_samples_to_float32(x)
            wav = aio.samples_to_wav_data(y, rate)
            sr, pcm = scipy.io.wavfile.read(io.BytesIO(wav))
            assert sr == rate and pcm.dtype == np.int16
            y2 = aio.wav_data_to_samples(wav, rate)
            assert y2.dtype == np.float32, y2.dtype
            return [[int(v) for v in pcm], [_me32(v) for v in y2]]
        return _call(f)
    raise ValueError(op)


# ------------------------------------------------------------------ model
def model_input(case):
    op, a = case['op'], case['input']
    if op == 'pcm':
        return [1] + a
    if op == 'f32_i16':
        return [2, a[0]]
    if op == 'f64_i16':
        return [3, a[0]]
    if op == 'crop_ramp':
        return [4] + a
    if op == 'crop_list':
        return [5] + a
    if op == 'rep_ramp':
        return [6] + a
    if op == 'rep_list':
        return [7] + a
    if op == 'stereo':
        return [8, a[0], a[1], [_stereo_val(v, a[0]) for v in a[2]], [_stereo_val(v, a[1]) for v in a[3]]]
    if op == 'wav':
        return [9, a[0]]
    if op == 'rep_len':
        return [10] + a
    return None          # wav_twice: exercised on the implementation only (the scipy container is not modelled)


def _res(m, f=lambda x: x):
    if m[0] == -1000:
        return ['EXC', ERR.get(m[1], 'MODEL-ERR-%d' % m[1])]
    return ['OK', f(m[1])]


def _optz(o):
    return o[0] if o else 'UB'


def model_output(case, m):
    op = case['op']
    if op == 'pcm':
        return m
    if op in ('f32_i16', 'f64_i16'):
        return [_optz(o) for o in m]
    if op == 'wav':
        return _res(m, lambda v: [v[0], [_canon_me(p) for p in v[1]]])
    if op == 'rep_len':
        return _res(m, lambda v: min(v[0] * case['input'][0], v[1]))
    return _res(m)


def equal(case, a, b):
    if case['op'] == 'rep_len' and a == ['SPY-NA']:
        return True              # recorder not applicable to the current code shape: no comparison (counted as trivial)
    return a == b


# ------------------------------------------------------------------ audit additions (A)-(D)
RATES_X = [1, 7, 1000, 11025, 12345, 32000, 88200, 96000, 192000]      # non-standard but legal sample rates
FRATES = [22050.0, 44100.5, 0.5, 8000.25]                               # float-valued rates (legal: only multiplied / divided)
CONTAINERS = ['int64', 'float32', 'list', 'two-column int16', 'strided view', 'int16']
BAD_FOR_TO_F32 = ['int32', 'uint16', 'int8', 'int64', 'float32', 'float64', 'bool']
BAD_FOR_TO_I16 = ['int16', 'int32', 'int64', 'uint8', 'bool', 'complex64']
BAD_WAV = ['empty', 'riff-only', 'garbage', 'header-cut', 'uint8', 'int32', 'float64']


def _rate(rng):
    return rng.choice(RATES) if rng.random() < 0.7 else rng.choice(RATES_X)


def _key(a):
    np = _np()
    if isinstance(a, bytes):
        return a
    if isinstance(a, list):
        return ('list', repr(a))
    a = np.asarray(a)
    return (str(a.dtype), a.shape, a.tobytes())


def _arrs(args):
    np = _np()
    return [a for a in args if isinstance(a, np.ndarray)]


def _dcall(helper, f, args, alias_ok=False, info=None):
    """(B) discipline around one helper call: arguments are not modified; the result does not alias an argument
    (unless the helper is documented/known to return a view: crop_samples); a second call on the same arguments
    gives the same result in a different buffer; after the caller overwrites one returned array the arguments and the
    earlier result are unchanged and a third call still gives the same result.
    Returns (result, None) | (None, failure dict); exceptions of f propagate (after the argument check)."""
    np = _np()
    info = dict(info or {}, helper=helper)
    before = [_key(a) for a in args]
    try:
        r1 = f(*args)
    except BaseException:
        if [_key(a) for a in args] != before:
            raise AssertionError('argument-modified-before-raising')
        raise
    if [_key(a) for a in args] != before:
        return None, dict(info, kind='argument-modified', how='by the call')
    k1 = _key(r1)
    isarr = isinstance(r1, np.ndarray)
    if isarr and not alias_ok and r1.size and any(np.shares_memory(r1, a) for a in _arrs(args)):
        return None, dict(info, kind='result-aliases-argument')
    r2 = f(*args)
    if _key(r2) != k1:
        return None, dict(info, kind='repeated-call-differs', how='second call on the same arguments')
    if isarr and not alias_ok and r1.size:
        if np.shares_memory(r1, r2):
            return None, dict(info, kind='results-share-a-buffer')
        if r2.flags.writeable:
            r2[...] = r2[::-1].copy() + r2.dtype.type(3)
            if [_key(a) for a in args] != before:
                return None, dict(info, kind='argument-modified', how='through the returned array')
            if _key(r1) != k1:
                return None, dict(info, kind='earlier-result-changed')
            r3 = f(*args)
            if _key(r3) != k1:
                return None, dict(info, kind='repeated-call-differs', how='after the caller overwrote a returned array')
    return r1, None


def _container(np, xs, c):
    """the same samples in different legal containers; rows() gives the comparable python rows"""
    if c == 0:
        return np.array(xs, dtype=np.int64)
    if c == 1:
        return (np.array(xs, dtype=np.float32) / np.float32(8))
    if c == 2:
        return list(xs)
    if c == 3:
        return np.stack([np.array(xs, dtype=np.int16), -np.array(xs, dtype=np.int16) // 2], axis=1) if xs else \
            np.zeros((0, 2), dtype=np.int16)
    if c == 4:
        big = np.zeros(2 * len(xs) + 1, dtype=np.int64)
        big[::2][:len(xs)] = xs
        big[1::2] = 77777
        return big[::2][:len(xs)]
    return np.array(xs, dtype=np.int16)


def _rows(np, v):
    return [tuple(np.asarray(r).reshape(-1).tolist()) for r in v]


def _num(p, as_int):
    x = _F(p)
    return int(x) if as_int and x == int(x) and abs(x) < 2 ** 53 else x


def _var(kind, c, xs, rate, b, t, flags):
    """(A)/(C): crop (kind 0) / repeat (kind 1) with the samples in container c, an int or float rate, and times passed
    as python ints when integral (flags bit 0: begin, bit 1: length/duration).  Expectation from the REQUESTED values."""
    np = _np()
    aio = _aio()
    rate = _F(rate) if isinstance(rate, list) else rate
    info = {'container': CONTAINERS[c], 'len': len(xs), 'rate': rate}
    samples = _container(np, xs, c)
    src = _rows(np, samples)
    if kind == 0:
        bv, tv = _num(b, flags & 1), _num(t, flags & 2)
        first, count = int(bv * rate), int(tv * rate)
        info.update(begin=bv, length=tv, first=first, count=count)
        got, fail = _dcall('crop_samples', aio.crop_samples, [samples, rate, bv, tv], alias_ok=True, info=info)
        if fail:
            return fail
        want = [src[i] for i in range(first, min(first + count, len(src)))]
        if _rows(np, got) != want:
            return dict(info, kind='crop-wrong-samples', got_len=len(got), want_len=len(want))
        if isinstance(samples, np.ndarray) and (getattr(got, 'dtype', None) != samples.dtype or got.shape[1:] != samples.shape[1:]):
            return dict(info, kind='crop-changes-dtype-or-shape', dtype=str(getattr(got, 'dtype', type(got).__name__)))
        return None
    dv = _num(t, flags & 2)
    n = int(dv * rate)
    info.update(duration=dv, expected_samples=n)
    if len(src) == 0 or dv < 0:                     # nothing to repeat / negative: outside the property; only (D)
        try:
            _dcall('repeat_samples_to_duration', aio.repeat_samples_to_duration, [samples, rate, dv], info=info)
        except AssertionError:
            return dict(info, kind='argument-modified', how='before raising')
        except BaseException:
            pass
        return None
    try:
        got, fail = _dcall('repeat_samples_to_duration', aio.repeat_samples_to_duration, [samples, rate, dv], info=info)
    except BaseException as e:
        return dict(info, kind='repeat-raises', exc=type(e).__name__, zero_duration=dv == 0)
    if fail:
        return fail
    if len(got) != n:
        return dict(info, kind='repeat-wrong-length', got_len=int(len(got)), want_len=n)
    if _rows(np, got) != [src[i % len(src)] for i in range(n)]:
        return dict(info, kind='repeat-not-cyclic')
    if n and isinstance(samples, np.ndarray) and (got.dtype != samples.dtype or got.shape[1:] != samples.shape[1:]):
        return dict(info, kind='repeat-changes-dtype-or-shape', dtype=str(got.dtype))
    return None


def _reject(which, bad):
    """(D): every documented rejection raises exactly the documented class and leaves its argument untouched."""
    np = _np()
    aio = _aio()
    import io as _io
    import scipy.io.wavfile as W

    def expect(helper, f, arg, cls, what):
        before = _key(arg)
        try:
            r = f(arg)
        except BaseException as e:
            if isinstance(e, (KeyboardInterrupt, SystemExit, MemoryError)):
                raise
            if type(e) is not cls:
                return {'kind': 'wrong-exception-class', 'helper': helper, 'input': what, 'got': type(e).__name__,
                        'want': cls.__name__}
            if _key(arg) != before:
                return {'kind': 'argument-modified', 'helper': helper, 'how': 'before raising', 'input': what}
            return None
        return {'kind': 'invalid-input-not-rejected', 'helper': helper, 'input': what, 'want': cls.__name__}

    if which == 0:
        dt = BAD_FOR_TO_F32[bad]
        return expect('int16_samples_to_float32', aio.int16_samples_to_float32, np.array([0, 1, 0, 1, 1], dtype=dt),
                      ValueError, dt)
    if which == 1:
        dt = BAD_FOR_TO_I16[bad]
        return expect('float_samples_to_int16', aio.float_samples_to_int16, np.array([0, 1, 0, 1, 1], dtype=dt),
                      ValueError, dt)
    what = BAD_WAV[bad]
    good = _io.BytesIO()
    W.write(good, 16000, np.arange(-50, 50).astype(np.int16))
    good = good.getvalue()
    if what in ('uint8', 'int32', 'float64'):
        b = _io.BytesIO()
        W.write(b, 16000, (np.arange(0, 100) % 7).astype(what))
        return expect('wav_data_to_samples', lambda d: aio.wav_data_to_samples(d, 16000), b.getvalue(), aio.AudioIOError, what)
    data = {'empty': b'', 'riff-only': b'RIFF', 'garbage': b'not a wav file at all' * 4, 'header-cut': good[:20]}[what]
    return expect('wav_data_to_samples', lambda d: aio.wav_data_to_samples(d, 16000), data, aio.AudioIOReadError, what)


def _wav_var(xs, rate, channels, fmt, target):
    """(A) for the wav pair: rate of the file, number of channels, sample format of the input to samples_to_wav_data
    (float32 / float64 on the int16 grid) or a float32 WAV, and the rate requested from the decoder."""
    np = _np()
    aio = _aio()
    import io as _io
    import scipy.io.wavfile as W
    info = {'n': len(xs), 'rate': rate, 'channels': channels, 'format': ['float32', 'float64-grid', 'float32-wav'][fmt],
            'target_rate': target}
    x = np.array(xs, dtype=np.int16)
    if channels == 2:
        x = np.stack([x, x[::-1] // 3], axis=1) if len(xs) else np.zeros((0, 2), dtype=np.int16)
    y = aio.int16_samples_to_float32(x)
    if fmt == 2:                       # 32-bit float WAV written by scipy directly: the decoder must hand the floats back
        b = _io.BytesIO()
        W.write(b, rate, y)
        wav = b.getvalue()
    else:
        src = y if fmt == 0 else x.astype(np.float64) / 32767.0
        wav, fail = _dcall('samples_to_wav_data', aio.samples_to_wav_data, [src, rate], info=info)
        if fail:
            return fail
        sr, pcm = W.read(_io.BytesIO(wav))
        if sr != rate:
            return dict(info, kind='wav-header-rate', got=int(sr))
        if pcm.dtype != np.int16 or pcm.shape != x.shape or not np.array_equal(pcm, x):
            return dict(info, kind='wav-pcm-differs')
    out, fail = _dcall('wav_data_to_samples', aio.wav_data_to_samples, [wav, target], info=info)
    if fail:
        return fail
    if out.dtype != np.float32 or out.ndim != 1:
        return dict(info, kind='wav-decoded-type', dtype=str(out.dtype), ndim=int(out.ndim))
    mono = y if channels == 1 else (y[:, 0] + y[:, 1]) / np.float32(2)        # "converted to mono": mean of the channels
    if target == rate:
        if out.shape != mono.shape or not np.array_equal(out.view(np.uint32), mono.astype(np.float32).view(np.uint32)):
            return dict(info, kind='wav-roundtrip-not-identity')
    else:                              # resampled: only the length and sanity are claimed
        want = len(xs) * target / rate
        if abs(len(out) - want) > 1 or not np.all(np.isfinite(out)):
            return dict(info, kind='wav-resampled-length', got_len=int(len(out)), want_len=want)
    return None


def _session(xs, rate, b, t, d, order):
    """(B)(iv)/(C) two-step use: every helper fed with the OUTPUT of an earlier one, in a shuffled order of the
    independent steps, all intermediate objects kept alive and re-observed at the end."""
    np = _np()
    aio = _aio()
    import random as _random
    bv, tv, dv = _F(b), _F(t), _F(d)
    info = {'n': len(xs), 'rate': rate, 'begin': bv, 'length': tv, 'duration': dv, 'order': order}
    x = np.array(xs, dtype=np.int16)
    kept = []                                        # (name, object, key at creation)

    def keep(name, o):
        kept.append((name, o, _key(o)))
        return o

    keep('pcm', x)
    y, fail = _dcall('int16_samples_to_float32', aio.int16_samples_to_float32, [x], info=info)
    if fail:
        return fail
    keep('float', y)
    first, count = int(bv * rate), int(tv * rate)
    idx = [i for i in range(first, min(first + count, len(xs)))]
    n = int(dv * rate)
    steps = ['crop', 'stereo', 'to16', 'wav', 'rep']
    _random.Random(order).shuffle(steps)
    res = {}
    for st in steps:
        if st == 'crop':                             # crop of a converted signal, then repeat of the crop
            c, fail = _dcall('crop_samples', aio.crop_samples, [y, rate, bv, tv], alias_ok=True, info=info)
            if fail:
                return fail
            if not np.array_equal(c.view(np.uint32), y[idx].view(np.uint32)) or len(c) != len(idx):
                return dict(info, kind='crop-wrong-samples', got_len=int(len(c)), want_len=len(idx), step='crop(float)')
            res['crop'] = keep('crop', c)
            if len(c):
                r, fail = _dcall('repeat_samples_to_duration', aio.repeat_samples_to_duration, [c, rate, dv], info=info)
                if fail:
                    return fail
                want = y[[idx[i % len(idx)] for i in range(n)]] if n else y[:0]
                if len(r) != n or not np.array_equal(r.view(np.uint32), want.view(np.uint32)):
                    return dict(info, kind='repeat-wrong-length' if len(r) != n else 'repeat-not-cyclic',
                                got_len=int(len(r)), want_len=n, step='repeat(crop(float))')
                keep('repeat-of-crop', r)
                z, fail = _dcall('float_samples_to_int16', aio.float_samples_to_int16, [r], info=info)
                if fail:
                    return fail
                if not np.array_equal(z, x[[idx[i % len(idx)] for i in range(n)]] if n else x[:0]):
                    return dict(info, kind='pcm-roundtrip-not-identity', step='to_int16(repeat(crop(float)))')
        elif st == 'stereo':                         # stereo of the signal and its reverse, then crop / repeat / wav of the stereo signal
            rev = keep('reverse', y[::-1][: max(0, len(y) - 2)].copy())
            s2, fail = _dcall('make_stereo', aio.make_stereo, [y, rev], info=info)
            if fail:
                return fail
            m = max(len(y), len(rev))
            if s2.shape != (m, 2) or s2.dtype != np.float32 or not np.array_equal(s2[:len(y), 0], y) or \
                    not np.array_equal(s2[:len(rev), 1], rev) or np.any(s2[len(rev):, 1] != 0):
                return dict(info, kind='stereo-wrong-sample', step='stereo(float, reversed)')
            keep('stereo', s2)
            c2, fail = _dcall('crop_samples', aio.crop_samples, [s2, rate, bv, tv], alias_ok=True, info=info)
            if fail:
                return fail
            if c2.shape != (len(idx), 2) or not np.array_equal(c2, s2[idx]):
                return dict(info, kind='crop-wrong-samples', step='crop(stereo)', got_len=int(len(c2)), want_len=len(idx))
            if m:
                r2, fail = _dcall('repeat_samples_to_duration', aio.repeat_samples_to_duration, [s2, rate, dv], info=info)
                if fail:
                    return fail
                if r2.shape != (n, 2) or not np.array_equal(r2, s2[np.arange(n) % m]):
                    return dict(info, kind='repeat-wrong-length' if len(r2) != n else 'repeat-not-cyclic',
                                step='repeat(stereo)', got_len=int(len(r2)), want_len=n)
        elif st == 'to16':
            z, fail = _dcall('float_samples_to_int16', aio.float_samples_to_int16, [y], info=info)
            if fail:
                return fail
            if z.dtype != np.int16 or not np.array_equal(z, x):
                return dict(info, kind='pcm-roundtrip-not-identity', step='to_int16(float)')
            keep('pcm-back', z)
        elif st == 'wav':
            w, fail = _dcall('samples_to_wav_data', aio.samples_to_wav_data, [y, rate], info=info)
            if fail:
                return fail
            back, fail = _dcall('wav_data_to_samples', aio.wav_data_to_samples, [w, rate], info=info)
            if fail:
                return fail
            if back.shape != y.shape or not np.array_equal(back.view(np.uint32), y.view(np.uint32)):
                return dict(info, kind='wav-roundtrip-not-identity', step='wav(float)')
            keep('decoded', back)
        else:                                        # repeat of the whole converted signal
            if len(y):
                r, fail = _dcall('repeat_samples_to_duration', aio.repeat_samples_to_duration, [y, rate, dv], info=info)
                if fail:
                    return fail
                if len(r) != n or not np.array_equal(r, y[np.arange(n) % len(y)]):
                    return dict(info, kind='repeat-wrong-length' if len(r) != n else 'repeat-not-cyclic',
                                step='repeat(float)', got_len=int(len(r)), want_len=n)
                keep('repeat', r)
    for name, o, k in kept:                           # (iv) everything produced earlier is still what it was
        if _key(o) != k:
            return dict(info, kind='earlier-result-changed', object=name)
    return None


AUDIT_OPS = ('var', 'reject', 'wav_var', 'session')


def _audit_verdict(case):
    op, a = case['op'], case['input']
    if op == 'var':
        return _var(*a)
    if op == 'reject':
        return _reject(*a)
    if op == 'wav_var':
        return _wav_var(*a)
    return _session(*a)


def _audit_corpus():
    T = fl.me
    out = []
    xs = [5, -3, 9, 4, 4, 0, 120, -7]
    for c in range(len(CONTAINERS)):
        for rate in (8000, 11025, [*T(22050.0)], [*T(44100.5)]):
            rt = _F(rate) if isinstance(rate, list) else rate
            # offsets / lengths exactly at and one beyond the ends
            for a_, n_ in ((0, 8), (0, 9), (7, 1), (7, 2), (8, 0), (8, 1), (9, 3), (3, 0), (0, 0)):
                out.append({'op': 'var', 'input': [0, c, xs, rate, T(a_ / rt), T(n_ / rt), 0]})
            for n_ in (0, 1, 7, 8, 9, 16, 17):
                out.append({'op': 'var', 'input': [1, c, xs, rate, T(0.0), T(n_ / rt), 0]})
        out.append({'op': 'var', 'input': [0, c, [], 8000, T(0.0), T(1.0), 3]})          # empty signal, int-typed times
        out.append({'op': 'var', 'input': [0, c, [42], 1, T(0.0), T(1.0), 3]})            # one sample, rate 1, ints
        out.append({'op': 'var', 'input': [1, c, [42], 1, T(0.0), T(5.0), 3]})
        out.append({'op': 'var', 'input': [1, c, [42], 16000, T(0.0), T(0.0), 2]})        # duration int 0
    for which, n in ((0, len(BAD_FOR_TO_F32)), (1, len(BAD_FOR_TO_I16)), (2, len(BAD_WAV))):
        for bad in range(n):
            out.append({'op': 'reject', 'input': [which, bad]})
    sig = [-32768, -1, 0, 32767, 12345, -4242, 7, 5, 100, -100]
    for channels in (1, 2):
        for fmt in (0, 1, 2):
            for rate, target in ((16000, 16000), (11025, 11025), (1, 1), (16000, 8000), (8000, 22050), (44100, 44100)):
                out.append({'op': 'wav_var', 'input': [sig, rate, channels, fmt, target]})
            out.append({'op': 'wav_var', 'input': [[], 16000, channels, fmt, 16000]})
            out.append({'op': 'wav_var', 'input': [[9], 16000, channels, fmt, 16000]})
    for order in range(6):
        out.append({'op': 'session', 'input': [sig, RATES[order % 5], T(2 / RATES[order % 5]), T(5 / RATES[order % 5]),
                                               T(13 / RATES[order % 5]), order]})
    out.append({'op': 'session', 'input': [[], 8000, T(0.0), T(1.0), T(0.0), 0]})
    out.append({'op': 'session', 'input': [[-32768], 8000, T(0.0), T(1.0), T(0.0), 1]})
    out.append({'op': 'session', 'input': [[7, 8], 1, T(1.0), T(1.0), T(3.0), 2]})
    return out


def _audit_cases(rng, mul):
    T = fl.me
    out = []
    for _ in range(160 * mul):
        kind = rng.randrange(2)
        c = rng.randrange(len(CONTAINERS))
        ln = rng.choice([0, 1, 1, 2, 3, 5, 8, 13])
        xs = [rng.randint(-32000, 32000) for _ in range(ln)]
        r = rng.random()
        rate = _rate(rng) if r < 0.8 else [*T(rng.choice(FRATES))]
        rt = _F(rate) if isinstance(rate, list) else rate
        b = _rand_time(rng, rt, ln)
        t = _rand_time(rng, rt, ln) if kind == 0 else min(_rand_time(rng, rt, 4 * max(ln, 1)), 64 / rt)
        out.append({'op': 'var', 'input': [kind, c, xs, rate, T(b), T(t), rng.randrange(4)]})
    for _ in range(30 * mul):
        ln = rng.choice([0, 1, 2, 17, 200])
        rate = _rate(rng)
        target = rate if rng.random() < 0.7 else _rate(rng)
        out.append({'op': 'wav_var', 'input': [[rng.randint(-32768, 32767) for _ in range(ln)], rate, rng.choice([1, 2]),
                                               rng.randrange(3), target]})
    for _ in range(40 * mul):
        ln = rng.choice([0, 1, 2, 3, 9, 40])
        rate = _rate(rng)
        out.append({'op': 'session', 'input': [[rng.randint(-32768, 32767) for _ in range(ln)], rate,
                                               T(_rand_time(rng, rate, ln)), T(_rand_time(rng, rate, ln)),
                                               T(min(_rand_time(rng, rate, 3 * max(ln, 1)), 200 / rate)), rng.randrange(1000)]})
    return out


# ------------------------------------------------------------------ oracle: the property on the implementation
def oracle(case, io):
    np = _np()
    aio = _aio()
    op, a = case['op'], case['input']
    if op == 'pcm':
        lo, n = a
        x = np.arange(lo, lo + n).astype(np.int16)
        y, fail = _dcall('int16_samples_to_float32', aio.int16_samples_to_float32, [x], info={'block': lo})
        if fail:
            return fail
        z, fail = _dcall('float_samples_to_int16', aio.float_samples_to_int16, [y], info={'block': lo})
        if fail:
            return fail
        bad = np.nonzero(z != x)[0]
        if bad.size:
            i = int(bad[0])
            return {'kind': 'pcm-roundtrip-not-identity', 'value': int(x[i]), 'got': int(z[i]), 'count': int(bad.size)}
        if y.dtype != np.float32 or z.dtype != np.int16:
            return {'kind': 'pcm-dtype', 'float': str(y.dtype), 'int': str(z.dtype)}
        return None
    if op in ('f32_i16', 'f64_i16'):
        # values: correspondence only (the property constrains the composite, checked by 'pcm'); here the (B) discipline
        y = np.array([_F(p) for p in a[0]], dtype=np.float64).astype(np.float32 if op == 'f32_i16' else np.float64)
        z, fail = _dcall('float_samples_to_int16', aio.float_samples_to_int16, [y], info={'dtype': str(y.dtype)})
        if fail:
            return fail
        if z.dtype != np.int16 or z.shape != y.shape:
            return {'kind': 'pcm-dtype', 'int': str(z.dtype)}
        return None
    if op in ('crop_ramp', 'crop_list'):
        if op == 'crop_ramp':
            lo, ln, rate, b, t = a
            x = _ramp(lo, ln)
        else:
            xs, rate, b, t = a
            x = np.array(xs, dtype=np.int64)
        b, t = _F(b), _F(t)
        pb, pt = b * rate, t * rate
        if math.isinf(pb) or math.isinf(pt):
            return None                                  # int(inf): rejected, outside the property
        first, count = int(pb), int(pt)                  # the property's own expressions
        if first < 0 or count < 0:
            return None                                  # negative offset/length: outside the property
        want = x[[i for i in range(first, min(first + count, len(x)))]] if len(x) < 64 else \
            x[np.arange(first, max(first, min(first + count, len(x))))]
        try:
            got, fail = _dcall('crop_samples', aio.crop_samples, [x, rate, b, t], alias_ok=True,
                               info={'len': len(x), 'rate': rate, 'begin': b, 'length': t})
        except BaseException as e:
            return {'kind': 'crop-raises', 'exc': type(e).__name__, 'len': len(x), 'rate': rate, 'begin': b, 'length': t}
        if fail:
            return fail
        if len(got) != len(want) or not np.array_equal(np.asarray(got), np.asarray(want)):
            return {'kind': 'crop-wrong-samples', 'len': len(x), 'rate': rate, 'begin': b, 'length': t,
                    'first': first, 'count': count, 'got_len': int(len(got)), 'want_len': int(len(want))}
        return None
    if op in ('rep_ramp', 'rep_list'):
        if op == 'rep_ramp':
            lo, ln, rate, d = a
            x = _ramp(lo, ln)
        else:
            xs, rate, d = a
            x = np.array(xs, dtype=np.int64)
        d = _F(d)
        if len(x) == 0 or d < 0 or math.isinf(d * rate):
            return None                                  # nothing to repeat / negative / int(inf): outside the property
        n = int(d * rate)
        try:
            got, fail = _dcall('repeat_samples_to_duration', aio.repeat_samples_to_duration, [x, rate, d],
                               info={'len': len(x), 'rate': rate, 'duration': d})
        except BaseException as e:
            return {'kind': 'repeat-raises', 'exc': type(e).__name__, 'len': len(x), 'rate': rate, 'duration': d,
                    'expected_samples': n, 'zero_duration': d == 0.0}
        if fail:
            return fail
        if len(got) != n:
            return {'kind': 'repeat-wrong-length', 'len': len(x), 'rate': rate, 'duration': d, 'got_len': int(len(got)),
                    'want_len': n}
        want = x[np.arange(n) % len(x)]
        if not np.array_equal(np.asarray(got), want):
            return {'kind': 'repeat-not-cyclic', 'len': len(x), 'rate': rate, 'duration': d}
        return None
    if op == 'rep_len':
        ln, rate, d = a
        d = _F(d)
        if io == ['SPY-NA']:
            return None
        if io[0] != 'OK':
            if d >= 0 and not math.isinf(d * rate):
                return {'kind': 'repeat-raises', 'exc': io[1], 'len': ln, 'rate': rate, 'duration': d,
                        'expected_samples': int(d * rate), 'zero_duration': d == 0.0}
            return None
        n = int(d * rate)
        if io[1] != n:
            return {'kind': 'repeat-wrong-length', 'len': ln, 'rate': rate, 'duration': d, 'got_len': io[1], 'want_len': n}
        return None
    if op == 'stereo':
        dl, dr, l, r = a
        la, ra = _stereo_arr(np, l, dl), _stereo_arr(np, r, dr)
        if dl != dr:
            if io != ['EXC', 'AudioIODataTypeError']:
                return {'kind': 'stereo-dtype-mismatch-not-rejected', 'dtypes': [DTYPES[dl], DTYPES[dr]]}
            kl, kr = _key(la), _key(ra)
            try:
                aio.make_stereo(la, ra)
            except BaseException as e:
                if type(e) is not aio.AudioIODataTypeError:
                    return {'kind': 'wrong-exception-class', 'helper': 'make_stereo', 'got': type(e).__name__}
            if (_key(la), _key(ra)) != (kl, kr):
                return {'kind': 'argument-modified', 'helper': 'make_stereo', 'how': 'before raising'}
            return None
        try:
            o, fail = _dcall('make_stereo', aio.make_stereo, [la, ra], info={'lens': [len(l), len(r)], 'dtype': DTYPES[dl]})
        except BaseException as e:
            return {'kind': 'stereo-raises', 'exc': type(e).__name__, 'lens': [len(l), len(r)]}
        if fail:
            return fail
        m = max(len(l), len(r))
        if o.shape != (m, 2) or str(o.dtype) != DTYPES[dl]:
            return {'kind': 'stereo-shape', 'shape': list(o.shape), 'lens': [len(l), len(r)], 'dtype': str(o.dtype)}
        for i in range(m):
            wl = la[i] if i < len(l) else 0
            wr = ra[i] if i < len(r) else 0
            if o[i][0] != wl or o[i][1] != wr:
                return {'kind': 'stereo-wrong-sample', 'index': i, 'lens': [len(l), len(r)], 'dtype': DTYPES[dl]}
        return None
    if op in AUDIT_OPS:
        if io[0] != 'OK':
            return {'kind': 'helper-raises', 'exc': io[1], 'op': op, 'input': a if len(str(a)) < 300 else str(a)[:300]}
        return _audit_verdict(case)
    if op == 'wav_twice':
        xs, rate, mutation, helper = a
        if io[0] != 'OK':
            return {'kind': 'wav-raises', 'exc': io[1], 'n': len(xs), 'rate': rate, 'helper': WAV_HELPERS[helper]}
        return _decode_twice(xs, rate, WAV_MUTATIONS[mutation], WAV_HELPERS[helper])
    if op == 'wav':
        xs, rate = a
        if io[0] != 'OK':
            return {'kind': 'wav-raises', 'exc': io[1], 'n': len(xs), 'rate': rate}
        x = np.array(xs, dtype=np.int16)
        y = aio.int16_samples_to_float32(x)
        wav, fail = _dcall('samples_to_wav_data', aio.samples_to_wav_data, [y, rate], info={'n': len(xs), 'rate': rate})
        if fail:
            return fail
        import io as _io
        import scipy.io.wavfile
        if scipy.io.wavfile.read(_io.BytesIO(wav))[0] != rate:
            return {'kind': 'wav-header-rate', 'n': len(xs), 'rate': rate}
        y2, fail = _dcall('wav_data_to_samples', aio.wav_data_to_samples, [wav, rate], info={'n': len(xs), 'rate': rate})
        if fail:
            return fail
        if y2.dtype != np.float32 or y2.shape != y.shape or not np.array_equal(y2.view(np.uint32), y.view(np.uint32)):
            return {'kind': 'wav-roundtrip-not-identity', 'n': len(xs), 'rate': rate}
        if io[1][0] != xs:
            return {'kind': 'wav-pcm-differs', 'n': len(xs), 'rate': rate}
        return None
    return None


def nontrivial(case, io):
    op, a = case['op'], case['input']
    if io == ['SPY-NA']:
        return False
    if op in ('pcm', 'f32_i16', 'f64_i16'):
        return True
    if io[0] != 'OK':
        return False
    if op == 'crop_ramp':
        return io[1] != [[a[0], a[1]]] and io[1] != []
    if op == 'crop_list':
        return io[1] != a[0] and io[1] != []
    if op == 'rep_ramp':
        return io[1] != [[a[0], a[1]]] and io[1] != []
    if op == 'rep_list':
        return io[1] != a[0] and io[1] != []
    if op == 'stereo':
        return len(a[2]) != len(a[3])
    if op == 'wav':
        return len(a[0]) > 0
    if op == 'wav_twice':
        return len(a[0]) > 0
    if op in AUDIT_OPS:
        return op == 'reject' or len(a[2] if op == 'var' else a[0]) > 0
    if op == 'rep_len':
        return io[1] > a[0]
    return True


def shrink(case):
    op, a = case['op'], case['input']
    if op in ('crop_list', 'rep_list'):
        xs = a[0]
        for i in range(len(xs)):
            yield {'op': op, 'input': [xs[:i] + xs[i + 1:]] + a[1:]}
    if op in ('crop_ramp', 'rep_ramp'):
        lo, ln = a[0], a[1]
        if lo != 0:
            yield {'op': op, 'input': [0] + a[1:]}
        for l2 in (ln // 2, ln - 1):
            if 0 <= l2 < ln:
                yield {'op': op, 'input': [lo, l2] + a[2:]}
    if op == 'stereo':
        dl, dr, l, r = a
        if l:
            yield {'op': op, 'input': [dl, dr, l[:-1], r]}
        if r:
            yield {'op': op, 'input': [dl, dr, l, r[:-1]]}
    if op == 'wav_twice':
        xs = a[0]
        if len(xs) > 1:
            yield {'op': op, 'input': [xs[:len(xs) // 2]] + a[1:]}
            yield {'op': op, 'input': [xs[len(xs) // 2:]] + a[1:]}
    if op == 'wav':
        xs, rate = a
        if len(xs) > 1:
            yield {'op': op, 'input': [xs[:len(xs) // 2], rate]}
            yield {'op': op, 'input': [xs[len(xs) // 2:], rate]}


META = {
    'level_text': ('Theorems over the bit-exact model: the int16 -> float32 -> int16 conversion is the identity on all 65536 '
                   'values (complete enumeration inside the Coq kernel of the IEEE binary32 division and multiplication by '
                   '32767 followed by truncation), hence the WAV write/read composite is the identity on every mono 16-bit '
                   'signal; crop_samples returns exactly samples [a, a+n) /\\ [0, len) with a = int(fl(begin*rate)), '
                   'n = int(fl(length*rate)) for all signals, rates and finite non-negative times; '
                   'repeat_samples_to_duration returns exactly n = int(fl(duration*rate)) samples, sample i being '
                   'x[i mod len], for every non-empty signal below 2^53 samples, each of the five rates and every finite '
                   'duration >= 0 with duration*rate <= 2^49 (the float premise copies*len >= n is PROVED by a Flocq '
                   'relative-error argument, and shown false without the size bound); make_stereo has max length, keeps '
                   'both channels in order and pads with zeros, for all lists.'),
    'level_note': ('Trusted: Coq kernel + vm_compute; Coq.Floats.SpecFloat as the definition of binary32 and FloatAxioms as the '
                   'definition of binary64; the hand-written model Model/Audio.v tied to note_seq/audio_io.py by a differential '
                   'run (all 65536 int16 values every run, ~2000 crop/repeat/stereo/wav cases quick). The scipy WAV container '
                   'is exercised end to end but not modelled (that half of the wav sentence is tested, not proved); '
                   'librosa/pydub paths are out of scope.'),
}
