"""C20 — audio sample helpers are lossless on 16-bit PCM and exact about lengths.

Anchors (note_seq/audio_io.py): int16_samples_to_float32, float_samples_to_int16,
samples_to_wav_data / wav_data_to_samples, crop_samples, repeat_samples_to_duration,
make_stereo.  Model: coq/Model/Audio.v (binary32 via SpecFloat, binary64 via PrimFloat),
evaluated with vm_compute (USE_VM).
"""
import math

from vt import fl

ID = 'C20'
USE_VM = True
RATES = [8000, 16000, 22050, 44100, 48000]
MAXLEN = 100000

RULE = ('all 65536 int16 values through int16_samples_to_float32 / float_samples_to_int16 (16 blocks, every run); '
        'float32/float64 samples at and one ulp around every k/32767 boundary; ramps of 0..10^5 samples and random '
        'explicit sample lists at the five rates with crop offsets/lengths and repeat durations placed on, one/two '
        'ulps around and half-way between sample boundaries and multiples of the signal length, shorter and longer '
        'than the signal, zero, tiny, negative and huge; stereo pairs of every length relation and dtype relation; '
        'mono int16 signals through the scipy WAV container, and the "decode twice" discipline (decode, modify the result in place, '
        'decode / crop / jitter / normalize the same bytes again: nothing may change); a spy run of the real repeat arithmetic for durations '
        'far too long to allocate. non-trivial = the implementation returned a value (not an exception) that is not '
        'the whole input unchanged; distinct by canonical input')
ASSUMPTIONS = ['numpy float32 division/multiplication are IEEE-754 correctly rounded (tied exhaustively for the division on all '
               '65536 int16 values, by sampling for the multiplication)',
               'astype(np.int16) of an in-range float is C truncation; out-of-range products are not modelled (UB)',
               'sample rates are positive Python ints, times are finite Python floats',
               'the scipy WAV container is exercised end to end, not modelled']
TRUSTED = ['Coq.Floats.SpecFloat (SFdiv/SFmul/binary_normalize at prec=24, emax=128) as the definition of IEEE binary32',
           'scipy.io.wavfile (read/write of 16-bit PCM), exercised not modelled']
EXHAUSTIVE = {'quick': False, 'thorough': False}

ERR = {1: 'OverflowError', 2: 'ZeroDivisionError', 3: 'ValueError', 4: 'AudioIODataTypeError'}
DTYPES = {1: 'int16', 2: 'float32', 3: 'float64', 4: 'int64'}


def _np():
    import numpy as np
    return np


def _aio():
    from note_seq import audio_io
    return audio_io


def _exc(e):
    return ['EXC', type(e).__name__]


def runs(xs):
    """[5,6,7,1,2] -> [[5,3],[1,2]] (same compression as Run/C20.v oRuns)."""
    np = _np()
    a = np.asarray(xs, dtype=np.int64)
    if a.size == 0:
        return []
    brk = np.nonzero(np.diff(a) != 1)[0] + 1
    starts = np.concatenate(([0], brk))
    ends = np.concatenate((brk, [a.size]))
    return [[int(a[s]), int(e - s)] for s, e in zip(starts, ends)]


def _me32(x):
    """float32 value -> canonical (odd mantissa, exponent)."""
    return fl.me(float(x))


HMASK = 4611686018427387903   # 2^62 - 1


def _hash_floats(ys):
    """order-sensitive checksum of canonical (m, e) pairs; same as Run/C20.v hSF"""
    h = 0
    for v in ys:
        m, e = fl.me(float(v))
        h = (h * 1000003 + m) & HMASK
        h = (h * 1000003 + e) & HMASK
    return h


def _canon_me(p):
    m, e = p
    if e == 99999:
        return ['NONFINITE', m]
    if m == 0:
        return [0, 0]
    while m % 2 == 0:
        m //= 2
        e += 1
    return [m, e]


def _F(p):
    return fl.unme(p)


# ------------------------------------------------------------------ case generation
def _ulps(x, k):
    return fl.nextafter_n(x, k)


def _time_near(rng, rate, k):
    """a time whose product with rate is at/near sample index k (k may be fractional)."""
    t = k / rate
    return _ulps(t, rng.choice([0, 0, 0, 1, -1, 2, -2, 3, -3]))


def _rand_time(rng, rate, length):
    hi = max(length, 4) * 1.3
    r = rng.random()
    if r < 0.45:
        return _time_near(rng, rate, rng.randint(0, int(hi)))
    if r < 0.6:
        return _time_near(rng, rate, rng.randint(0, int(hi)) + 0.5)
    if r < 0.8:
        return rng.uniform(0, hi / rate)
    if r < 0.9:
        return float(rng.randint(0, 1 + int(hi / rate)))
    return rng.choice([0.0, 0.1, 0.25, 1.0 / 3, 0.5, 1.0, 2.5, 1e-9, 5e-324])


def _len(rng, big):
    r = rng.random()
    if r < 0.15:
        return rng.choice([0, 1, 2, 3, 7])
    if r < 0.6:
        return rng.randint(1, 300)
    if r < 0.85 or not big:
        return rng.randint(300, 5000)
    return rng.choice([MAXLEN, MAXLEN - 1, rng.randint(5000, MAXLEN)])


def _boundary_f32(rng, n):
    """float32 samples at / around k/32767 (where truncation vs rounding shows) and random."""
    np = _np()
    out = []
    for _ in range(n):
        r = rng.random()
        if r < 0.5:
            k = rng.randint(-32767, 32767)
            y = np.float32(k) / np.float32(32767)
            for _ in range(rng.choice([0, 0, 1, 2])):
                y = np.nextafter(y, np.float32(rng.choice([-2, 2])), dtype=np.float32)
        elif r < 0.8:
            y = np.float32(rng.uniform(-1, 1))
        elif r < 0.9:
            y = np.float32(rng.uniform(-1e-4, 1e-4))
        else:
            y = np.float32(rng.choice([0.0, 1.0, -1.0, 0.5, -0.5, 1 - 2 ** -24, -(1 - 2 ** -24), 2 ** -126, 2 ** -149,
                                       32766.5 / 32767, -32766.5 / 32767, 0.99996948, 1.0000305]))
        if abs(float(y)) * 32767 < 32767.9:
            out.append(_me32(y))
    return out


def _boundary_f64(rng, n):
    out = []
    for _ in range(n):
        r = rng.random()
        if r < 0.5:
            k = rng.randint(-32767, 32767)
            y = _ulps(k / 32767, rng.choice([0, 0, 1, -1, 2, -2]))
        elif r < 0.8:
            y = rng.uniform(-1, 1)
        else:
            y = rng.choice([0.0, 1.0, -1.0, 0.5, 1 - 2 ** -53, 5e-324, 32766.5 / 32767, 1e-300, -1e-5])
        if abs(y) * 32767 < 32767.9:
            out.append(fl.me(y))
    return out


def corpus():
    out = []
    # every int16 value, every run
    for lo in range(-32768, 32768, 4096):
        out.append({'op': 'pcm', 'input': [lo, 4096]})
    # crop: boundary cases
    T = fl.me
    for rate in RATES:
        out.append({'op': 'crop_ramp', 'input': [0, 1000, rate, T(0.0), T(1000 / rate)]})
        out.append({'op': 'crop_ramp', 'input': [0, 1000, rate, T(10 / rate), T(5000 / rate)]})     # longer than signal
        out.append({'op': 'crop_ramp', 'input': [0, 1000, rate, T(2000 / rate), T(1.0)]})           # starts past the end
        out.append({'op': 'crop_ramp', 'input': [0, 1000, rate, T(0.5), T(0.0)]})                   # zero length
        out.append({'op': 'crop_ramp', 'input': [0, 1000, rate, T(0.001), T(1e300)]})
        out.append({'op': 'crop_ramp', 'input': [0, 1000, rate, T(0.001), T(1.5e305)]})             # int(inf)
        out.append({'op': 'crop_ramp', 'input': [0, 1000, rate, T(-0.01), T(0.05)]})                # negative begin wraps (Python)
        out.append({'op': 'crop_ramp', 'input': [0, 1000, rate, T(0.05), T(-0.01)]})
        out.append({'op': 'crop_ramp', 'input': [0, MAXLEN, rate, T(1.0), T(0.5)]})
        # repeat
        out.append({'op': 'rep_ramp', 'input': [0, 1000, rate, T(0.0)]})                            # C20-fix-1
        out.append({'op': 'rep_ramp', 'input': [0, 1000, rate, T(5e-324)]})
        out.append({'op': 'rep_ramp', 'input': [0, 1000, rate, T(1000 / rate)]})
        out.append({'op': 'rep_ramp', 'input': [0, 1000, rate, T(3000 / rate)]})
        out.append({'op': 'rep_ramp', 'input': [0, 1000, rate, T(3000.5 / rate)]})
        out.append({'op': 'rep_ramp', 'input': [0, 1000, rate, T(999 / rate)]})
        out.append({'op': 'rep_ramp', 'input': [0, 0, rate, T(1.0)]})                               # empty input
        out.append({'op': 'rep_ramp', 'input': [0, 1000, rate, T(-0.5)]})                           # negative duration
        out.append({'op': 'rep_ramp', 'input': [0, 1000, rate, T(-1e-9)]})
        out.append({'op': 'rep_ramp', 'input': [0, MAXLEN, rate, T(2.5 * MAXLEN / rate)]})
        out.append({'op': 'rep_ramp', 'input': [0, 3, rate, T(100 / rate)]})
    out.append({'op': 'rep_ramp', 'input': [0, MAXLEN, 8000, T(5e-324)]})                           # quotient underflows to 0
    out.append({'op': 'rep_list', 'input': [[5, -3, 9], 8000, T(0.001)]})
    out.append({'op': 'crop_list', 'input': [[5, -3, 9, 4, 4, 0], 8000, T(1 / 8000), T(3 / 8000)]})
    # stereo
    out.append({'op': 'stereo', 'input': [1, 1, [1, 2, 3], [7]]})
    out.append({'op': 'stereo', 'input': [1, 1, [7], [1, 2, 3]]})
    out.append({'op': 'stereo', 'input': [1, 1, [], []]})
    out.append({'op': 'stereo', 'input': [1, 1, [], [4, 5]]})
    out.append({'op': 'stereo', 'input': [1, 2, [1], [2]]})
    out.append({'op': 'stereo', 'input': [2, 2, [1, -2], [2, 3]]})
    # wav
    out.append({'op': 'wav', 'input': [[-32768, -32767, -1, 0, 1, 32766, 32767], 16000]})
    out.append({'op': 'wav', 'input': [[], 8000]})
    # decode twice: a later decode of the same bytes must not see what the caller did to an earlier result
    k = 0
    for rate in RATES:
        for helper in range(len(WAV_HELPERS)):
            out.append({'op': 'wav_twice', 'input': [[-32768, -1, 0, 32767, 12345, -4242, 7, 5], rate, k % 3, helper]})
            k += 1
    out.append({'op': 'wav_twice', 'input': [[], 16000, 0, 0]})
    return out


def cases(rng, tier, n=None):
    thorough = tier == 'thorough'
    mul = 12 if thorough else 1
    out = []
    T = fl.me
    for _ in range(4 * mul):
        out.append({'op': 'f32_i16', 'input': [_boundary_f32(rng, 400)]})
        out.append({'op': 'f64_i16', 'input': [_boundary_f64(rng, 400)]})
    for _ in range(500 * mul):
        rate = rng.choice(RATES)
        ln = _len(rng, True)
        b = _rand_time(rng, rate, ln)
        t = _rand_time(rng, rate, ln)
        r = rng.random()
        if r < 0.03:
            b = -b
        elif r < 0.06:
            t = -t
        elif r < 0.08:
            t = rng.choice([1e300, 1e17, 3e303])
        out.append({'op': 'crop_ramp', 'input': [rng.choice([0, 0, 1, -5000]), ln, rate, T(b), T(t)]})
    for _ in range(150 * mul):
        rate = rng.choice(RATES)
        ln = rng.randint(0, 12)
        xs = [rng.randint(-32768, 32767) for _ in range(ln)]
        out.append({'op': 'crop_list', 'input': [xs, rate, T(_rand_time(rng, rate, ln)), T(_rand_time(rng, rate, ln))]})
    cap = 2000000 if thorough else 400000
    for _ in range(350 * mul):
        rate = rng.choice(RATES)
        ln = _len(rng, True)
        r = rng.random()
        if ln == 0:
            d = _rand_time(rng, rate, 10)
        elif r < 0.35:      # whole multiples of the signal, +- ulps
            k = rng.randint(1, max(1, min(6, cap // ln)))
            d = _ulps(k * ln / rate, rng.choice([0, 0, 1, -1, 2, -2]))
        elif r < 0.5:       # multiples computed the way callers do: k * (len / rate)
            k = rng.randint(1, max(1, min(6, cap // ln)))
            d = k * (ln / rate)
        elif r < 0.9:
            d = _rand_time(rng, rate, min(ln * rng.choice([1, 1, 2, 4]), cap))
        elif r < 0.95:
            d = rng.choice([0.0, 5e-324, 1e-300, 1e-12])
        else:
            d = -_rand_time(rng, rate, ln)
        lim = min(cap, 40 * ln)            # at most 40 copies: the (compressed) output stays small
        if ln and d * rate > lim:
            d = _ulps(lim / rate, rng.choice([0, 1, -1]))
        out.append({'op': 'rep_ramp', 'input': [rng.choice([0, 0, 1, -5000]), ln, rate, T(d)]})
    for _ in range(150 * mul):
        rate = rng.choice(RATES)
        ln = rng.randint(0, 9)
        xs = [rng.randint(-32768, 32767) for _ in range(ln)]
        d = _rand_time(rng, rate, 4 * max(ln, 1))
        if d * rate > 64:
            d = _ulps(64 / rate, rng.choice([0, 1, -1]))
        out.append({'op': 'rep_list', 'input': [xs, rate, T(d)]})
    for _ in range(200 * mul):
        la, lb = rng.randint(0, 10), rng.randint(0, 10)
        if rng.random() < 0.2:
            lb = la
        dl = rng.choice([1, 1, 2, 3, 4])
        dr = dl if rng.random() < 0.85 else rng.choice([1, 2, 3, 4])
        out.append({'op': 'stereo', 'input': [dl, dr, [rng.randint(-99, 99) for _ in range(la)],
                                              [rng.randint(-99, 99) for _ in range(lb)]]})
    for _ in range(8 * mul):
        k = rng.choice([1, 10, 100, 300])
        out.append({'op': 'wav', 'input': [[rng.randint(-32768, 32767) for _ in range(k)], rng.choice(RATES)]})
    for _ in range(12 * mul):
        k = rng.choice([1, 2, 10, 100, 2000])
        out.append({'op': 'wav_twice', 'input': [[rng.randint(-32768, 32767) for _ in range(k)], rng.choice(RATES),
                                                 rng.randrange(3), rng.randrange(len(WAV_HELPERS))]})
    for _ in range(300 * mul):     # real repeat arithmetic at sizes that cannot be allocated (spy)
        rate = rng.choice(RATES)
        ln = rng.randint(1, MAXLEN)
        kmax = 10 ** rng.randint(1, 6)
        k = rng.randint(1, kmax)
        r = rng.random()
        if r < 0.5:
            d = _ulps(k * ln / rate, rng.choice([0, 0, 1, -1, 2, -2]))
        elif r < 0.7:
            d = k * (ln / rate)
        else:
            d = rng.uniform(0, k * ln / rate)
        out.append({'op': 'rep_len', 'input': [ln, rate, T(d)]})
    if thorough:
        # exhaustive small scope: every length <= 6, every offset/length/duration on the half-sample grid
        for rate in RATES:
            for ln in range(0, 7):
                xs = list(range(10, 10 + ln))
                for a2 in range(0, 2 * ln + 5):
                    for n2 in range(0, 2 * ln + 5):
                        out.append({'op': 'crop_list', 'input': [xs, rate, T(a2 / (2 * rate)), T(n2 / (2 * rate))]})
                for d2 in range(0, 6 * ln + 5):
                    out.append({'op': 'rep_list', 'input': [xs, rate, T(d2 / (2 * rate))]})
    if n is not None:
        out = out[:n]
    return out


# ------------------------------------------------------------------ implementation
def _ramp(lo, ln):
    np = _np()
    return np.arange(lo, lo + ln, dtype=np.int64)


def _call(f):
    try:
        return ['OK', f()]
    except BaseException as e:   # AudioIOError derives from BaseException
        if isinstance(e, (KeyboardInterrupt, SystemExit, MemoryError)):
            raise
        return _exc(e)


class _FakeSamples(object):
    def __init__(self, n):
        self.n = n

    def __len__(self):
        return self.n

    def __getitem__(self, sl):
        return ('slice', 0, 0)


class _FakeArr(object):
    def __getitem__(self, sl):
        return ('slice', sl.start, sl.stop)


class _NPStub(object):
    def __init__(self):
        self.k = 0

    def concatenate(self, lst):
        if len(lst) == 0:
            raise ValueError('need at least one array to concatenate')
        self.k = len(lst)
        return _FakeArr()


def _spy_repeat(ln, rate, d):
    """Run the REAL repeat_samples_to_duration with np.concatenate replaced by a recorder
    (no allocation): returns [number of copies concatenated, slice stop]."""
    aio = _aio()
    stub = _NPStub()
    saved = aio.np
    aio.np = stub
    try:
        r = aio.repeat_samples_to_duration(_FakeSamples(ln), rate, d)
    except (AttributeError, TypeError):
        return 'SPY-NA'          # the code was refactored to use numpy in a way the recorder cannot follow
    finally:
        aio.np = saved
    if not (isinstance(r, tuple) and r[0] == 'slice' and r[1] == 0):
        return 'SPY-NA'
    return min(stub.k * ln, r[2])    # the observable: length of the result (not how many copies were made)


WAV_HELPERS = ['decode', 'crop', 'jitter', 'normalize']
WAV_MUTATIONS = ['scale', 'zero', 'reverse']


def _wav_helper(aio, helper, wav, rate, n):
    """bytes -> canonical observable of one wav helper that decodes internally"""
    np = _np()
    if helper == 'decode':
        return aio.wav_data_to_samples(wav, rate).copy()
    if helper == 'crop':
        return aio.crop_wav_data(wav, rate, 1.0 / rate, (n + 3.0) / rate)
    if helper == 'jitter':
        return aio.jitter_wav_data(wav, rate, 2.0 / rate)
    if helper == 'normalize':
        return aio.normalize_wav_data(wav, rate)
    raise ValueError(helper)


def _same(u, v):
    np = _np()
    if isinstance(u, bytes) or isinstance(v, bytes):
        return u == v
    return u.dtype == v.dtype and u.shape == v.shape and np.array_equal(u.view(np.uint32), v.view(np.uint32))


def _decode_twice(xs, rate, mutation, helper):
    """The "decode twice" discipline: every decode of the same WAV bytes returns the stored signal, whatever
    the caller did to an array returned by an earlier decode.  Returns None or a failure dict."""
    np = _np()
    aio = _aio()
    x = np.array(xs, dtype=np.int16)
    y = aio.int16_samples_to_float32(x)
    wav = aio.samples_to_wav_data(y.copy(), rate)
    info = {'n': len(xs), 'rate': rate, 'mutation': mutation, 'helper': helper}
    ref = _wav_helper(aio, helper, wav, rate, len(xs))          # before anything was modified
    a1 = aio.wav_data_to_samples(wav, rate)
    if not _same(a1, y):
        again = aio.wav_data_to_samples(wav, rate)
        if a1.size and np.shares_memory(a1, again):
            return dict(info, kind='decoded-samples-shared-between-calls',
                        how='the decode returns a buffer kept from an earlier decode of the same bytes in this process, '
                            'which its caller had modified')
        return dict(info, kind='wav-roundtrip-not-identity')
    try:                                                          # the caller works on its samples in place
        if mutation == 'scale':
            a1 *= np.float32(0.5)
            a1 += np.float32(0.25)
        elif mutation == 'zero':
            a1[...] = np.float32(0.125)
        else:
            a1[...] = a1[::-1].copy() + np.float32(0.5)
    except ValueError:
        pass                                                      # read-only result: nothing can be shared
    a2 = aio.wav_data_to_samples(wav, rate)
    if np.shares_memory(a1, a2) and a1.size:
        return dict(info, kind='decoded-samples-shared-between-calls', how='second decode returns the same buffer')
    if not _same(a2, y):
        bad = int(np.nonzero(a2.view(np.uint32) != y.view(np.uint32))[0][0]) if a2.shape == y.shape else -1
        return dict(info, kind='decoded-samples-shared-between-calls', how='second decode differs from the stored signal',
                    index=bad)
    out = _wav_helper(aio, helper, wav, rate, len(xs))
    if not _same(out, ref):
        return dict(info, kind='decoded-samples-shared-between-calls',
                    how='%s of the same bytes changed after the caller modified its decoded samples' % helper)
    if helper == 'decode' and not _same(out, y):
        return dict(info, kind='wav-roundtrip-not-identity')
    return None


def impl(case):
    np = _np()
    aio = _aio()
    op, a = case['op'], case['input']
    if op == 'wav_twice':
        xs, rate, mutation, helper = a
        r = _call(lambda: _decode_twice(xs, rate, WAV_MUTATIONS[mutation], WAV_HELPERS[helper]))
        return r if r[0] != 'OK' else ['OK', 'stable' if r[1] is None else r[1]['kind']]
    if op == 'pcm':
        lo, n = a
        x = np.arange(lo, lo + n).astype(np.int16)
        y = aio.int16_samples_to_float32(x)
        assert y.dtype == np.float32, y.dtype
        z = aio.float_samples_to_int16(y)
        assert z.dtype == np.int16, z.dtype
        return [_hash_floats(y), runs(z)]
    if op == 'f32_i16':
        y = np.array([_F(p) for p in a[0]], dtype=np.float64).astype(np.float32)
        assert all(float(v) == _F(p) for v, p in zip(y, a[0]))
        return [int(v) for v in aio.float_samples_to_int16(y)]
    if op == 'f64_i16':
        y = np.array([_F(p) for p in a[0]], dtype=np.float64)
        return [int(v) for v in aio.float_samples_to_int16(y)]
    if op == 'crop_ramp':
        lo, ln, rate, b, t = a
        return _call(lambda: runs(aio.crop_samples(_ramp(lo, ln), rate, _F(b), _F(t))))
    if op == 'crop_list':
        xs, rate, b, t = a
        return _call(lambda: [int(v) for v in aio.crop_samples(np.array(xs, dtype=np.int64), rate, _F(b), _F(t))])
    if op == 'rep_ramp':
        lo, ln, rate, d = a
        return _call(lambda: runs(aio.repeat_samples_to_duration(_ramp(lo, ln), rate, _F(d))))
    if op == 'rep_list':
        xs, rate, d = a
        return _call(lambda: [int(v) for v in aio.repeat_samples_to_duration(np.array(xs, dtype=np.int64), rate, _F(d))])
    if op == 'rep_len':
        ln, rate, d = a
        r = _call(lambda: _spy_repeat(ln, rate, _F(d)))
        return ['SPY-NA'] if r == ['OK', 'SPY-NA'] else r
    if op == 'stereo':
        dl, dr, l, r = a
        def f():
            o = aio.make_stereo(np.array(l, dtype=DTYPES[dl]), np.array(r, dtype=DTYPES[dr]))
            assert o.ndim == 2 and o.shape[1] == 2, o.shape
            return [[int(u), int(v)] for u, v in o]
        return _call(f)
    if op == 'wav':
        xs, rate = a
        def f():
            import io
            import scipy.io.wavfile
            x = np.array(xs, dtype=np.int16)
            y = aio.int16_samples_to_float32(x)
            wav = aio.samples_to_wav_data(y, rate)
            sr, pcm = scipy.io.wavfile.read(io.BytesIO(wav))
            assert sr == rate and pcm.dtype == np.int16
            y2 = aio.wav_data_to_samples(wav, rate)
            assert y2.dtype == np.float32, y2.dtype
            return [[int(v) for v in pcm], [_me32(v) for v in y2]]
        return _call(f)
    raise ValueError(op)


# ------------------------------------------------------------------ model
def model_input(case):
    op, a = case['op'], case['input']
    if op == 'pcm':
        return [1] + a
    if op == 'f32_i16':
        return [2, a[0]]
    if op == 'f64_i16':
        return [3, a[0]]
    if op == 'crop_ramp':
        return [4] + a
    if op == 'crop_list':
        return [5] + a
    if op == 'rep_ramp':
        return [6] + a
    if op == 'rep_list':
        return [7] + a
    if op == 'stereo':
        return [8] + a
    if op == 'wav':
        return [9, a[0]]
    if op == 'rep_len':
        return [10] + a
    return None          # wav_twice: exercised on the implementation only (the scipy container is not modelled)


def _res(m, f=lambda x: x):
    if m[0] == -1000:
        return ['EXC', ERR.get(m[1], 'MODEL-ERR-%d' % m[1])]
    return ['OK', f(m[1])]


def _optz(o):
    return o[0] if o else 'UB'


def model_output(case, m):
    op = case['op']
    if op == 'pcm':
        return m
    if op in ('f32_i16', 'f64_i16'):
        return [_optz(o) for o in m]
    if op == 'wav':
        return _res(m, lambda v: [v[0], [_canon_me(p) for p in v[1]]])
    if op == 'rep_len':
        return _res(m, lambda v: min(v[0] * case['input'][0], v[1]))
    return _res(m)


def equal(case, a, b):
    if case['op'] == 'rep_len' and a == ['SPY-NA']:
        return True              # recorder not applicable to the current code shape: no comparison (counted as trivial)
    return a == b


# ------------------------------------------------------------------ oracle: the property on the implementation
def oracle(case, io):
    np = _np()
    aio = _aio()
    op, a = case['op'], case['input']
    if op == 'pcm':
        lo, n = a
        x = np.arange(lo, lo + n).astype(np.int16)
        y = aio.int16_samples_to_float32(x)
        z = aio.float_samples_to_int16(y)
        bad = np.nonzero(z != x)[0]
        if bad.size:
            i = int(bad[0])
            return {'kind': 'pcm-roundtrip-not-identity', 'value': int(x[i]), 'got': int(z[i]), 'count': int(bad.size)}
        if y.dtype != np.float32 or z.dtype != np.int16:
            return {'kind': 'pcm-dtype', 'float': str(y.dtype), 'int': str(z.dtype)}
        return None
    if op in ('f32_i16', 'f64_i16'):
        return None      # correspondence only (the property constrains the composite, checked by 'pcm')
    if op in ('crop_ramp', 'crop_list'):
        if op == 'crop_ramp':
            lo, ln, rate, b, t = a
            x = _ramp(lo, ln)
        else:
            xs, rate, b, t = a
            x = np.array(xs, dtype=np.int64)
        b, t = _F(b), _F(t)
        pb, pt = b * rate, t * rate
        if math.isinf(pb) or math.isinf(pt):
            return None                                  # int(inf): rejected, outside the property
        first, count = int(pb), int(pt)                  # the property's own expressions
        if first < 0 or count < 0:
            return None                                  # negative offset/length: outside the property
        want = x[[i for i in range(first, min(first + count, len(x)))]] if len(x) < 64 else \
            x[np.arange(first, max(first, min(first + count, len(x))))]
        try:
            got = aio.crop_samples(x, rate, b, t)
        except BaseException as e:
            return {'kind': 'crop-raises', 'exc': type(e).__name__, 'len': len(x), 'rate': rate, 'begin': b, 'length': t}
        if len(got) != len(want) or not np.array_equal(np.asarray(got), np.asarray(want)):
            return {'kind': 'crop-wrong-samples', 'len': len(x), 'rate': rate, 'begin': b, 'length': t,
                    'first': first, 'count': count, 'got_len': int(len(got)), 'want_len': int(len(want))}
        return None
    if op in ('rep_ramp', 'rep_list'):
        if op == 'rep_ramp':
            lo, ln, rate, d = a
            x = _ramp(lo, ln)
        else:
            xs, rate, d = a
            x = np.array(xs, dtype=np.int64)
        d = _F(d)
        if len(x) == 0 or d < 0 or math.isinf(d * rate):
            return None                                  # nothing to repeat / negative / int(inf): outside the property
        n = int(d * rate)
        try:
            got = aio.repeat_samples_to_duration(x, rate, d)
        except BaseException as e:
            return {'kind': 'repeat-raises', 'exc': type(e).__name__, 'len': len(x), 'rate': rate, 'duration': d,
                    'expected_samples': n, 'zero_duration': d == 0.0}
        if len(got) != n:
            return {'kind': 'repeat-wrong-length', 'len': len(x), 'rate': rate, 'duration': d, 'got_len': int(len(got)),
                    'want_len': n}
        want = x[np.arange(n) % len(x)]
        if not np.array_equal(np.asarray(got), want):
            return {'kind': 'repeat-not-cyclic', 'len': len(x), 'rate': rate, 'duration': d}
        return None
    if op == 'rep_len':
        ln, rate, d = a
        d = _F(d)
        if io == ['SPY-NA']:
            return None
        if io[0] != 'OK':
            if d >= 0 and not math.isinf(d * rate):
                return {'kind': 'repeat-raises', 'exc': io[1], 'len': ln, 'rate': rate, 'duration': d,
                        'expected_samples': int(d * rate), 'zero_duration': d == 0.0}
            return None
        n = int(d * rate)
        if io[1] != n:
            return {'kind': 'repeat-wrong-length', 'len': ln, 'rate': rate, 'duration': d, 'got_len': io[1], 'want_len': n}
        return None
    if op == 'stereo':
        dl, dr, l, r = a
        if dl != dr:
            if io != ['EXC', 'AudioIODataTypeError']:
                return {'kind': 'stereo-dtype-mismatch-not-rejected', 'dtypes': [DTYPES[dl], DTYPES[dr]]}
            return None
        try:
            o = aio.make_stereo(np.array(l, dtype=DTYPES[dl]), np.array(r, dtype=DTYPES[dr]))
        except BaseException as e:
            return {'kind': 'stereo-raises', 'exc': type(e).__name__, 'lens': [len(l), len(r)]}
        m = max(len(l), len(r))
        if o.shape != (m, 2) or str(o.dtype) != DTYPES[dl]:
            return {'kind': 'stereo-shape', 'shape': list(o.shape), 'lens': [len(l), len(r)], 'dtype': str(o.dtype)}
        for i in range(m):
            wl = l[i] if i < len(l) else 0
            wr = r[i] if i < len(r) else 0
            if o[i][0] != wl or o[i][1] != wr:
                return {'kind': 'stereo-wrong-sample', 'index': i, 'lens': [len(l), len(r)]}
        return None
    if op == 'wav_twice':
        xs, rate, mutation, helper = a
        if io[0] != 'OK':
            return {'kind': 'wav-raises', 'exc': io[1], 'n': len(xs), 'rate': rate, 'helper': WAV_HELPERS[helper]}
        return _decode_twice(xs, rate, WAV_MUTATIONS[mutation], WAV_HELPERS[helper])
    if op == 'wav':
        xs, rate = a
        if io[0] != 'OK':
            return {'kind': 'wav-raises', 'exc': io[1], 'n': len(xs), 'rate': rate}
        x = np.array(xs, dtype=np.int16)
        y = aio.int16_samples_to_float32(x)
        y2 = aio.wav_data_to_samples(aio.samples_to_wav_data(y, rate), rate)
        if y2.dtype != np.float32 or y2.shape != y.shape or not np.array_equal(y2.view(np.uint32), y.view(np.uint32)):
            return {'kind': 'wav-roundtrip-not-identity', 'n': len(xs), 'rate': rate}
        if io[1][0] != xs:
            return {'kind': 'wav-pcm-differs', 'n': len(xs), 'rate': rate}
        return None
    return None


def nontrivial(case, io):
    op, a = case['op'], case['input']
    if io == ['SPY-NA']:
        return False
    if op in ('pcm', 'f32_i16', 'f64_i16'):
        return True
    if io[0] != 'OK':
        return False
    if op == 'crop_ramp':
        return io[1] != [[a[0], a[1]]] and io[1] != []
    if op == 'crop_list':
        return io[1] != a[0] and io[1] != []
    if op == 'rep_ramp':
        return io[1] != [[a[0], a[1]]] and io[1] != []
    if op == 'rep_list':
        return io[1] != a[0] and io[1] != []
    if op == 'stereo':
        return len(a[2]) != len(a[3])
    if op == 'wav':
        return len(a[0]) > 0
    if op == 'wav_twice':
        return len(a[0]) > 0
    if op == 'rep_len':
        return io[1] > a[0]
    return True


def shrink(case):
    op, a = case['op'], case['input']
    if op in ('crop_list', 'rep_list'):
        xs = a[0]
        for i in range(len(xs)):
            yield {'op': op, 'input': [xs[:i] + xs[i + 1:]] + a[1:]}
    if op in ('crop_ramp', 'rep_ramp'):
        lo, ln = a[0], a[1]
        if lo != 0:
            yield {'op': op, 'input': [0] + a[1:]}
        for l2 in (ln // 2, ln - 1):
            if 0 <= l2 < ln:
                yield {'op': op, 'input': [lo, l2] + a[2:]}
    if op == 'stereo':
        dl, dr, l, r = a
        if l:
            yield {'op': op, 'input': [dl, dr, l[:-1], r]}
        if r:
            yield {'op': op, 'input': [dl, dr, l, r[:-1]]}
    if op == 'wav_twice':
        xs = a[0]
        if len(xs) > 1:
            yield {'op': op, 'input': [xs[:len(xs) // 2]] + a[1:]}
            yield {'op': op, 'input': [xs[len(xs) // 2:]] + a[1:]}
    if op == 'wav':
        xs, rate = a
        if len(xs) > 1:
            yield {'op': op, 'input': [xs[:len(xs) // 2], rate]}
            yield {'op': op, 'input': [xs[len(xs) // 2:], rate]}


META = {
    'level_text': ('Theorems over the bit-exact model: the int16 -> float32 -> int16 conversion is the identity on all 65536 '
                   'values (complete enumeration inside the Coq kernel of the IEEE binary32 division and multiplication by '
                   '32767 followed by truncation), hence the WAV write/read composite is the identity on every mono 16-bit '
                   'signal; crop_samples returns exactly samples [a, a+n) /\\ [0, len) with a = int(fl(begin*rate)), '
                   'n = int(fl(length*rate)) for all signals, rates and finite non-negative times; '
                   'repeat_samples_to_duration returns exactly n = int(fl(duration*rate)) samples, sample i being '
                   'x[i mod len], for every non-empty signal below 2^53 samples, each of the five rates and every finite '
                   'duration >= 0 with duration*rate <= 2^49 (the float premise copies*len >= n is PROVED by a Flocq '
                   'relative-error argument, and shown false without the size bound); make_stereo has max length, keeps '
                   'both channels in order and pads with zeros, for all lists.'),
    'level_note': ('Trusted: Coq kernel + vm_compute; Coq.Floats.SpecFloat as the definition of binary32 and FloatAxioms as the '
                   'definition of binary64; the hand-written model Model/Audio.v tied to note_seq/audio_io.py by a differential '
                   'run (all 65536 int16 values every run, ~2000 crop/repeat/stereo/wav cases quick). The scipy WAV container '
                   'is exercised end to end but not modelled (that half of the wav sentence is tested, not proved); '
                   'librosa/pydub paths are out of scope.'),
}
