"""C10 — transposition shifts every pitch, key and chord by the same interval.

Structured chord symbols (root, kind index, modifications, bass) are rendered to
figure strings for the real code and the real output is parsed back by this
module's own splitter (string handling is glue: exercised, not modelled).
"""
import copy
import random as _random
import re

from vt import coqgen as G
from vt import nsio

ID = 'C10'
RULE = ('seeded structured generators per operation: pitch-class grid (7 steps x alterations x k), structured chord '
        'symbols (35 root spellings x every abbreviation of the regenerated kind table x modification lists x bass) '
        'rendered to strings, NoteSequences with pitched+drum notes, key signatures and chord/other annotations with '
        'k in -127..127 and arbitrary allowed ranges (edges hit on purpose), melodies with folding ranges, '
        'progressions and lead sheets (random, and chains that themselves move by the interval applied, with held '
        'chords and N.C. gaps), clamp arguments; non-trivial = the case exercises a non-default branch '
        '(a note deleted or a drum kept, an alteration respelled, a fold, a chord with bass/modifications, an error); '
        'distinct by canonical input')
ASSUMPTIONS = [
    'chord figures are modelled after the regex split: lexing/rendering of figure strings is harness glue, exercised on '
    'every chord case (rendered figure is re-split by an independent regex built from the regenerated tables)',
    'times are exact ticks (2^-40 s); transposition only copies and compares them',
    'Melody.squash: round(center_diff / 12.0) on floats equals round-half-even of the exact rational for |values| < 2^40 '
    '(ties are exactly representable half-integers; every other quotient is >= 1/24 away from a tie)',
    'augment_note_sequence draws from `random`; only _clamp_transpose is modelled, the composition is exercised by the '
    'oracle on the implementation (op augment)',
]
USE_VM = False
TRUSTED = ['figure rendering / parse-back in harness/vt/props/c10.py (independent regex built from regenerated tables)']

LETTERS = 'ABCDEFG'
BAD_FIGURES = ['', 'H', 'Cfoo', 'C/', 'C//G', 'Cm7/H', 'c', 'C#b', 'N.C', ' C', 'C7(add', 'Cb#', 'C7/', 'X7', 'C(9)',
               'Cadd', 'Cno', 'C/Gm', 'Am7 ', 'n.c.']


# ---------------------------------------------------------------- tables regenerated from /repo
def _tables():
    from note_seq import chord_symbols_lib as csl
    abbrevs = list(csl._CHORD_KINDS_BY_ABBREV)
    modkeys = list(csl._DEGREE_MODIFICATIONS)
    return abbrevs, modkeys


def gen_coq():
    from note_seq import chord_symbols_lib as csl, constants, sequences_lib, melodies_lib, chords_lib
    from note_seq.protobuf import music_pb2
    s = G.HEADER
    for name, tbl in (('STEPS_ABOVE', csl._STEPS_ABOVE), ('STEPS_MIDI', csl._STEPS_MIDI)):
        if sorted(tbl) != list(LETTERS):
            raise ValueError('%s keys are %r' % (name, sorted(tbl)))
        s += '(* chord_symbols_lib._%s in the order A..G *)\n' % name
        s += G.defzlist(name, [tbl[c] for c in LETTERS])
    if sorted(csl._DEGREE_OFFSETS) != [1, 2, 3, 4, 5, 6, 7]:
        raise ValueError('_DEGREE_OFFSETS keys %r' % sorted(csl._DEGREE_OFFSETS))
    s += G.defzlist('DEGREE_OFFSETS', [csl._DEGREE_OFFSETS[d] for d in range(1, 8)])
    s += '(* _CHORD_KINDS_BY_ABBREV (dict order): the degree strings of each abbreviation parsed by _parse_degree *)\n'
    rows = []
    for ab, degs in csl._CHORD_KINDS_BY_ABBREV.items():
        if not isinstance(ab, str):
            raise TypeError('abbreviation %r' % (ab,))
        pairs = [csl._parse_degree(d) for d in degs]
        rows.append('[' + '; '.join('(%s, %s)' % (G.z(d), G.z(a)) for d, a in pairs) + ']  (* %s *)' % ab.replace('*', '.'))
    body = ';\n   '.join(r.split('  (*')[0] for r in rows)
    s += 'Definition KIND_DEGREES : list (list (Z * Z)) :=\n  [' + body + '].\n'
    fns = {csl._add_scale_degree: 0, csl._subtract_scale_degree: 1, csl._alter_scale_degree: 2}
    mods = []
    for key, (fn, alter) in csl._DEGREE_MODIFICATIONS.items():
        if fn not in fns:
            raise ValueError('unknown modification function for %r' % key)
        mods.append('(%s, %s)' % (G.z(fns[fn]), G.z(alter)))
    s += '(* _DEGREE_MODIFICATIONS (dict order): (0 add | 1 subtract | 2 alter, alteration) *)\n'
    s += 'Definition DEGREE_MODS : list (Z * Z) := [' + '; '.join(mods) + '].\n'
    s += G.defz('CHORD_QUALITY_MAJOR', csl.CHORD_QUALITY_MAJOR)
    s += G.defz('CHORD_QUALITY_MINOR', csl.CHORD_QUALITY_MINOR)
    s += G.defz('CHORD_QUALITY_AUGMENTED', csl.CHORD_QUALITY_AUGMENTED)
    s += G.defz('CHORD_QUALITY_DIMINISHED', csl.CHORD_QUALITY_DIMINISHED)
    s += G.defz('CHORD_QUALITY_OTHER', csl.CHORD_QUALITY_OTHER)
    if not (melodies_lib.NOTES_PER_OCTAVE == chords_lib.NOTES_PER_OCTAVE == constants.NOTES_PER_OCTAVE):
        raise ValueError('NOTES_PER_OCTAVE differs between modules')
    s += G.defz('NOTES_PER_OCTAVE', melodies_lib.NOTES_PER_OCTAVE)
    s += G.defz('MIN_MIDI_PITCH', melodies_lib.MIN_MIDI_PITCH)
    s += G.defz('MAX_MIDI_PITCH', melodies_lib.MAX_MIDI_PITCH)
    s += G.defz('MELODY_NOTE_OFF', melodies_lib.MELODY_NOTE_OFF)
    s += G.defz('MELODY_NO_EVENT', melodies_lib.MELODY_NO_EVENT)
    s += G.defz('CHORD_SYMBOL', int(sequences_lib.CHORD_SYMBOL))
    s += G.defz('UNKNOWN_PITCH_NAME', int(sequences_lib.UNKNOWN_PITCH_NAME))
    s += G.defzlistlist('NOTE_KEYS', melodies_lib.NOTE_KEYS)
    if chords_lib.NO_CHORD != constants.NO_CHORD or sequences_lib.constants.NO_CHORD != constants.NO_CHORD:
        raise ValueError('NO_CHORD differs between modules')
    s += G.defstring('NO_CHORD', constants.NO_CHORD)
    return s


# ---------------------------------------------------------------- figure glue (render / independent split)
def pc_str(idx, alter):
    return LETTERS[idx] + ('#' * alter if alter >= 0 else 'b' * (-alter))


def render(sym):
    """sym = {'root': [idx, alter], 'kind': i, 'mods': [[mi, deg, open, close]...], 'bass': [idx, alter] | None}"""
    abbrevs, modkeys = _tables()
    out = pc_str(*sym['root']) + abbrevs[sym['kind']]
    for mi, deg, op, cl in sym['mods']:
        out += ('(' if op else '') + modkeys[mi] + str(deg) + (')' if cl else '')
    if sym.get('bass') is not None:
        out += '/' + pc_str(*sym['bass'])
    return out


def code_of(sym):
    b = sym.get('bass')
    c = [sym['root'][0], sym['root'][1], sym['kind']] + ([1, b[0], b[1]] if b is not None else [0, 0, 0])
    for m in sym['mods']:
        c += [m[0], m[1]]
    return c


_REGEX_CACHE = {}


def _my_regexes():
    """The chord grammar rebuilt from the regenerated tables (not note_seq's compiled regexes)."""
    abbrevs, modkeys = _tables()
    key = (tuple(abbrevs), tuple(modkeys))
    if key not in _REGEX_CACHE:
        root = r'[A-G](?:#*|b*)(?![#b])'
        kind = '|'.join(re.escape(a) for a in abbrevs)
        modalt = '|'.join(re.escape(m) for m in modkeys)
        mods = r'(?:\(?(?:%s)[0-9]+\)?)*' % modalt
        bass = '|/%s' % root
        full = re.compile(''.join('(%s)' % p for p in (root, kind, mods, bass)) + '$')
        one = re.compile(r'\(?(%s)([0-9]+)\)?' % modalt)
        _REGEX_CACHE[key] = (full, one)
    return _REGEX_CACHE[key]


def _pc_of(s):
    m = re.match(r'([A-G])(#*|b*)$', s)
    return [LETTERS.index(m.group(1)), len(m.group(2)) * (1 if '#' in m.group(2) else -1)]


def parse_figure(fig):
    """figure string -> code (list of ints) or None when the grammar rejects it."""
    abbrevs, modkeys = _tables()
    full, one = _my_regexes()
    m = full.match(fig)
    if not m:
        return None
    root_s, kind_s, mods_s, bass_s = m.groups()
    code = _pc_of(root_s) + [abbrevs.index(kind_s)]
    code += ([1] + _pc_of(bass_s[1:])) if bass_s else [0, 0, 0]
    while mods_s:
        mm = one.match(mods_s)
        code += [modkeys.index(mm.group(1)), int(mm.group(2))]
        mods_s = mods_s[mm.end():]
    return code


def sym_of_figure(fig):
    """figure string -> structured symbol (with parenthesis flags), by the independent splitter."""
    abbrevs, modkeys = _tables()
    full, one = _my_regexes()
    root_s, kind_s, mods_s, bass_s = full.match(fig).groups()
    sym = {'root': _pc_of(root_s), 'kind': abbrevs.index(kind_s), 'mods': [],
           'bass': _pc_of(bass_s[1:]) if bass_s else None}
    while mods_s:
        mm = one.match(mods_s)
        g = mm.group(0)
        sym['mods'].append([modkeys.index(mm.group(1)), int(mm.group(2)), int(g.startswith('(')), int(g.endswith(')'))])
        mods_s = mods_s[mm.end():]
    return sym


def text_code(t):
    """text of a chord annotation / progression event as the model sees it."""
    if isinstance(t, dict):
        return code_of(t)
    if t == 'N.C.':
        return []
    return [-1, BAD_FIGURES.index(t)]


def text_str(t):
    return render(t) if isinstance(t, dict) else t


def back_code(s):
    """real output string -> model code"""
    from note_seq import constants
    if s == constants.NO_CHORD:
        return []
    c = parse_figure(s)
    return c if c is not None else ['UNPARSEABLE'] + [ord(ch) for ch in s]


# ---------------------------------------------------------------- generators
MOD_DEGREES = [2, 3, 4, 5, 6, 7, 9, 11, 13, 1, 0, 14]


def gen_sym(rng, kind=None, rich=True):
    abbrevs, modkeys = _tables()
    r = rng.random()
    alter = rng.choice([0, 0, 1, -1, 2, -2]) if r < 0.93 else rng.randint(-7, 7)
    sym = {'root': [rng.randrange(7), alter], 'kind': rng.randrange(len(abbrevs)) if kind is None else kind,
           'mods': [], 'bass': None}
    if rich and rng.random() < 0.55:
        for _ in range(rng.choice([1, 1, 2, 3])):
            p = rng.random() < 0.5
            sym['mods'].append([rng.randrange(len(modkeys)), rng.choice(MOD_DEGREES[:9] if rng.random() < 0.85 else MOD_DEGREES),
                                int(p), int(p if rng.random() < 0.9 else not p)])
    if rng.random() < 0.4:
        sym['bass'] = [rng.randrange(7), rng.choice([0, 0, 1, -1, 2, -2, 3, -4])]
    # the rendered figure must split back into exactly this structure (e.g. 'C' + 'b5' reads as 'Cb' + '5')
    if parse_figure(render(sym)) != code_of(sym):
        for m in sym['mods']:
            m[2] = m[3] = 1
        if parse_figure(render(sym)) != code_of(sym):
            # e.g. kind 'm7b5' always reads as 'm7' + 'b5': adopt the structure the grammar sees
            sym = sym_of_figure(render(sym))
    assert parse_figure(render(sym)) == code_of(sym), sym
    return sym


def gen_text(rng, p_nc=0.15, p_bad=0.0):
    r = rng.random()
    if r < p_nc:
        return 'N.C.'
    if r < p_nc + p_bad:
        return rng.choice(BAD_FIGURES)
    return gen_sym(rng)


def shifted_sym(rng, sym, d):
    """The same chord d semitones away, root and bass respelled at random among the spellings with at most two
    accidentals (one of them is the spelling transposition itself produces).  Independent of note_seq."""
    new = copy.deepcopy(sym)
    for part in ('root', 'bass'):
        if new.get(part) is None:
            continue
        want = (_own_pc(*new[part]) + d) % 12
        cands = [[st, al] for st in range(7) for al in (0, 1, -1, 2, -2) if _own_pc(st, al) == want]
        natural = [c for c in cands if abs(c[1]) <= 1]
        new[part] = rng.choice(natural if (natural and rng.random() < 0.8) else cands)
    if parse_figure(render(new)) != code_of(new):
        new = sym_of_figure(render(new))
    return new


def gen_chain(rng, k, n):
    """A progression that itself moves by the interval that is then applied (and by -k, 12-k, ...), with held
    chords, N.C. gaps and fresh chords in between: figure[i+1] is often textually equal to figure[i] transposed."""
    figs = []
    cur = None
    for _ in range(n):
        r = rng.random()
        if cur is None or r < 0.12:
            cur = gen_sym(rng, rich=rng.random() < 0.3)
            if rng.random() < 0.6:
                cur['root'][1] = rng.choice([0, 0, 0, 1, -1])
            if parse_figure(render(cur)) != code_of(cur):
                cur = sym_of_figure(render(cur))
            figs.append(cur)
        elif r < 0.32:
            figs.append(cur)                                   # held chord
        elif r < 0.42:
            figs.append('N.C.')
        else:
            d = rng.choice([k, k, k, k, -k, 12 - k, k - 12, k % 12, 2 * k])
            cur = shifted_sym(rng, cur, d)
            figs.append(cur)
    return figs


def gen_events(rng, n=None):
    n = rng.randint(0, 14) if n is None else n
    style = rng.random()
    lo, hi = (0, 127) if style < 0.3 else (rng.randint(0, 100), 0)
    if hi == 0:
        hi = min(127, lo + rng.randint(0, 40))
    evs = []
    for _ in range(n):
        r = rng.random()
        evs.append(-2 if r < 0.3 else -1 if r < 0.4 else rng.randint(lo, hi))
    # Melody() replaces NOTE_OFF before the first note by NO_EVENT; generate the cleaned form directly
    for i, e in enumerate(evs):
        if e >= 0:
            break
        evs[i] = -2
    return evs


def gen_range(rng):
    r = rng.random()
    if r < 0.12:
        return 0, 128
    if r < 0.2:
        return rng.randint(1, 116), 128                # only min_note differs from its default
    if r < 0.28:
        return 0, rng.randint(12, 127)                 # only max_note differs from its default
    if r < 0.75:
        lo = rng.randint(0, 100)
        return lo, lo + rng.choice([12, 12, 13, 24, 36, 20])
    if r < 0.9:
        lo = rng.randint(-30, 130)
        return lo, lo + rng.randint(-3, 14)          # narrower than an octave / empty: folding may miss the range
    lo = rng.randint(-40, 10)
    return lo, lo + rng.randint(12, 60)


def gen_ctor(rng):
    """constructor arguments of Melody / ChordProgression (None = all defaults)"""
    if rng.random() < 0.5:
        return None
    return [rng.choice([0, 0, 1, 16, 37, 64]), rng.choice([16, 12, 24, 3]), rng.choice([4, 3, 6, 1])]


def gen_key(rng):
    r = rng.random()
    return rng.choice([-13, -1, 12, 14, 23, 100]) if r < 0.1 else rng.randrange(12)


def gen_ns_case(rng, p_bad=0.04):
    d = nsio.gen_desc(rng, max_notes=rng.choice([4, 10, 16]), p_drum=0.25)
    if rng.random() < 0.15:
        d['sub'] = [rng.randint(0, 8) * nsio.QUARTER_SEC, rng.randint(1, 8) * nsio.QUARTER_SEC]
    # pitches over the whole MIDI range, some at the range edges
    r = rng.random()
    if r < 0.2:
        lo, hi = 0, 127
    elif r < 0.32:
        lo, hi = rng.randint(1, 110), 127            # only min_allowed_pitch differs from its default
    elif r < 0.44:
        lo, hi = 0, rng.randint(10, 126)             # only max_allowed_pitch differs from its default
    elif r < 0.85:
        lo = rng.randint(0, 110)
        hi = lo + rng.randint(0, 40)
    else:
        lo, hi = rng.randint(-10, 140), rng.randint(-10, 140)    # may be empty
    k = rng.randint(-127, 127) if rng.random() < 0.4 else rng.randint(-14, 14)
    extreme = rng.random() < 0.1
    if extreme:
        k = rng.choice([127, -127, 126, -126, 0, 1, -1, 128, -128])
    for n in d['notes']:
        r = rng.random()
        if extreme:
            n[0] = rng.choice([0, 127, 1, 126, 0, 127])
        elif r < 0.45:
            n[0] = min(127, max(0, rng.choice([lo - k - 1, lo - k, lo - k + 1, hi - k - 1, hi - k, hi - k + 1])))
        elif r < 0.7:
            n[0] = rng.randint(0, 127)
    texts = []
    for t in d['texts']:
        t = list(t)
        if t[3] == 1:
            t[2] = gen_text(rng, p_nc=0.2, p_bad=p_bad)
        elif rng.random() < 0.15:
            t[2] = rng.choice(['N.C.', 'Cm7', 'H', ''])       # non-chord annotation that looks like a chord
        texts.append(t)
    d['texts'] = texts
    return {'op': 'ns', 'input': {'desc': d, 'k': k, 'lo': lo, 'hi': hi, 'tc': int(rng.random() < 0.8),
                                  'in_place': int(rng.random() < 0.3), 'style': rng.choice([0, 1, 2])}}


def corpus():
    out = []
    abbrevs, modkeys = _tables()
    # every abbreviation once, with and without bass
    for ki in range(len(abbrevs)):
        sym = {'root': [ki % 7, (ki % 5) - 2], 'kind': ki, 'mods': [],
               'bass': [(ki + 3) % 7, (ki % 3) - 1] if ki % 2 else None}
        # ('m7b5' and '-7b5' always read as 'm7' / '-7' + 'b5': use the structure the grammar sees)
        out.append({'op': 'chord', 'input': {'sym': sym_of_figure(render(sym)), 'k': (ki * 5) % 23 - 11}})
    for i, f in enumerate(BAD_FIGURES):
        out.append({'op': 'chord_bad', 'input': {'fig': f, 'k': i - 5}})
    # boundary notes: pitch+k exactly on / one outside the allowed range, drum outside the range
    desc = {'notes': [[60, 100, 0, 1 << 40, 0, 0, 0, 0, 0, 65536 * 3 + 5], [59, 90, 0, 2 << 40, 0, 0, 0, 0, 0, 0],
                      [72, 80, 1 << 39, 3 << 40, 0, 0, 0, 0, 0, 65536], [73, 80, 0, 5 << 40, 0, 0, 0, 0, 0, 0],
                      [120, 70, 0, 4 << 40, 9, 0, 1, 0, 0, 65536 * 2]],
            'tempos': [[0, 120 << 20]], 'tsigs': [[0, 4, 4]], 'ksigs': [[0, 11, 0], [1 << 40, 0, 1]],
            'texts': [[0, 0, {'root': [2, 0], 'kind': 0, 'mods': [], 'bass': None}, 1], [1 << 40, 0, 'N.C.', 1],
                      [2 << 40, 0, 'Cm7', 0]],
            'ccs': [], 'bends': [], 'sects': [], 'total': 6 << 40, 'qsteps': 0, 'spq': 0, 'sps': 0, 'sub': [0, 0],
            'tpq': 220, 'meta': 7}
    for k, lo, hi in [(0, 60, 72), (1, 60, 72), (-1, 60, 72), (12, 0, 127), (-127, 0, 127), (127, 0, 127), (3, 70, 60)]:
        for tc in (1, 0):
            out.append({'op': 'ns', 'input': {'desc': copy.deepcopy(desc), 'k': k, 'lo': lo, 'hi': hi, 'tc': tc,
                                              'in_place': 0}})
    bad = copy.deepcopy(desc)
    bad['texts'].append([3 << 40, 0, 'H', 1])
    out.append({'op': 'ns', 'input': {'desc': bad, 'k': 2, 'lo': 0, 'hi': 127, 'tc': 1, 'in_place': 0}})
    out.append({'op': 'ns', 'input': {'desc': copy.deepcopy(bad), 'k': 2, 'lo': 0, 'hi': 127, 'tc': 0, 'in_place': 0}})
    # melody folds
    for k, lo, hi in [(0, 0, 128), (5, 48, 60), (-5, 48, 60), (40, 48, 72), (-70, 48, 72), (12, 60, 72), (7, 60, 71)]:
        out.append({'op': 'mel', 'input': {'k': k, 'lo': lo, 'hi': hi, 'evs': [-2, 60, -2, -1, 71, 48, 0, 127, -2, 59]}})
    # squash ties of round-half-even: centre difference of exactly +-6, +-18
    for evs, lo, hi, key in [([60, 62, 64], 48, 85, 0), ([60, 62, 64], 61, 72, 0), ([60, -2, 72], 36, 49, 5),
                             ([-2, -2], 48, 84, 0), ([], 48, 84, 3), ([60, 61], 55, 79, None), ([0, 127], 60, 72, 11)]:
        out.append({'op': 'squash', 'input': {'lo': lo, 'hi': hi, 'key': key, 'evs': evs}})
    # progressions that move by the very interval applied (a cached "held chord" must not swallow the next chord)
    for names, k in [(['C', 'G'], 7), (['C', 'D'], 2), (['Am', 'Em'], -5), (['C', 'C', 'G', 'G', 'N.C.', 'D', 'G'], 7),
                     (['F', 'N.C.', 'Bb', 'Bb', 'Eb'], 5), (['G', 'C', 'F'], -7), (['Dm7', 'Em7', 'F#m7'], 14),
                     (['C', 'G', 'C', 'G'], -5), (['E7/G#', 'A7/C#'], 5)]:
        figs = [f if f == 'N.C.' else sym_of_figure(f) for f in names]
        out.append({'op': 'prog', 'input': {'k': k, 'figs': figs}})
        out.append({'op': 'ls_t', 'input': {'k': k, 'lo': 48, 'hi': 84, 'evs': [60 + i for i in range(len(figs))],
                                            'figs': copy.deepcopy(figs)}})
    # squash by +7 (C major melody squashed to G): chords C G must become G D
    out.append({'op': 'ls_s', 'input': {'lo': 48, 'hi': 84, 'key': 7, 'evs': [60, 62, 64, 65, 67, 69, 71, 72],
                                        'figs': [sym_of_figure(f) for f in ['C', 'G', 'C', 'G', 'D', 'D', 'A', 'E']]}})
    # rare but legal shapes: no event list at all vs an empty one, one event, non-default constructor arguments,
    # one-octave and default ranges, values at the ends of the MIDI range
    for evs in (None, [], [0], [127], [-2], [60]):
        for ctor in (None, [16, 12, 3]):
            out.append({'op': 'mel', 'input': {'k': 1, 'lo': 0, 'hi': 128, 'evs': evs, 'ctor': ctor, 'style': 1}})
            out.append({'op': 'mel', 'input': {'k': -1, 'lo': 0, 'hi': 12, 'evs': evs, 'ctor': ctor, 'style': 2}})
            out.append({'op': 'squash', 'input': {'lo': 48, 'hi': 60, 'key': None, 'evs': evs, 'ctor': ctor, 'style': 1}})
            out.append({'op': 'squash', 'input': {'lo': 0, 'hi': 128, 'key': 11, 'evs': evs, 'ctor': ctor, 'style': 0}})
    out.append({'op': 'prog', 'input': {'k': 5, 'figs': [], 'ctor': [8, 12, 3]}})
    out.append({'op': 'prog', 'input': {'k': 5, 'figs': ['N.C.'], 'ctor': None}})
    out.append({'op': 'prog', 'input': {'k': 5, 'figs': [sym_of_figure('C'), sym_of_figure('F'), 'H'], 'ctor': None}})
    empty = {'notes': [], 'tempos': [], 'tsigs': [], 'ksigs': [], 'texts': [], 'ccs': [], 'bends': [], 'sects': [],
             'total': 0, 'qsteps': 0, 'spq': 0, 'sps': 0, 'sub': [0, 0], 'tpq': 220, 'meta': None}
    one = copy.deepcopy(empty)
    one['notes'] = [[0, 1, 0, 0, 0, 0, 0, 0, 0, 0], [127, 127, 0, 1 << 40, 0, 0, 0, 0, 0, 65536]]
    one['total'] = 5 << 40
    one['qinfo_empty'] = True
    one['sub'] = [1 << 40, 2 << 40]
    one['ksigs'] = [[0, 0, 0], [0, 11, 1]]
    one['texts'] = [[0, 0, sym_of_figure('B#'), 1], [0, 0, sym_of_figure('Cb/Fb'), 1], [5 << 40, 0, 'H', 1]]
    for dsc in (empty, one):
        for k, lo, hi in [(0, 0, 127), (127, 0, 127), (-127, 0, 127), (1, 127, 127), (-1, 0, 0), (128, 0, 255)]:
            for tc, ip, style in [(0, 0, 1), (0, 1, 2), (1, 0, 0), (1, 1, 1)]:
                dd = copy.deepcopy(dsc)
                if tc and ip:
                    dd['texts'] = dd['texts'][:2]            # without the ungrammatical figure
                out.append({'op': 'ns', 'input': {'desc': dd, 'k': k, 'lo': lo, 'hi': hi, 'tc': tc,
                                                  'in_place': ip, 'style': style}})
    out.append({'op': 'augment', 'input': {'desc': copy.deepcopy(empty), 'lo': 0, 'hi': 127, 'min_t': -3, 'max_t': 3,
                                           'seed': 1, 'delete': 0, 'stretch': [1.0, 1.0], 'bad': None}})
    out.append({'op': 'clamp', 'input': [-5, 60, 72, 58, 80]})
    out.append({'op': 'clamp', 'input': [12, 60, 72, 58, 80]})
    out.append({'op': 'clamp', 'input': [0, 60, 72, 60, 72]})
    return out


def cases(rng, tier, n=None):
    thorough = tier == 'thorough'
    abbrevs, modkeys = _tables()
    out = []
    # --- pitch-class walk: full grid of the 7 steps x alterations x k, plus large values
    alters = range(-4, 5) if thorough else range(-2, 3)
    ks = range(-26, 27) if thorough else range(-13, 14)
    for st in range(7):
        for al in alters:
            for k in ks:
                out.append({'op': 'tpc', 'input': [st, al, k]})
    for _ in range(3000 if thorough else 200):
        out.append({'op': 'tpc', 'input': [rng.randrange(7), rng.randint(-40, 40), rng.randint(-500, 500)]})
    # --- structured chord symbols
    if thorough:
        for ki in range(len(abbrevs)):
            for st in range(7):
                for al in range(-2, 3):
                    sym = gen_sym(rng, kind=ki)
                    sym['root'] = [st, al]
                    if parse_figure(render(sym)) == code_of(sym):
                        for k in rng.sample(range(-12, 13), 6):
                            out.append({'op': 'chord', 'input': {'sym': sym, 'k': k}})
    if thorough:
        # every one of the 35 root spellings x every abbreviation x every k in -12..12 (no modifications, no bass)
        for ki in range(len(abbrevs)):
            for st in range(7):
                for al in range(-2, 3):
                    sym = sym_of_figure(render({'root': [st, al], 'kind': ki, 'mods': [], 'bass': None}))
                    for k in range(-12, 13):
                        out.append({'op': 'chord', 'input': {'sym': sym, 'k': k}})
    for i in range(150000 if thorough else 2400):
        k = rng.randint(-127, 127) if rng.random() < 0.3 else rng.randint(-13, 13)
        out.append({'op': 'chord', 'input': {'sym': gen_sym(rng, kind=(i % len(abbrevs)) if i < 4 * len(abbrevs) else None),
                                             'k': k}})
    for _ in range(400 if thorough else 40):
        out.append({'op': 'chord_bad', 'input': {'fig': rng.choice(BAD_FIGURES), 'k': rng.randint(-13, 13)}})
    # --- note sequences
    for _ in range(90000 if thorough else 2000):
        out.append(gen_ns_case(rng))
    # --- melodies
    for _ in range(120000 if thorough else 2000):
        lo, hi = gen_range(rng)
        k = rng.randint(-127, 127) if rng.random() < 0.4 else rng.randint(-14, 14)
        out.append({'op': 'mel', 'input': {'k': k, 'lo': lo, 'hi': hi, 'evs': gen_events(rng), 'ctor': gen_ctor(rng),
                                           'style': rng.choice([0, 1, 2])}})
    for _ in range(90000 if thorough else 1600):
        lo, hi = gen_range(rng)
        key = None if rng.random() < 0.1 else gen_key(rng)
        out.append({'op': 'squash', 'input': {'lo': lo, 'hi': hi, 'key': key, 'evs': gen_events(rng),
                                              'ctor': gen_ctor(rng), 'style': rng.choice([0, 1, 2])}})
    # --- progressions and lead sheets
    for _ in range(25000 if thorough else 500):
        nn = rng.randint(0, 6)
        k = rng.randint(-30, 30) if rng.random() < 0.5 else rng.randint(-12, 12)
        if rng.random() < 0.6:
            figs = gen_chain(rng, k, rng.randint(2, 8))
        else:
            figs = [gen_text(rng, p_nc=0.25, p_bad=0.03) for _ in range(nn)]
        out.append({'op': 'prog', 'input': {'k': k, 'figs': figs, 'ctor': gen_ctor(rng)}})
    # --- the same figures under several k in one process, interleaved and repeated (no state between calls)
    for _ in range(4000 if thorough else 120):
        syms = [gen_sym(rng) for _ in range(rng.randint(1, 3))]
        if rng.random() < 0.5:
            syms.append(shifted_sym(rng, syms[0], rng.randint(-12, 12)))
        ks = [rng.randint(-13, 13) for _ in range(rng.randint(2, 5))]
        calls = [[rng.randrange(len(syms)), rng.choice(ks)] for _ in range(rng.randint(3, 9))]
        out.append({'op': 'chord_multi', 'input': {'syms': syms, 'calls': calls}})
    for _ in range(25000 if thorough else 500):
        nn = rng.randint(0, 8)
        k = rng.randint(-30, 30) if rng.random() < 0.5 else rng.randint(-12, 12)
        if rng.random() < 0.6:
            nn = rng.randint(2, 8)
            figs = gen_chain(rng, k, nn)          # for ls_s the interval of the chain is a guess at squash's amount
        else:
            figs = [gen_text(rng, p_nc=0.25, p_bad=0.02) for _ in range(nn)]
        lo, hi = gen_range(rng)
        if rng.random() < 0.5:
            out.append({'op': 'ls_t', 'input': {'k': k, 'lo': lo, 'hi': hi, 'style': rng.choice([0, 1, 2]),
                                                'evs': gen_events(rng, nn), 'figs': figs}})
        else:
            out.append({'op': 'ls_s', 'input': {'lo': lo, 'hi': hi, 'key': gen_key(rng),
                                                'evs': gen_events(rng, nn), 'figs': figs}})
    # --- clamp
    for _ in range(60000 if thorough else 1000):
        lo = rng.randint(0, 100)
        hi = lo + rng.randint(0, 60)
        if rng.random() < 0.8:
            a = rng.randint(lo, hi)
            b = rng.randint(a, hi)
        else:
            a, b = sorted([rng.randint(0, 127), rng.randint(0, 127)])
        out.append({'op': 'clamp', 'input': [rng.randint(-40, 40), a, b, lo, hi]})
    # --- augment_note_sequence (implementation side only: uses `random`)
    for _ in range(10000 if thorough else 250):
        c = gen_ns_case(rng, p_bad=0.0)['input']
        lo = rng.randint(0, 60)
        hi = lo + rng.randint(20, 67)
        for nt in c['desc']['notes']:
            nt[0] = rng.randint(lo, hi)
        mn = rng.randint(-30, 20)
        r = rng.random()
        if r < 0.15:
            lo, hi = 0, 127                                  # defaults (left out of the call)
        delete = int(rng.random() < 0.4)
        if delete:
            for nt in c['desc']['notes']:
                if rng.random() < 0.5:
                    nt[0] = rng.randint(0, 127)              # with deletion allowed the notes may start anywhere
        a = {'desc': c['desc'], 'lo': lo, 'hi': hi, 'min_t': mn, 'max_t': mn + rng.randint(0, 20),
             'seed': rng.randrange(10 ** 6), 'delete': delete,
             'stretch': rng.choice([[1.0, 1.0], [1.0, 1.0], [0.5, 0.5], [2.0, 2.0], [0.5, 2.0], [0.9, 1.1]]),
             'bad': None}
        if rng.random() < 0.1:
            a['bad'] = rng.choice(['stretch', 'pitch', 'transpose'])
            if a['bad'] == 'stretch':
                a['stretch'] = [1.5, 1.25]
            elif a['bad'] == 'pitch':
                a['lo'], a['hi'] = a['hi'] + 1, a['hi']
            else:
                a['min_t'] = a['max_t'] + 1
        out.append({'op': 'augment', 'input': a})
    if n is not None:
        rng.shuffle(out)
        out = out[:n]
    return out


# ---------------------------------------------------------------- implementation
def _exc(e):
    return ['EXC', type(e).__name__]


def _proto(desc):
    d = dict(desc)
    d['texts'] = [[t[0], t[1], text_str(t[2]), t[3]] for t in desc['texts']]
    return nsio.to_proto(d)


def _wire(ns, chord_type, back):
    """to_wire with chord annotation texts as figure codes and the notes as a sorted bag."""
    w = nsio.to_wire(ns)
    w[0] = sorted(w[0])
    w[4] = [[tfun, q, (back(ns.text_annotations[i].text) if ty == chord_type else txt), ty]
            for i, (tfun, q, txt, ty) in enumerate(w[4])]
    return w


def _obs(fig):
    from note_seq import chord_symbols_lib as csl

    def t(f):
        try:
            v = f(fig)
            return ['OK', [int(x) for x in v] if isinstance(v, list) else int(v)]
        except csl.ChordSymbolError as e:
            return _exc(e)
    return [t(csl.chord_symbol_root), t(csl.chord_symbol_bass), t(csl.chord_symbol_pitches), t(csl.chord_symbol_quality)]


def _ctor_kw(ctor):
    return {} if not ctor else {'start_step': ctor[0], 'steps_per_bar': ctor[1], 'steps_per_quarter': ctor[2]}


def _melody(evs, ctor=None, src=None):
    """Melody over the events (None = constructed without an event list); `src` = the very list object to pass"""
    from note_seq import melodies_lib
    m = melodies_lib.Melody((None if evs is None else list(evs)) if src is None else src, **_ctor_kw(ctor))
    assert list(m) == list(evs or [])
    return m


def _progression(figs, ctor=None, src=None):
    from note_seq import chords_lib
    return chords_lib.ChordProgression(list(figs) if src is None else src, **_ctor_kw(ctor))


def _seq_attrs(m):
    return [len(m), m.start_step, m.end_step, m.steps_per_bar, m.steps_per_quarter]


def _mel_transpose(m, a, k=None):
    """Melody.transpose / LeadSheet.transpose with the requested values: positional, by keyword, or (where a value
    is the documented default 0 / 128) left out"""
    k = a['k'] if k is None else k
    style, lo, hi = a.get('style', 0), a['lo'], a['hi']
    if style == 0:
        return m.transpose(k, lo, hi)
    if style == 2:
        return m.transpose(transpose_amount=k, max_note=hi, min_note=lo)
    kw = {}
    if lo != 0:
        kw['min_note'] = lo
    if hi != 128:
        kw['max_note'] = hi
    return m.transpose(k, **kw)


def _mel_squash(m, a):
    style, lo, hi, key = a.get('style', 0), a['lo'], a['hi'], a['key']
    if style == 2:
        return m.squash(max_note=hi, min_note=lo, transpose_to_key=key)
    if style == 1 and key is None:
        return m.squash(lo, hi)
    return m.squash(lo, hi, key)


def _call_transpose_ns(ns, a, in_place=None):
    """transpose_note_sequence with the requested values: positional, by keyword, or (where a value equals the
    documented default 0 / 127 / True / False) left out"""
    from note_seq import sequences_lib
    ip = bool(a['in_place']) if in_place is None else in_place
    style = a.get('style', 0)
    if style == 0:
        return sequences_lib.transpose_note_sequence(ns, a['k'], a['lo'], a['hi'], transpose_chords=bool(a['tc']),
                                                     in_place=ip)
    kw = {}
    if style == 2 or a['lo'] != 0:
        kw['min_allowed_pitch'] = a['lo']
    if style == 2 or a['hi'] != 127:
        kw['max_allowed_pitch'] = a['hi']
    if style == 2 or not a['tc']:
        kw['transpose_chords'] = bool(a['tc'])
    if style == 2 or ip:
        kw['in_place'] = ip
    return sequences_lib.transpose_note_sequence(ns, a['k'], **kw)


def _call_augment(ns, a):
    from note_seq import sequences_lib
    _random.seed(a['seed'])
    kw = {}
    if (a['lo'], a['hi']) != (0, 127):
        kw.update(min_allowed_pitch=a['lo'], max_allowed_pitch=a['hi'])
    if a.get('delete'):
        kw['delete_out_of_range_notes'] = True
    st = a.get('stretch', [1.0, 1.0])
    return sequences_lib.augment_note_sequence(ns, st[0], st[1], a['min_t'], a['max_t'], **kw)


def _ints(xs):
    return [int(x) for x in xs]


def impl(case):
    op, a = case['op'], case['input']
    if op == 'tpc':
        from note_seq import chord_symbols_lib as csl
        st, al, k = a
        s2, a2 = csl._transpose_pitch_class(LETTERS[st], al, k)
        return ['OK', [LETTERS.index(s2), int(a2)], csl._pitch_class_to_midi(LETTERS[st], al),
                csl._pitch_class_to_midi(s2, a2)]
    if op == 'chord':
        from note_seq import chord_symbols_lib as csl
        fig = render(a['sym'])
        try:
            out = csl.transpose_chord_symbol(fig, a['k'])
        except csl.ChordSymbolError as e:
            return _exc(e)
        return ['OK', back_code(out), _obs(fig), _obs(out)]
    if op == 'chord_bad':
        from note_seq import chord_symbols_lib as csl
        try:
            out = csl.transpose_chord_symbol(a['fig'], a['k'])
        except csl.ChordSymbolError as e:
            return _exc(e)
        return ['OK', back_code(out)]
    if op == 'ns':
        from note_seq import sequences_lib, chord_symbols_lib as csl
        ns = _proto(a['desc'])
        try:
            out, deleted = _call_transpose_ns(ns, a)
        except csl.ChordSymbolError as e:
            return _exc(e)
        return ['OK', _wire(out, int(sequences_lib.CHORD_SYMBOL), back_code), int(deleted)]
    if op == 'mel':
        m = _melody(a['evs'], a.get('ctor'))
        _mel_transpose(m, a)
        return _ints(m)
    if op == 'squash':
        m = _melody(a['evs'], a.get('ctor'))
        key0 = int(m.get_major_key())
        amt = _mel_squash(m, a)
        return [int(amt), _ints(m), key0]
    if op == 'chord_multi':
        from note_seq import chord_symbols_lib as csl
        figs = [render(sy) for sy in a['syms']]
        return ['OK', [csl.transpose_chord_symbol(figs[i], k) for i, k in a['calls']]]
    if op == 'prog':
        from note_seq import chords_lib, chord_symbols_lib as csl
        p = _progression([text_str(t) for t in a['figs']], a.get('ctor'))
        try:
            p.transpose(a['k'])
        except csl.ChordSymbolError as e:
            return _exc(e)
        return ['OK', [back_code(f) for f in p]]
    if op in ('ls_t', 'ls_s'):
        from note_seq import chords_lib, lead_sheets_lib, chord_symbols_lib as csl
        ls = lead_sheets_lib.LeadSheet(_melody(a['evs']), chords_lib.ChordProgression([text_str(t) for t in a['figs']]))
        try:
            if op == 'ls_t':
                _mel_transpose(ls, a)
                amt = []
            else:
                amt = [int(ls.squash(a['lo'], a['hi'], a['key']))]
        except csl.ChordSymbolError as e:
            return _exc(e)
        return ['OK'] + amt + [_ints(ls.melody), [back_code(f) for f in ls.chords]]
    if op == 'clamp':
        from note_seq import sequences_lib
        return int(sequences_lib._clamp_transpose(*a))
    if op == 'augment':
        from note_seq import sequences_lib
        ns = _proto(a['desc'])
        before = ns.SerializeToString(deterministic=True)
        try:
            out = _call_augment(ns, a)
        except ValueError as e:
            return _exc(e) + [int(ns.SerializeToString(deterministic=True) == before)]
        return ['OK', [[n.pitch, int(n.is_drum)] for n in out.notes], int(out is ns)]
    raise ValueError(op)


# ---------------------------------------------------------------- model
def _wire_in(desc):
    ns = _proto(desc)
    w = nsio.to_wire(ns)
    w[4] = [[w[4][i][0], w[4][i][1], (text_code(t[2]) if t[3] == 1 else w[4][i][2]), t[3]]
            for i, t in enumerate(desc['texts'])]
    return w


def model_input(case):
    op, a = case['op'], case['input']
    if op == 'tpc':
        return [1] + a
    if op == 'chord':
        return [2, code_of(a['sym']), a['k']]
    if op == 'chord_bad':
        return [2, text_code(a['fig']), a['k']]
    if op == 'ns':
        return [3, _wire_in(a['desc']), a['k'], a['lo'], a['hi'], a['tc']]
    if op == 'mel':
        return [4, a['k'], a['lo'], a['hi'], a['evs'] or []]
    if op == 'squash':
        return [5, a['lo'], a['hi'], [] if a['key'] is None else [a['key']], a['evs'] or []]
    if op == 'prog':
        return [6, a['k'], [text_code(t) for t in a['figs']]]
    if op == 'ls_t':
        return [7, a['k'], a['lo'], a['hi'], a['evs'], [text_code(t) for t in a['figs']]]
    if op == 'ls_s':
        return [8, a['lo'], a['hi'], a['key'], a['evs'], [text_code(t) for t in a['figs']]]
    if op == 'clamp':
        return [9] + a
    return None


def _is_err(m):
    return isinstance(m, list) and len(m) == 2 and m[0] == -1000


def _mobs(o):
    root, bass, pitches, quality = o
    return [['OK', root], ['OK', bass], ['OK', pitches[0]] if pitches else ['EXC', 'ChordSymbolError'],
            ['OK', quality[0]] if quality else ['EXC', 'ChordSymbolError']]


def model_output(case, m):
    op = case['op']
    if op == 'tpc':
        q, mi, mo = m
        if not q:
            return ['EXC', 'NonTermination']
        return ['OK', q, mi, mo[0]]
    if op == 'chord':
        if _is_err(m) or not m[0] or not m[2]:
            return ['EXC', 'ChordSymbolError']
        return ['OK', m[0][0], _mobs(m[1]), _mobs(m[2][0])]
    if op == 'chord_bad':
        if _is_err(m) or not m[0]:
            return ['EXC', 'ChordSymbolError']
        return ['OK', m[0][0]]
    if op == 'ns':
        if _is_err(m):
            return ['EXC', 'ChordSymbolError']
        w = m[1]
        w[0] = sorted(w[0])
        return ['OK', w, m[2]]
    if op == 'mel':
        return m
    if op == 'squash':
        return [m[0], m[1], m[2]]
    if op == 'prog':
        return ['OK', m[0]] if m else ['EXC', 'ChordSymbolError']
    if op in ('ls_t', 'ls_s'):
        if _is_err(m):
            return ['EXC', 'ChordSymbolError']
        return ['OK'] + m[1:]
    if op == 'clamp':
        return m
    raise ValueError(op)


# ---------------------------------------------------------------- oracle: C10's statement on the implementation
NATURAL_PC = {'C': 0, 'D': 2, 'E': 4, 'F': 5, 'G': 7, 'A': 9, 'B': 11}


def _own_pc(idx, alter):
    return (NATURAL_PC[LETTERS[idx]] + alter) % 12


def _chord_relation(fig_in, fig_out, k, where):
    """root, bass and the set of pitch classes move by k mod 12; quality, kind and modifications unchanged."""
    from note_seq import chord_symbols_lib as csl
    # independent reading of both figures (own splitter, music-theory pitch classes of the letters)
    ci, co = parse_figure(fig_in), parse_figure(fig_out)
    if co is None:
        return {'kind': 'transposed-chord-not-in-grammar', 'figure': fig_in, 'k': k, 'out': fig_out, 'where': where}
    if ci is not None:
        if _own_pc(co[0], co[1]) != (_own_pc(ci[0], ci[1]) + k) % 12:
            return {'kind': 'chord-root-not-shifted', 'figure': fig_in, 'k': k, 'out': fig_out, 'where': where}
        if ci[3] != co[3] or (ci[3] and _own_pc(co[4], co[5]) != (_own_pc(ci[4], ci[5]) + k) % 12):
            return {'kind': 'chord-bass-not-shifted', 'figure': fig_in, 'k': k, 'out': fig_out, 'where': where}
        if ci[2] != co[2] or ci[6:] != co[6:]:
            return {'kind': 'chord-kind-or-modifications-changed', 'figure': fig_in, 'k': k, 'out': fig_out,
                    'where': where}
    oi, oo = _obs(fig_in), _obs(fig_out)
    if ci is not None and (oi[0] != ['OK', _own_pc(ci[0], ci[1])] or
                           oi[1] != ['OK', _own_pc(ci[4], ci[5]) if ci[3] else _own_pc(ci[0], ci[1])]):
        return {'kind': 'chord-root-or-bass-misread', 'figure': fig_in, 'got': [oi[0], oi[1]], 'where': where}
    for name, i in (('root', 0), ('bass', 1)):
        if oi[i][0] != 'OK' or oo[i][0] != 'OK' or oo[i][1] != (oi[i][1] + k) % 12:
            return {'kind': 'chord-%s-not-shifted' % name, 'figure': fig_in, 'k': k, 'out': fig_out, 'where': where}
    if oi[2][0] != oo[2][0] or (oi[2][0] == 'OK' and sorted(set(oo[2][1])) != sorted(set((p + k) % 12 for p in oi[2][1]))):
        return {'kind': 'chord-pitches-not-shifted', 'figure': fig_in, 'k': k, 'out': fig_out, 'where': where}
    if oi[3] != oo[3]:
        return {'kind': 'chord-quality-changed', 'figure': fig_in, 'k': k, 'out': fig_out, 'where': where}
    si, so = csl._split_chord_symbol(fig_in), csl._split_chord_symbol(fig_out)
    if si[1:3] != so[1:3] or bool(si[3]) != bool(so[3]):
        return {'kind': 'chord-kind-or-modifications-changed', 'figure': fig_in, 'k': k, 'out': fig_out, 'where': where}
    return None


def _mel_relation(before, after, k, lo, hi, where):
    for i, (b, e) in enumerate(zip(before, after)):
        if b < 0:
            if e != b:
                return {'kind': 'melody-special-event-changed', 'index': i, 'where': where}
        else:
            if (e - b - k) % 12 != 0:
                return {'kind': 'melody-pitch-class-not-shifted', 'index': i, 'event': b, 'got': e, 'k': k, 'where': where}
            if lo <= b + k < hi and e != b + k:
                return {'kind': 'melody-in-range-pitch-not-shifted-by-k', 'index': i, 'event': b, 'got': e, 'k': k,
                        'where': where}
            if hi - lo >= 12 and not (lo <= e < hi):
                return {'kind': 'melody-pitch-outside-range', 'index': i, 'event': b, 'got': e, 'k': k,
                        'range': [lo, hi], 'where': where}
    if len(before) != len(after):
        return {'kind': 'melody-length-changed', 'where': where}
    return None


def _seq_state_checks(events, ctor, make, call, expected, where):
    """No state is shared between event sequences or with the caller's list: the list handed to the constructor and
    a sibling object built from the same list stay as they were, the bookkeeping attributes (length, start/end step,
    steps per bar/quarter) are untouched, and the same call on a fresh object gives the same events again."""
    src = list(events)
    m1 = make(events, ctor, src=src)
    m2 = make(events, ctor, src=src)
    attrs = _seq_attrs(m1)
    try:
        call(m1)
    except Exception as e:  # the caller has already dealt with the rejection paths
        return {'kind': 'second-identical-call-raised', 'where': where, 'exc': type(e).__name__}
    if src != list(events):
        return {'kind': 'callers-event-list-modified', 'where': where}
    if list(m2) != list(events):
        return {'kind': 'sibling-object-modified', 'where': where}
    if _seq_attrs(m1) != attrs:
        return {'kind': 'sequence-attributes-changed', 'where': where, 'before': attrs, 'after': _seq_attrs(m1)}
    if list(m1) != list(expected):
        return {'kind': 'same-call-different-result', 'where': where}
    call(m2)
    if list(m2) != list(expected):
        return {'kind': 'same-call-different-result', 'where': where + ' (sibling, afterwards)'}
    return None


def _figs_relation(figs, outs, k, where):
    if len(figs) != len(outs):
        return {'kind': 'progression-length-changed', 'where': where}
    for f, o in zip(figs, outs):
        if f == 'N.C.':
            if o != 'N.C.':
                return {'kind': 'no-chord-changed', 'where': where}
        else:
            v = _chord_relation(f, o, k, where)
            if v:
                return v
    return None


def oracle(case, io):
    op, a = case['op'], case['input']
    if op == 'tpc':
        st, al, k = a
        from note_seq import chord_symbols_lib as csl
        if io[0] != 'OK' or io[3] != (io[2] + k) % 12 or io[2] != _own_pc(st, al) or io[3] != _own_pc(*io[1]):
            return {'kind': 'pitch-class-not-shifted-by-k', 'step': LETTERS[st], 'alter': al, 'k': k, 'got': io}
        s = csl._pitch_class_to_string(LETTERS[io[1][0]], io[1][1])
        if list(csl._parse_pitch_class(s)) != [LETTERS[io[1][0]], io[1][1]]:
            return {'kind': 'pitch-class-string-does-not-read-back', 'step': LETTERS[st], 'alter': al, 'k': k, 'str': s}
        return None
    if op == 'chord':
        from note_seq import chord_symbols_lib as csl
        fig = render(a['sym'])
        if io[0] != 'OK':
            return {'kind': 'grammatical-chord-rejected', 'figure': fig, 'k': a['k']}
        out = csl.transpose_chord_symbol(fig, a['k'])
        return _chord_relation(fig, out, a['k'], 'transpose_chord_symbol')
    if op == 'chord_bad':
        if io != ['EXC', 'ChordSymbolError']:
            return {'kind': 'ungrammatical-chord-not-rejected', 'figure': a['fig'], 'got': io}
        return None
    if op == 'ns':
        return _oracle_ns(a, io)
    if op == 'mel':
        evs0 = a['evs'] or []
        v = _mel_relation(evs0, io, a['k'], a['lo'], a['hi'], 'Melody.transpose')
        if v:
            return v
        v = _seq_state_checks(evs0, a.get('ctor'), _melody, lambda m: _mel_transpose(m, a), io, 'Melody.transpose')
        if v:
            return v
        if a['lo'] >= 0 and a['hi'] - a['lo'] >= 12:
            # k then -k, and 12, are the identity on pitch classes (and specials)
            for k2, nm in ((-a['k'], 'k-then-minus-k'), (12, 'plus-12')):
                m = _melody(evs0)
                if nm == 'k-then-minus-k':
                    m.transpose(a['k'], a['lo'], a['hi'])
                m.transpose(k2, a['lo'], a['hi'])
                for b, e in zip(evs0, _ints(m)):
                    if (b < 0 and e != b) or (b >= 0 and (e < 0 or (e - b) % 12 != 0)):
                        return {'kind': 'melody-%s-not-identity-on-pitch-classes' % nm, 'event': b, 'got': e}
        return None
    if op == 'chord_multi':
        figs = [render(sy) for sy in a['syms']]
        seen = {}
        for (i, k), out in zip(a['calls'], io[1]):
            v = _chord_relation(figs[i], out, k, 'transpose_chord_symbol (several calls in one process)')
            if v:
                return v
            if seen.setdefault((figs[i], k), out) != out:
                return {'kind': 'same-call-different-result', 'figure': figs[i], 'k': k, 'got': [seen[(figs[i], k)], out]}
        return None
    if op == 'squash':
        amt, evs, key0 = io
        evs0 = a['evs'] or []
        v = _seq_state_checks(evs0, a.get('ctor'), _melody, lambda m: _mel_squash(m, a), evs, 'Melody.squash')
        if v:
            return v
        if not any(0 <= e <= 127 for e in evs0) and a['key'] is not None:
            return None if (amt == 0 and evs == evs0) else {'kind': 'squash-of-empty-melody-changed-it'}
        if a['key'] is not None and (amt - (a['key'] - key0)) % 12 != 0:
            return {'kind': 'squash-amount-not-congruent-to-key-difference', 'amount': amt, 'key': a['key'],
                    'melody_key': key0}
        if a['key'] is None and amt != 0:
            return {'kind': 'squash-without-key-transposed', 'amount': amt}
        return _mel_relation(evs0, evs, amt, a['lo'], a['hi'], 'Melody.squash')
    if op == 'prog':
        figs = [text_str(t) for t in a['figs']]
        bad = any(isinstance(t, str) and t != 'N.C.' for t in a['figs'])
        if io[0] != 'OK':
            if bad:      # exactly the documented class, also when the offending figure comes after valid ones
                return None if io == ['EXC', 'ChordSymbolError'] else {'kind': 'wrong-exception-class', 'got': io}
            return {'kind': 'grammatical-progression-rejected', 'figs': figs}
        if bad:
            return {'kind': 'ungrammatical-chord-not-rejected', 'figs': figs}
        p = _progression(figs, a.get('ctor'))
        p.transpose(a['k'])
        v = _figs_relation(figs, list(p), a['k'], 'ChordProgression.transpose')
        if v:
            return v
        if [back_code(f) for f in p] != io[1]:
            return {'kind': 'same-call-different-result', 'where': 'ChordProgression.transpose'}
        return _seq_state_checks(figs, a.get('ctor'), lambda e, c, src=None: _progression(e, c, src),
                                 lambda q: q.transpose(a['k']), list(p), 'ChordProgression.transpose')
    if op in ('ls_t', 'ls_s'):
        figs = [text_str(t) for t in a['figs']]
        bad = any(isinstance(t, str) and t != 'N.C.' for t in a['figs'])
        if io[0] != 'OK':
            if bad:
                return None if io == ['EXC', 'ChordSymbolError'] else {'kind': 'wrong-exception-class', 'got': io}
            return {'kind': 'grammatical-progression-rejected', 'figs': figs}
        if bad:
            return {'kind': 'ungrammatical-chord-not-rejected', 'figs': figs}
        from note_seq import chords_lib, lead_sheets_lib
        ls = lead_sheets_lib.LeadSheet(_melody(a['evs']), chords_lib.ChordProgression(figs))
        if op == 'ls_t':
            _mel_transpose(ls, a)
            k = a['k']
        else:
            k = int(ls.squash(a['lo'], a['hi'], a['key']))
            if not any(0 <= e <= 127 for e in a['evs']):
                if k != 0:
                    return {'kind': 'squash-of-empty-melody-changed-it'}
        # melody and chords moved by the same k
        v = _mel_relation(a['evs'], _ints(ls.melody), k, a['lo'], a['hi'], 'LeadSheet melody')
        return v or _figs_relation(figs, list(ls.chords), k, 'LeadSheet chords')
    if op == 'clamp':
        t, mn, mx, lo, hi = a
        if lo <= mn <= mx <= hi:
            if not (lo <= mn + io and mx + io <= hi):
                return {'kind': 'clamped-amount-leaves-range', 'args': a, 'got': io}
            if not (min(0, t) <= io <= max(0, t)):
                return {'kind': 'clamped-amount-not-between-zero-and-request', 'args': a, 'got': io}
            want = max(lo - mn, t) if t < 0 else min(hi - mx, t)
            if io != want:
                return {'kind': 'clamped-amount-not-the-nearest-safe', 'args': a, 'got': io}
        return None
    if op == 'augment':
        if a.get('bad'):
            # documented ValueError when a minimum exceeds its maximum; the sequence is left alone
            if io[:2] != ['EXC', 'ValueError']:
                return {'kind': 'augment-inverted-interval-not-rejected', 'which': a['bad'], 'got': io[:2]}
            return None if io[2] else {'kind': 'argument-modified-on-error-path', 'where': 'augment_note_sequence'}
        if io[0] != 'OK':
            return {'kind': 'augment-rejected-legal-arguments', 'got': io}
        if not io[2]:
            return {'kind': 'augment-did-not-return-its-argument'}
        ins = [[n[0], n[6]] for n in a['desc']['notes']]
        outs = io[1]
        if not ins:
            return None if outs == [] else {'kind': 'augment-invented-notes'}
        lo, hi = a['lo'], a['hi']
        if a.get('delete'):
            # some amount in the requested interval explains the result: pitched notes shifted by it, exactly the
            # ones leaving [lo, hi] deleted, drums untouched, order kept
            for amt in range(a['min_t'], a['max_t'] + 1):
                want = [[p, 1] if dr else [p + amt, 0] for p, dr in ins if dr or lo <= p + amt <= hi]
                if want == outs:
                    return None
            return {'kind': 'augment-with-deletion-not-a-transposition-in-the-interval', 'in': ins[:6], 'out': outs[:6],
                    'interval': [a['min_t'], a['max_t']], 'range': [lo, hi]}
        if len(outs) != len(ins):
            return {'kind': 'augment-without-deletion-deleted-notes', 'in': len(ins), 'out': len(outs)}
        shifts = set(o[0] - i[0] for i, o in zip(ins, outs) if not i[1])
        if len(shifts) > 1:
            return {'kind': 'augment-shift-not-uniform', 'shifts': sorted(shifts)}
        if any(o[0] != i[0] for i, o in zip(ins, outs) if i[1]):
            return {'kind': 'augment-moved-a-drum'}
        for i, o in zip(ins, outs):
            if not i[1] and not (lo <= o[0] <= hi):
                return {'kind': 'augment-left-range', 'pitch': o[0]}
        for sft in shifts:
            if not (min(a['min_t'], 0) <= sft <= max(a['max_t'], 0)):
                return {'kind': 'augment-shift-outside-requested-interval', 'shift': sft}
        return None
    return None


def _oracle_ns(a, io):
    from note_seq import sequences_lib, chord_symbols_lib as csl, constants
    d, k, lo, hi, tc = a['desc'], a['k'], a['lo'], a['hi'], bool(a['tc'])
    ns_in = _proto(d)
    before = ns_in.SerializeToString(deterministic=True)
    chord_texts = [t[2] for t in d['texts'] if t[3] == 1]
    bad = any(isinstance(t, str) and t != 'N.C.' for t in chord_texts)
    if bad and tc and io != ['EXC', 'ChordSymbolError']:
        return {'kind': 'ungrammatical-chord-not-rejected' if io[0] == 'OK' else 'wrong-exception-class', 'k': k,
                'got': io[:2] if io[0] != 'OK' else 'OK'}
    try:
        out, deleted = _call_transpose_ns(ns_in, a, in_place=False)
    except csl.ChordSymbolError:
        if ns_in.SerializeToString(deterministic=True) != before:
            return {'kind': 'argument-modified-on-error-path'}
        return None if (bad and tc) else {'kind': 'grammatical-sequence-rejected', 'k': k}
    if ns_in.SerializeToString(deterministic=True) != before:
        return {'kind': 'argument-modified'}
    if bad and tc:
        return {'kind': 'ungrammatical-chord-not-rejected', 'k': k}
    if out is ns_in:
        return {'kind': 'copy-requested-but-argument-returned'}
    # the same call again (this is the second one in this process) gives the same result
    if io != ['OK', _wire(out, int(sequences_lib.CHORD_SYMBOL), back_code), int(deleted)]:
        return {'kind': 'same-call-different-result', 'where': 'transpose_note_sequence', 'k': k}
    ns0 = _proto(d)

    def row(n, pitch=None, keep_name=True):
        return (n.pitch if pitch is None else pitch, n.velocity, n.start_time, n.end_time, n.instrument, n.program,
                n.is_drum, n.quantized_start_step, n.quantized_end_step, n.voice, n.part, n.numerator, n.denominator,
                n.pitch_name if keep_name else 0)
    want = []
    gone = 0
    for n in ns0.notes:
        if n.is_drum:
            want.append(row(n))
        elif lo <= n.pitch + k <= hi:
            want.append(row(n, n.pitch + k, keep_name=False))
        else:
            gone += 1
    got = [row(n) for n in out.notes]
    if sorted(got) != sorted(want):
        extra = sorted(set(got) - set(want))[:1]
        missing = sorted(set(want) - set(got))[:1]
        return {'kind': 'notes-not-shifted-and-filtered', 'k': k, 'range': [lo, hi], 'unexpected': extra,
                'missing': missing, 'count_got': len(got), 'count_want': len(want)}
    if deleted != gone:
        return {'kind': 'deleted-count-wrong', 'k': k, 'range': [lo, hi], 'got': deleted, 'want': gone}
    for f in ('tempos', 'time_signatures', 'control_changes', 'pitch_bends', 'section_annotations'):
        if [x.SerializeToString(deterministic=True) for x in getattr(out, f)] != \
                [x.SerializeToString(deterministic=True) for x in getattr(ns0, f)]:
            return {'kind': 'unrelated-field-changed', 'field': f}
    rest_out, rest_in = nsio.to_wire(out), nsio.to_wire(ns0)
    if rest_out[9:] != rest_in[9:]:
        return {'kind': 'unrelated-field-changed', 'field': 'header/metadata'}
    if len(out.key_signatures) != len(ns0.key_signatures):
        return {'kind': 'key-signature-count-changed'}
    for ko, ki in zip(out.key_signatures, ns0.key_signatures):
        if ko.time != ki.time or ko.mode != ki.mode or ko.key != (ki.key + k) % 12:
            return {'kind': 'key-signature-not-shifted', 'k': k, 'key_in': ki.key, 'key_out': ko.key}
    if tc:
        if len(out.text_annotations) != len(ns0.text_annotations):
            return {'kind': 'annotation-count-changed'}
        for to, ti in zip(out.text_annotations, ns0.text_annotations):
            if to.time != ti.time or to.annotation_type != ti.annotation_type or to.quantized_step != ti.quantized_step:
                return {'kind': 'annotation-time-or-type-changed'}
            if ti.annotation_type == sequences_lib.CHORD_SYMBOL and ti.text != constants.NO_CHORD:
                v = _chord_relation(ti.text, to.text, k, 'transpose_note_sequence')
                if v:
                    return v
            elif to.text != ti.text:
                return {'kind': 'non-chord-annotation-changed', 'text': ti.text, 'got': to.text}
    else:
        keep = [t.SerializeToString(deterministic=True) for t in ns0.text_annotations
                if t.annotation_type != sequences_lib.CHORD_SYMBOL]
        if [t.SerializeToString(deterministic=True) for t in out.text_annotations] != keep:
            return {'kind': 'chord-removal-wrong'}
    ends = [n.end_time for n in out.notes]
    if out.total_time != max([0.0] + ends):
        return {'kind': 'total-time-not-max-kept-end', 'got': out.total_time, 'want': max([0.0] + ends)}
    # everything transposition has no business with is byte-identical (incl. presence of empty sub-messages)

    def others(x):
        c = type(x)()
        c.CopyFrom(x)
        for f in ('notes', 'total_time', 'text_annotations', 'key_signatures'):
            c.ClearField(f)
        return c.SerializeToString(deterministic=True)
    if others(out) != others(ns0):
        return {'kind': 'unrelated-field-changed', 'field': 'some other field or the presence of a sub-message'}
    # in_place=True edits and returns the argument itself, with the same content
    if a['in_place']:
        nsx = _proto(d)
        outx, delx = _call_transpose_ns(nsx, a, in_place=True)
        if outx is not nsx:
            return {'kind': 'in-place-requested-but-copy-returned'}
        if nsx.SerializeToString(deterministic=True) != out.SerializeToString(deterministic=True) or delx != deleted:
            return {'kind': 'in-place-result-differs-from-copy-result'}
    # two-step use: the output transposed back by -k (nothing can be deleted in an unbounded range)
    if deleted == 0:
        back, del2 = sequences_lib.transpose_note_sequence(out, -k, -10 ** 6, 10 ** 6, transpose_chords=tc)
        if del2 != 0 or [(n.pitch, n.is_drum) for n in back.notes] != [(n.pitch, n.is_drum) for n in ns0.notes]:
            return {'kind': 'k-then-minus-k-does-not-restore-the-pitches', 'k': k}
        if [ks.key for ks in back.key_signatures] != [ks.key for ks in ns0.key_signatures]:
            return {'kind': 'k-then-minus-k-does-not-restore-the-keys', 'k': k}
        if tc:
            for tb, ti in zip(back.text_annotations, ns0.text_annotations):
                if ti.annotation_type == sequences_lib.CHORD_SYMBOL and ti.text != constants.NO_CHORD:
                    v = _chord_relation(ti.text, tb.text, 0, 'transpose_note_sequence k then -k')
                    if v:
                        return v
    # the result is a real copy: editing it afterwards does not reach the argument
    snapshot = out.SerializeToString(deterministic=True)
    for n in out.notes:
        n.pitch = (n.pitch + 1) % 128
    out.total_time += 1.0
    del out.text_annotations[:]
    del out.key_signatures[:]
    if ns_in.SerializeToString(deterministic=True) != before:
        return {'kind': 'result-shares-storage-with-argument'}
    del snapshot
    return None


def nontrivial(case, io):
    op, a = case['op'], case['input']
    if op == 'tpc':
        return a[2] % 12 != 0
    if op == 'chord':
        return a['k'] % 12 != 0 and (bool(a['sym']['mods']) or a['sym']['bass'] is not None or a['sym']['root'][1] != 0)
    if op in ('chord_bad',):
        return True
    if op == 'ns':
        return io[0] != 'OK' or io[2] > 0 or any(n[6] for n in a['desc']['notes']) or bool(a['desc']['ksigs'])
    if op == 'chord_multi':
        return len(set(k % 12 for _, k in a['calls'])) > 1
    if op == 'mel':
        return any(e >= 0 and e != b + a['k'] for b, e in zip(a['evs'] or [], io))
    if op == 'squash':
        return io[0] != 0
    if op in ('prog', 'ls_t', 'ls_s'):
        return io[0] != 'OK' or any(isinstance(t, dict) for t in a['figs'])
    if op == 'clamp':
        return io != a[0]
    if op == 'augment':
        return bool(a['desc']['notes']) or bool(a.get('bad'))
    return False


def shrink(case):
    op, a = case['op'], case['input']
    if op in ('ns', 'augment'):
        for d in nsio.shrink_desc(a['desc']):
            c = copy.deepcopy(case)
            c['input']['desc'] = d
            yield c
    elif op in ('mel', 'squash'):
        for i in range(len(a['evs'] or [])):
            c = copy.deepcopy(case)
            del c['input']['evs'][i]
            if not c['input']['evs'] or c['input']['evs'][0] != -1:
                yield c
    elif op == 'chord':
        s = a['sym']
        for i in range(len(s['mods'])):
            c = copy.deepcopy(case)
            del c['input']['sym']['mods'][i]
            if parse_figure(render(c['input']['sym'])) == code_of(c['input']['sym']):
                yield c
        if s['bass'] is not None:
            c = copy.deepcopy(case)
            c['input']['sym']['bass'] = None
            yield c
    elif op == 'prog':
        for i in range(len(a['figs'])):
            c = copy.deepcopy(case)
            del c['input']['figs'][i]
            yield c


META = {
    'level_text': ('Theorems for ALL inputs (not a sample): the pitch-class spelling walk is a homomorphism onto Z/12 for every '
                   'step letter, every alteration and every k in Z (termination of the walk included); transposing a '
                   'structured chord symbol moves root, bass and every pitch class by k mod 12, keeps kind, modifications, '
                   'quality and the error behaviour; transpose_note_sequence equals the declarative filter/map '
                   'specification (exact deletion count, drums/velocities/times untouched, keys (key+k) mod 12, chord '
                   'annotations transposed, total_time = latest kept end) for every sequence, k and range; Melody.transpose '
                   'folds into [min,max) keeping pitch classes whenever max-min >= 12, k then -k and 12 are the identity on '
                   'pitch classes; squash, ChordProgression and LeadSheet agree; _clamp_transpose is safe and the clamped '
                   'amount deletes nothing.'),
    'level_note': ('Trusted: Coq kernel; hand-written models Model/Transpose.v and Model/ChordTranspose.v tied to /repo by a '
                   'differential run (quick ~8k cases) and by tables regenerated from chord_symbols_lib/constants on every run; '
                   'chord figures are modelled after the regex split (lexing and rendering are exercised as glue, not '
                   'modelled); augment_note_sequence (uses random) is only exercised through the oracle.'),
}
