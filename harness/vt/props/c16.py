"""C16 — decoding arbitrary bytes as MIDI fails only with MIDIConversionError.

Two halves (see notes/C16.md):
  * PROVED: everything midi_to_note_sequence does after the PrettyMIDI constructor
    (coq/Model/MidiConvert.v, theorems in coq/Props/C16.v).
  * RUNTIME: bytes -> PrettyMIDI (mido + pretty_midi) is fuzzed here with a
    structure-aware generator in worker subprocesses under RLIMIT_AS and a
    wall-clock limit; on every object that parses the theorem's hypothesis
    pm_inv is evaluated (by this module and by the Coq runner) and the model's
    `convert` is compared with the real conversion.
"""
import hashlib
import json
import os
import queue
import select
import struct
import subprocess
import sys
import threading
import time

ID = 'C16'
USE_VM = False
MEM_LIMIT = 1 << 30           # RLIMIT_AS of a worker (bytes), set after imports
WALL_LIMIT = 90.0             # seconds per case before the worker is killed
N_WORKERS = 4
INT32_MIN, INT32_MAX = -2 ** 31, 2 ** 31 - 1

RULE = ('byte strings: MIDI files synthesised message by message (own SMF writer + mido-written files + the repo '
        'fixtures) then mutated structurally (header fields, chunk lengths, running status, VLQ deltas incl. over-long, '
        'every meta type 0x00-0x7f with out-of-range payloads, data bytes > 127, real-time/sysex bytes) and bytewise '
        '(truncation, splice of two files, flips, inserts, deletes, random bytes); plus directly constructed PrettyMIDI '
        'objects with in- and out-of-range attribute values (op pm) for the model\'s error branches. '
        'non-trivial = the PrettyMIDI constructor accepted the input and the object carries at least one event beyond '
        'the default tempo, or the input has a valid MThd magic and was rejected, or it is an op-pm case; '
        'distinct by canonical input')
ASSUMPTIONS = [
    'bytes -> PrettyMIDI (mido 1.3 parser + pretty_midi loader) is not modelled; it is exercised by the generator and '
    'its result is checked against pm_inv (the theorem hypothesis) on every object that parses',
    'attribute TYPES of a parsed PrettyMIDI object (ints / floats / bools / str) are checked per object by the harness; '
    'the model covers integer and float VALUES only',
    'times and qpm are compared as ordinals of IEEE doubles (the conversion only copies and compares them); NaN never '
    'occurs (checked per object)',
    'protobuf (upb) int32 range check raises ValueError, surrogate strings raise UnicodeEncodeError; re-probed on every run',
    'a worker that exceeds the wall-clock limit or is killed is recorded as RESOURCE (not an exception, so not a '
    'violation of the statement); a MemoryError that escapes midi_to_note_sequence IS counted as a foreign exception',
]
TRUSTED = ['worker pool / RLIMIT_AS / timeout handling in harness/vt/props/c16.py',
           'independent Python evaluation of pm_inv and of result well-formedness (cross-checked against the Coq '
           'boolean definitions pm_invb / c16_wfb through the runner on every modelled case)']
META = {
    'level_text': ('PARTIAL claim. Machine-checked: for every abstract PrettyMIDI object satisfying the boolean invariant '
                   'pm_invb (value ranges that mido/pretty_midi guarantee; non-negative ordered times when resolution > 0; '
                   'no constraint at all on time-signature denominators or key numbers), the post-constructor conversion '
                   'returns a well-formed sequence (0 <= start <= end <= total_time, pitch/velocity in 0..127, all event '
                   'times >= 0) or raises MIDIConversionError, never another exception; exact characterisation of when it '
                   'raises; every hypothesis of pm_invb shown necessary by a witness; the unrepaired code refuted by a witness. '
                   'Tested, not proved: bytes -> PrettyMIDI, by structure-aware fuzzing with the exception class, pm_invb and '
                   'model agreement checked per case.'),
    'level_note': ('partial: proof covers only the conversion after the PrettyMIDI constructor (hand-written model tied by '
                   'differential correspondence on every object that parses plus constructed objects); bytes -> object is '
                   'mido + pretty_midi inside a bare except, fuzzed under RLIMIT_AS/wall-clock limits and invariant-monitored, '
                   'not modelled. Trusted: Coq kernel, extraction, this harness, protobuf failure modes (re-probed each run).'),
}
PM_INV_HYPOTHESES = [
    'resolution <= 2^31-1 (mido: signed 16-bit header field)',
    'every time-signature numerator in int32 (mido: one byte; pretty_midi: > 0)',
    'number of instruments <= 2^31',
    'every instrument program in int32 (mido: 0..127)',
    'no instrument name contains a surrogate code point (pretty_midi decodes latin-1)',
    'every note pitch and velocity in 0..127 (mido data bytes)',
    'every pitch-bend value and control number/value in int32 (mido: 14-bit / 7-bit)',
    'if resolution > 0: every time-signature, key-signature, tempo, pitch-bend, control-change time >= 0 and every '
    'note has 0 <= start <= end (tick table is non-decreasing from 0; pretty_midi.Note rejects end < start)',
    'NOT needed: any bound on the time-signature denominator (2^255 is converted to MIDIConversionError) or on key_number',
    'scope of constructed (op pm) cases: only objects inside pm_ctorb = what pretty_midi\'s TimeSignature / KeySignature / '
    'Note constructors enforce (positive numerator and denominator, key 0..23, their times >= 0, note end >= start); '
    'pm_ctorb is monitored on every object that parses',
]


# =====================================================================================
# small helpers shared by parent and worker
# =====================================================================================
def ford(x):
    """Order-preserving integer of a double (both zeros -> 0).  None for NaN."""
    x = float(x)
    if x != x:
        return None
    b = struct.unpack('>q', struct.pack('>d', x))[0]
    if b < 0:
        b = -(b & 0x7fffffffffffffff)
    return b


def unord(o):
    if o < 0:
        return -struct.unpack('>d', struct.pack('>q', -o))[0]
    return struct.unpack('>d', struct.pack('>q', o))[0]


def case_key(case):
    return hashlib.sha1(json.dumps([case.get('op'), case.get('input')], sort_keys=True).encode()).hexdigest()


EXN_NAMES = {1: 'MIDIConversionError', 2: 'ValueError', 3: 'UnicodeEncodeError'}


# =====================================================================================
# pm_inv and well-formedness, evaluated in Python (mirrors Model/MidiConvert.v; the
# runner returns the Coq values so the two are compared on every modelled case)
# =====================================================================================
def _i32(z):
    return INT32_MIN <= z <= INT32_MAX


def _surr(c):
    return 0xD800 <= c <= 0xDFFF


def pm_inv_py(pm):
    res, tsigs, keys, tempos, insts = pm
    rng_ok = (res <= INT32_MAX and all(_i32(t[1]) for t in tsigs) and len(insts) <= INT32_MAX + 1 and
              all(_i32(i[0]) and not any(_surr(c) for c in i[2]) and
                  all(0 <= n[2] <= 127 and 0 <= n[3] <= 127 for n in i[3]) and
                  all(_i32(b[1]) for b in i[4]) and
                  all(_i32(c[1]) and _i32(c[2]) for c in i[5]) for i in insts))
    time_ok = (all(t[0] >= 0 for t in tsigs) and all(k[0] >= 0 for k in keys) and all(t[0] >= 0 for t in tempos) and
               all(all(0 <= n[0] <= n[1] for n in i[3]) and all(b[0] >= 0 for b in i[4]) and
                   all(c[0] >= 0 for c in i[5]) for i in insts))
    return [int(rng_ok), int(time_ok), int(rng_ok and (res <= 0 or time_ok))]


def pm_ctor_ok(pm):
    """What pretty_midi's own container constructors enforce (TimeSignature: numerator, denominator positive ints,
    time >= 0; KeySignature: 0 <= key_number < 24, time >= 0; Note: end >= start).  Every object the byte parser (or
    any user of the public constructors) can produce satisfies it; a PrettyMIDI object violating it is not something
    midi_to_note_sequence can be asked about, so constructed objects outside it are not generated, not compared and
    not judged.  Mirrors Model/MidiConvert.pm_ctorb; monitored on every object that parses."""
    res, tsigs, keys, tempos, insts = pm
    return (all(t[1] >= 1 and t[2] >= 1 and t[0] >= 0 for t in tsigs) and
            all(0 <= k[1] <= 23 and k[0] >= 0 for k in keys) and
            all(n[0] <= n[1] for i in insts for n in i[3]))


def wf_violations(ns):
    """The property's second sentence evaluated on a real NoteSequence proto (floats, not ordinals)."""
    bad = []
    tt = ns.total_time
    for n in ns.notes:
        if not (0 <= n.start_time):
            bad.append('negative-note-start')
        if not (n.start_time <= n.end_time):
            bad.append('note-end-before-start')
        if not (n.end_time <= tt):
            bad.append('note-end-after-total-time')
        if not (0 <= n.pitch <= 127):
            bad.append('pitch-out-of-range')
        if not (0 <= n.velocity <= 127):
            bad.append('velocity-out-of-range')
    for name, fld in (('tempo', ns.tempos), ('time-signature', ns.time_signatures), ('key-signature', ns.key_signatures),
                      ('control-change', ns.control_changes), ('pitch-bend', ns.pitch_bends),
                      ('text-annotation', ns.text_annotations), ('section-annotation', ns.section_annotations)):
        for e in fld:
            if not (e.time >= 0):
                bad.append('negative-%s-time' % name)
    return sorted(set(bad))


# =====================================================================================
# WORKER side (runs in a subprocess; imports note_seq from PYTHONPATH)
# =====================================================================================
def _canon_seq(ns):
    """NoteSequence proto -> the wire layout of Run/C16.oCseq (times/qpm as ordinals)."""
    from note_seq.protobuf import music_pb2
    from vt import nsio
    notes = [[n.pitch, n.velocity, ford(n.start_time), ford(n.end_time), n.instrument, n.program, int(n.is_drum),
              n.quantized_start_step, n.quantized_end_step, nsio.note_rest(n)] for n in ns.notes]
    tempos = [[ford(t.time), ford(t.qpm)] for t in ns.tempos]
    tsigs = [[ford(t.time), t.numerator, t.denominator] for t in ns.time_signatures]
    ksigs = [[ford(k.time), k.key, k.mode] for k in ns.key_signatures]
    texts = [[ford(a.time), a.quantized_step, [ord(c) for c in a.text], a.annotation_type] for a in ns.text_annotations]
    ccs = [[ford(c.time), c.quantized_step, c.control_number, c.control_value, c.instrument, c.program, int(c.is_drum)]
           for c in ns.control_changes]
    bends = [[ford(b.time), b.bend, b.instrument, b.program, int(b.is_drum)] for b in ns.pitch_bends]
    sects = [[ford(s.time), s.section_id] for s in ns.section_annotations]
    c = music_pb2.NoteSequence()
    c.CopyFrom(ns)
    for f in ('notes', 'tempos', 'time_signatures', 'key_signatures', 'text_annotations', 'control_changes',
              'pitch_bends', 'section_annotations', 'total_time', 'total_quantized_steps', 'quantization_info',
              'subsequence_info', 'ticks_per_quarter', 'instrument_infos', 'source_info'):
        c.ClearField(f)
    rest = c.SerializeToString(deterministic=True)
    rest = int.from_bytes(hashlib.sha1(rest).digest()[:7], 'big') if rest else 0
    # anything in source_info / infos beyond the modelled fields also goes to rest
    si = music_pb2.NoteSequence.SourceInfo()
    si.CopyFrom(ns.source_info)
    si.ClearField('parser')
    si.ClearField('encoding_type')
    if si.SerializeToString(deterministic=True):
        rest ^= 1
    q = ns.quantization_info
    seq = [notes, tempos, tsigs, ksigs, texts, ccs, bends, sects, ford(ns.total_time), ns.total_quantized_steps,
           q.steps_per_quarter, q.steps_per_second,
           [ford(ns.subsequence_info.start_time_offset), ford(ns.subsequence_info.end_time_offset)],
           ns.ticks_per_quarter, rest]
    infos = [[i.instrument, [ord(ch) for ch in i.name]] for i in ns.instrument_infos]
    return [seq, infos, int(ns.source_info.parser), int(ns.source_info.encoding_type)]


_KEEP = [None]


def _call(f, keep=False):
    """-> ['OK', canon, wf_violations] | ['EXC', class, message-prefix].
    The class name 'MIDIConversionError' is reported only for exactly note_seq.midi_io.MIDIConversionError."""
    from note_seq import midi_io
    try:
        ns = f()
    except BaseException as e:  # noqa: the property is about every exception class
        if isinstance(e, (KeyboardInterrupt, SystemExit)):
            raise
        name = type(e).__name__
        if name == 'MIDIConversionError' and type(e) is not midi_io.MIDIConversionError:
            name = 'OTHER-CLASS-NAMED-MIDIConversionError'
        return ['EXC', name, str(e)[:160]]
    from note_seq.protobuf import music_pb2
    if not isinstance(ns, music_pb2.NoteSequence):
        return ['EXC', 'NOT-A-NOTESEQUENCE', type(ns).__name__]
    if keep:
        _KEEP[0] = ns
    return ['OK', _canon_seq(ns), wf_violations(ns)]


def _digest(r, with_message=False):
    """Stable digest of a call result.  For same-process comparisons the CAUSE of a decoding error is included, reduced
    to the class named in 'Midi decoding error <class ...>' (all memory errors identified: where an allocation fails
    under the harness's own RLIMIT_AS depends on heap state, not on note_seq)."""
    import re
    c = ['OK', r[1], r[2]] if r[0] == 'OK' else ['EXC', r[1]]
    if with_message and r[0] == 'EXC':
        m = re.search(r"<class '([^']+)'>", r[2])
        cause = m.group(1).split('.')[-1] if m else ''
        c.append('MemoryError' if 'MemoryError' in cause else cause)
    return hashlib.sha1(json.dumps(c, sort_keys=True).encode()).hexdigest()[:16]


def _is_int(x):
    import numpy as np
    return isinstance(x, (int, np.integer)) and not isinstance(x, (bool, np.bool_))


def _is_float(x):
    import numpy as np
    return isinstance(x, (float, np.floating)) or _is_int(x)


def _pm_record(pm):
    """What midi_to_note_sequence reads from a PrettyMIDI object -> (wire record, list of type problems)."""
    import numpy as np
    prob = []

    def I(x, what):
        if not _is_int(x):
            prob.append('%s:%s' % (what, type(x).__name__))
            return 0
        return int(x)

    def T(x, what):
        if not _is_float(x):
            prob.append('%s:%s' % (what, type(x).__name__))
            return 0
        o = ford(x)
        if o is None:
            prob.append('%s:nan' % what)
            return 0
        return o

    tsigs = [[T(t.time, 'tsig.time'), I(t.numerator, 'tsig.numerator'), I(t.denominator, 'tsig.denominator')]
             for t in pm.time_signature_changes]
    keys = [[T(k.time, 'key.time'), I(k.key_number, 'key.key_number')] for k in pm.key_signature_changes]
    tt, tq = pm.get_tempo_changes()
    if len(tt) != len(tq):
        prob.append('tempo-arrays-differ-in-length')
    tempos = [[T(a, 'tempo.time'), T(b, 'tempo.qpm')] for a, b in zip(tt, tq)]
    insts = []
    for i in pm.instruments:
        if not isinstance(i.name, str):
            prob.append('inst.name:%s' % type(i.name).__name__)
        if not isinstance(i.is_drum, (bool, np.bool_)):
            prob.append('inst.is_drum:%s' % type(i.is_drum).__name__)
        insts.append([I(i.program, 'inst.program'), int(bool(i.is_drum)),
                      [ord(c) for c in i.name] if isinstance(i.name, str) else [],
                      [[T(n.start, 'note.start'), T(n.end, 'note.end'), I(n.pitch, 'note.pitch'),
                        I(n.velocity, 'note.velocity')] for n in i.notes],
                      [[T(b.time, 'bend.time'), I(b.pitch, 'bend.pitch')] for b in i.pitch_bends],
                      [[T(c.time, 'cc.time'), I(c.number, 'cc.number'), I(c.value, 'cc.value')]
                       for c in i.control_changes]])
    return [I(pm.resolution, 'resolution'), tsigs, keys, tempos, insts], sorted(set(prob))


def _build_pm(rec):
    """Construct a PrettyMIDI object exposing exactly the given record (op 'pm')."""
    import types
    import numpy as np
    import pretty_midi
    res, tsigs, keys, tempos, insts = rec

    class FakePM(pretty_midi.PrettyMIDI):
        def get_tempo_changes(self):
            return (np.array([unord(t[0]) for t in tempos], dtype=float),
                    np.array([unord(t[1]) for t in tempos], dtype=float))

    pm = FakePM()
    pm.resolution = res
    NS = types.SimpleNamespace
    pm.time_signature_changes = [NS(time=unord(t[0]), numerator=t[1], denominator=t[2]) for t in tsigs]
    pm.key_signature_changes = [NS(time=unord(k[0]), key_number=k[1]) for k in keys]
    pm.instruments = []
    for prog, drum, name, notes, bends, ccs in insts:
        ins = pretty_midi.Instrument(0, bool(drum), ''.join(chr(c) for c in name))
        ins.program = prog
        ins.notes = [NS(start=unord(n[0]), end=unord(n[1]), pitch=n[2], velocity=n[3]) for n in notes]
        ins.pitch_bends = [NS(time=unord(b[0]), pitch=b[1]) for b in bends]
        ins.control_changes = [NS(time=unord(c[0]), number=c[1], value=c[2]) for c in ccs]
        pm.instruments.append(ins)
    return pm


_IMPORT_MAX_TICK = [None]     # pretty_midi.pretty_midi.MAX_TICK right after `import note_seq.midi_io` (evidence only)


class _inf_tick(object):
    """Harness-side uses of pretty_midi (own parse, reading get_tempo_changes) run with MAX_TICK = inf so that they never
    depend on the module state earlier calls left behind (RLIMIT_AS bounds the tick table instead); the state is put back
    exactly as found, so leaks in note_seq itself stay observable through its results."""
    def __enter__(self):
        import pretty_midi
        self.was = pretty_midi.pretty_midi.MAX_TICK
        pretty_midi.pretty_midi.MAX_TICK = float('inf')

    def __exit__(self, *a):
        import pretty_midi
        pretty_midi.pretty_midi.MAX_TICK = self.was
        return False


def _own_parse(data):
    import io
    import pretty_midi
    with _inf_tick():
        return pretty_midi.PrettyMIDI(io.BytesIO(data))


def _record(pm):
    with _inf_tick():
        return _pm_record(pm)


def _object_checks(pm, out, first):
    """Conversion of a PrettyMIDI OBJECT: argument not modified (also when it raises), a second conversion after the first
    result has been mutated gives the same result, the first result is not changed by the second call."""
    from note_seq import midi_io
    before, _ = _record(pm)
    _KEEP[0] = None
    obj = _call(lambda: midi_io.midi_to_note_sequence(pm), keep=True)
    ns1 = _KEEP[0]
    after, _ = _record(pm)
    prob = []
    if after != before:
        prob.append('argument-object-modified')
    if ns1 is not None:
        snap = ns1.SerializeToString(deterministic=True)
        obj2 = _call(lambda: midi_io.midi_to_note_sequence(pm))
        if ns1.SerializeToString(deterministic=True) != snap:
            prob.append('earlier-result-changed-by-later-call')
        # mutate the first result, convert again
        del ns1.notes[:]
        del ns1.tempos[:]
        ns1.total_time = -1.0
        ns1.ticks_per_quarter = 1
        obj3 = _call(lambda: midi_io.midi_to_note_sequence(pm))
        if obj2 != obj or obj3 != obj:
            prob.append('object-conversion-not-repeatable')
        after2, _ = _record(pm)
        if after2 != before:
            prob.append('argument-object-aliases-result')
    _KEEP[0] = None
    if prob:
        out['state'] = sorted(set(out.get('state', []) + prob))
    return obj


def _file_call(data, name_kind):
    import tempfile
    from note_seq import midi_io
    prefix, suffix = [('c16-', '.mid'), ('c16 sp\u00e9ci\u00e5l \u97f3-', '.MID'), ('c16-', ''), ('c16.-', '.midi.bak')][name_kind % 4]
    fd, path = tempfile.mkstemp(prefix=prefix, suffix=suffix)
    try:
        with os.fdopen(fd, 'wb') as f:
            f.write(data)
        return _call(lambda: midi_io.midi_file_to_note_sequence(path))
    finally:
        try:
            os.unlink(path)
        except OSError:
            pass


def _work_order(req):
    """Several different files decoded in one process in the given order, then in a shuffled order, with every returned
    sequence of the first pass kept alive and re-observed afterwards."""
    import random
    from note_seq import midi_io
    datas = [bytes.fromhex(h) for h in req['input']['hexes']]
    rng = random.Random(req['input']['seed'])
    first, alive = [], []
    for d in datas:
        _KEEP[0] = None
        r = _call(lambda: midi_io.midi_to_note_sequence(d), keep=True)
        first.append(r)
        alive.append((_KEEP[0], _KEEP[0].SerializeToString(deterministic=True) if _KEEP[0] is not None else None))
    _KEEP[0] = None
    mism = []
    order = list(range(len(datas)))
    for pas in range(2):
        rng.shuffle(order)
        for i in order:
            if pas == 1 and i % 3 == 0:
                r = _file_call(datas[i], i)
            else:
                r = _call(lambda: midi_io.midi_to_note_sequence(datas[i]))
            if _digest(r, True) != _digest(first[i], True) and not any(
                    x[0] == 'EXC' and 'MemoryError' in x[2] for x in (r, first[i])):
                # (allocation failures under the harness's RLIMIT_AS depend on heap state, e.g. on exception objects
                #  still referenced from earlier calls; a MemoryError turned into MIDIConversionError is compliant)
                mism.append([i, first[i][:2] if first[i][0] == 'EXC' else ['OK'], r[:3] if r[0] == 'EXC' else ['OK'], pas])
    changed = [i for i, (ns, snap) in enumerate(alive) if ns is not None and ns.SerializeToString(deterministic=True) != snap]
    return {'op': 'order',
            'results': [[r[0], r[1] if r[0] == 'EXC' else '', r[2], _digest(r)] for r in first],   # r[2]: wf list | message
            'mismatches': mism[:5], 'alive_changed': changed[:5]}


def _work(req):
    import io
    import pretty_midi
    from note_seq import midi_io
    op = req['op']
    out = {'op': op}
    if op == 'order':
        return _work_order(req)
    if op == 'pm':
        pm = _build_pm(req['input'])
        out['res'] = _object_checks(pm, out, True)
        out['parsed'] = True
        out['pm'] = req['input']
        out['types'] = []
        return out
    inp = req['input']
    data = bytes.fromhex(inp['hex'])
    _KEEP[0] = None
    out['res'] = _call(lambda: midi_io.midi_to_note_sequence(data), keep=True)
    ns_first = _KEEP[0]
    snap_first = ns_first.SerializeToString(deterministic=True) if ns_first is not None else None
    _KEEP[0] = None
    try:
        pm = _own_parse(data)
    except BaseException as e:  # noqa
        if isinstance(e, (KeyboardInterrupt, SystemExit)):
            raise
        out['parsed'] = False
        out['parse_exc'] = type(e).__name__
        pm = None
    if pm is not None:
        out['parsed'] = True
        out['pm'], out['types'] = _record(pm)
        obj = _object_checks(pm, out, False)
        out['obj'] = 'same' if obj == out['res'] else obj
        del pm
    if inp.get('file'):
        fres = _file_call(data, len(data))
        out['file'] = 'same' if fres == out['res'] else fres
    if inp.get('repeat'):
        # (B)(i): the same argument twice in one process, after other calls happened in between
        rres = _call(lambda: midi_io.midi_to_note_sequence(data))
        out['repeat'] = 'same' if rres == out['res'] else rres
    if inp.get('twostep') and ns_first is not None:
        # (C) input that is the OUTPUT of an earlier operation: NoteSequence -> note_seq's own MIDI writer -> decode again
        try:
            pm2 = midi_io.note_sequence_to_pretty_midi(ns_first)
            bio = io.BytesIO()
            pm2.write(bio)
            exported = bio.getvalue()
        except BaseException as e:  # noqa: the export is C03's subject, not C16's
            if isinstance(e, (KeyboardInterrupt, SystemExit)):
                raise
            out['twostep'] = ['EXPORT-FAILED', type(e).__name__]
            exported = None
        if exported is not None:
            r2 = _call(lambda: midi_io.midi_to_note_sequence(exported))
            r3 = _call(lambda: midi_io.midi_to_note_sequence(pm2))
            out['twostep'] = [r if r[0] == 'EXC' else ['OK', None, r[2]] for r in (r2, r3)]
    if ns_first is not None and ns_first.SerializeToString(deterministic=True) != snap_first:
        out['state'] = sorted(set(out.get('state', []) + ['earlier-result-changed-by-later-call']))
    return out


def _probe_protobuf():
    """Re-establish the protobuf failure modes the model assumes."""
    from note_seq.protobuf import music_pb2
    s = music_pb2.NoteSequence()
    ts = s.time_signatures.add()
    got = []
    for v in (INT32_MAX, INT32_MIN, INT32_MAX + 1, INT32_MIN - 1, 2 ** 255):
        try:
            ts.numerator = v
            got.append('ok')
        except Exception as e:  # noqa
            got.append(type(e).__name__)
    ii = s.instrument_infos.add()
    for v in ('a\x00\xff', '\ud800'):
        try:
            ii.name = v
            got.append('ok')
        except Exception as e:  # noqa
            got.append(type(e).__name__)
    k = s.key_signatures.add()
    for v in range(12):
        k.key = v
    return got


PROBE_EXPECT = ['ok', 'ok', 'ValueError', 'ValueError', 'ValueError', 'ok', 'UnicodeEncodeError']


def worker_main():
    import resource
    import warnings
    warnings.filterwarnings('ignore')
    out_fd = os.dup(1)
    devnull = os.open(os.devnull, os.O_WRONLY)
    os.dup2(devnull, 1)
    os.dup2(devnull, 2)
    out = os.fdopen(out_fd, 'w')
    import numpy  # noqa
    import pretty_midi  # noqa
    from note_seq import midi_io  # noqa
    _IMPORT_MAX_TICK[0] = pretty_midi.pretty_midi.MAX_TICK
    resource.setrlimit(resource.RLIMIT_AS, (MEM_LIMIT, MEM_LIMIT))
    for line in sys.stdin:
        line = line.strip()
        if not line:
            continue
        req = json.loads(line)
        if req.get('op') == 'probe':
            resp = {'probe': _probe_protobuf(), 'max_tick': float(pretty_midi.pretty_midi.MAX_TICK)}
        else:
            try:
                resp = _work(req)
            except MemoryError:
                resp = {'resource': 'harness-MemoryError'}
        out.write(json.dumps(resp) + '\n')
        out.flush()


# =====================================================================================
# PARENT side: worker pool
# =====================================================================================
class Worker(object):
    def __init__(self):
        self.p = None

    def start(self):
        self.p = subprocess.Popen([sys.executable, '-W', 'ignore', '-m', 'vt.props.c16', '--worker'],
                                  stdin=subprocess.PIPE, stdout=subprocess.PIPE, stderr=subprocess.DEVNULL,
                                  env=dict(os.environ), bufsize=0)
        self.buf = b''
        pr = self._roundtrip({'op': 'probe'}, 120.0)
        if 'probe' not in pr:
            self.stop()
            raise RuntimeError('C16 worker cannot start (note_seq / pretty_midi import failed?): %r' % (pr,))
        _STATS['probe'] = pr

    def stop(self):
        if self.p is not None:
            try:
                self.p.kill()
                self.p.wait(timeout=10)
            except Exception:  # noqa
                pass
            for f in (self.p.stdin, self.p.stdout):
                try:
                    f.close()
                except Exception:  # noqa
                    pass
            self.p = None

    def call(self, req, timeout=WALL_LIMIT):
        if self.p is None or self.p.poll() is not None:
            self.stop()
            self.start()
        return self._roundtrip(req, timeout)

    def _roundtrip(self, req, timeout):
        try:
            self.p.stdin.write((json.dumps(req) + '\n').encode())
            self.p.stdin.flush()
        except (BrokenPipeError, OSError):
            self.stop()
            return {'resource': 'crash'}
        deadline = time.time() + timeout
        while b'\n' not in self.buf:
            left = deadline - time.time()
            if left <= 0:
                self.stop()
                return {'resource': 'timeout'}
            r, _, _ = select.select([self.p.stdout], [], [], min(left, 1.0))
            if r:
                chunk = os.read(self.p.stdout.fileno(), 1 << 20)
                if not chunk:
                    rc = self.p.poll()
                    self.stop()
                    return {'resource': 'crash', 'rc': rc}
                self.buf += chunk
        line, self.buf = self.buf.split(b'\n', 1)
        return json.loads(line)


_CACHE = {}          # case key -> worker response
_PENDING = {}        # case key -> case (registered by corpus()/cases(), not yet run)
_SINGLE = [None]
_STATS = {'probe': None}


_GENS = {}


def _gen_class(c):
    g = c.get('gen', '?')
    for pre in ('corpus', 'bigtick', 'sweep'):
        if g.startswith(pre):
            return pre + ('-pm' if c['op'] == 'pm' else '')
    return g


def _register(cs):
    for c in cs:
        if _skipped(c):
            continue
        k = case_key(c)
        if k not in _PENDING and k not in _CACHE:
            _GENS[_gen_class(c)] = _GENS.get(_gen_class(c), 0) + 1
        _PENDING.setdefault(k, c)
    return cs


def _run_batch():
    todo = [(k, c) for k, c in _PENDING.items() if k not in _CACHE]
    _PENDING.clear()
    if not todo:
        return
    q = queue.Queue()
    # expensive cases first so that they overlap with the cheap ones
    todo.sort(key=lambda kc: -len(kc[1]['input'].get('hex', '')) if kc[1]['op'] == 'bytes' else 0)
    fresh = [kc for kc in todo if kc[1]['op'] == 'order' and kc[1]['input'].get('fresh')]
    todo = [kc for kc in todo if not (kc[1]['op'] == 'order' and kc[1]['input'].get('fresh'))]
    slow = [kc for kc in todo if kc[1].get('gen', '').startswith('bigtick')]
    rest = [kc for kc in todo if not kc[1].get('gen', '').startswith('bigtick')]
    for kc in slow + rest:
        q.put(kc)
    lock = threading.Lock()

    errors = []

    def loop(first):
        w = Worker()
        try:
            while True:
                try:
                    k, c = q.get_nowait()
                except queue.Empty:
                    return
                r = w.call({'op': c['op'], 'input': c['input']})
                with lock:
                    _CACHE[k] = r
        except Exception as e:  # noqa: reported by the caller (fail closed)
            errors.append(e)
        finally:
            w.stop()

    def fresh_loop(kc):
        # a group that must start in a process that has not decoded anything yet
        w = Worker()
        try:
            r = w.call({'op': kc[1]['op'], 'input': kc[1]['input']}, timeout=3 * WALL_LIMIT)
            with lock:
                _CACHE[kc[0]] = r
        except Exception as e:  # noqa
            errors.append(e)
        finally:
            w.stop()

    n = min(N_WORKERS, max(1, len(todo) // 8))
    ts = [threading.Thread(target=fresh_loop, args=(kc,)) for kc in fresh] + \
        [threading.Thread(target=loop, args=(i == 0,)) for i in range(n)]
    for t in ts:
        t.start()
    for t in ts:
        t.join()
    if errors:
        raise errors[0]


def _response(case):
    k = case_key(case)
    if k in _CACHE:
        return _CACHE[k]
    if k in _PENDING:
        _run_batch()
        if k in _CACHE:
            return _CACHE[k]
    if case['op'] == 'order' and case['input'].get('fresh'):
        w = Worker()
        try:
            r = w.call({'op': case['op'], 'input': case['input']}, timeout=3 * WALL_LIMIT)
        finally:
            w.stop()
        _CACHE[k] = r
        return r
    if _SINGLE[0] is None:
        _SINGLE[0] = Worker()
        import atexit
        atexit.register(_SINGLE[0].stop)
    r = _SINGLE[0].call({'op': case['op'], 'input': case['input']})
    _CACHE[k] = r
    return r


# =====================================================================================
# property module API
# =====================================================================================
def gen_coq():
    from vt import coqgen as G
    from google.protobuf.descriptor import FieldDescriptor as F
    from note_seq.protobuf import music_pb2
    NS = music_pb2.NoteSequence
    # fail closed if a field the model treats as int32 / double / string / bool / enum changed type in music.proto
    expect = {
        (NS, 'ticks_per_quarter'): F.CPPTYPE_INT32, (NS, 'total_time'): F.CPPTYPE_DOUBLE,
        (NS.TimeSignature, 'time'): F.CPPTYPE_DOUBLE, (NS.TimeSignature, 'numerator'): F.CPPTYPE_INT32,
        (NS.TimeSignature, 'denominator'): F.CPPTYPE_INT32,
        (NS.KeySignature, 'time'): F.CPPTYPE_DOUBLE, (NS.KeySignature, 'key'): F.CPPTYPE_ENUM,
        (NS.KeySignature, 'mode'): F.CPPTYPE_ENUM,
        (NS.Tempo, 'time'): F.CPPTYPE_DOUBLE, (NS.Tempo, 'qpm'): F.CPPTYPE_DOUBLE,
        (NS.InstrumentInfo, 'instrument'): F.CPPTYPE_INT32, (NS.InstrumentInfo, 'name'): F.CPPTYPE_STRING,
        (NS.Note, 'instrument'): F.CPPTYPE_INT32, (NS.Note, 'program'): F.CPPTYPE_INT32,
        (NS.Note, 'start_time'): F.CPPTYPE_DOUBLE, (NS.Note, 'end_time'): F.CPPTYPE_DOUBLE,
        (NS.Note, 'pitch'): F.CPPTYPE_INT32, (NS.Note, 'velocity'): F.CPPTYPE_INT32, (NS.Note, 'is_drum'): F.CPPTYPE_BOOL,
        (NS.PitchBend, 'instrument'): F.CPPTYPE_INT32, (NS.PitchBend, 'program'): F.CPPTYPE_INT32,
        (NS.PitchBend, 'time'): F.CPPTYPE_DOUBLE, (NS.PitchBend, 'bend'): F.CPPTYPE_INT32,
        (NS.PitchBend, 'is_drum'): F.CPPTYPE_BOOL,
        (NS.ControlChange, 'instrument'): F.CPPTYPE_INT32, (NS.ControlChange, 'program'): F.CPPTYPE_INT32,
        (NS.ControlChange, 'time'): F.CPPTYPE_DOUBLE, (NS.ControlChange, 'control_number'): F.CPPTYPE_INT32,
        (NS.ControlChange, 'control_value'): F.CPPTYPE_INT32, (NS.ControlChange, 'is_drum'): F.CPPTYPE_BOOL,
    }
    for (msg, fld), ty in expect.items():
        got = msg.DESCRIPTOR.fields_by_name[fld].cpp_type
        if got != ty:
            raise TypeError('music.proto: %s.%s has cpp_type %r, model assumes %r' % (msg.DESCRIPTOR.name, fld, got, ty))
    keys = NS.KeySignature.Key.values()
    if sorted(set(keys)) != list(range(12)):
        raise TypeError('KeySignature.Key enum is not 0..11: %r' % (keys,))
    s = G.HEADER
    s += G.defz('INT32_MIN', INT32_MIN)
    s += G.defz('INT32_MAX', INT32_MAX)
    s += G.defz('KS_MAJOR', int(NS.KeySignature.MAJOR))
    s += G.defz('KS_MINOR', int(NS.KeySignature.MINOR))
    s += G.defz('SRC_PRETTY_MIDI', int(NS.SourceInfo.PRETTY_MIDI))
    s += G.defz('ENC_MIDI', int(NS.SourceInfo.MIDI))
    return s


# ------------------------------------------------------------------ SMF synthesis
def vlq(n, pad=0):
    """Variable-length quantity; pad > 0 prepends that many 0x80 continuation bytes (over-long encoding)."""
    n = int(n)
    out = [n & 0x7f]
    n >>= 7
    while n:
        out.append((n & 0x7f) | 0x80)
        n >>= 7
    out += [0x80] * pad
    return bytes(reversed(out))


def meta(t, payload, length=None):
    return bytes([0xff, t & 0xff]) + vlq(len(payload) if length is None else length) + bytes(payload)


EOT = meta(0x2f, b'')


def chunk(magic, body, length=None):
    return magic + struct.pack('>I', (len(body) if length is None else length) & 0xffffffff) + body


def header(fmt, ntrk, div, hlen=6, extra=b'', magic=b'MThd'):
    return magic + struct.pack('>I', hlen & 0xffffffff) + struct.pack('>HHH', fmt & 0xffff, ntrk & 0xffff, div & 0xffff) + extra


def track_bytes(events, running=False, eot=True):
    """events: list of (delta-bytes-or-int, message bytes)."""
    out = bytearray()
    last = None
    for d, m in events:
        out += d if isinstance(d, (bytes, bytearray)) else vlq(d)
        if running and m and 0x80 <= m[0] < 0xf0 and m[0] == last:
            out += m[1:]
        else:
            out += m
        if m:
            last = m[0] if 0x80 <= m[0] < 0xf0 else (None if m[0] in (0xf0, 0xf7, 0xff) else last)
    if eot:
        out += b'\x00' + EOT
    return bytes(out)


KNOWN_META = [0x00, 0x01, 0x02, 0x03, 0x04, 0x05, 0x06, 0x07, 0x08, 0x09, 0x20, 0x21, 0x2f, 0x51, 0x54, 0x58, 0x59, 0x7f]


def rand_meta(rng, valid=True):
    """One meta event; valid=False draws type from all of 0..127 and payloads/lengths out of range."""
    if valid:
        t = rng.choice([0x01, 0x03, 0x05, 0x06, 0x51, 0x51, 0x58, 0x58, 0x59, 0x59, 0x20, 0x21, 0x54, 0x00, 0x7f, 0x04])
        if t == 0x51:
            us = rng.choice([500000, 250000, 1000000, rng.randint(1, 0xffffff), 1, 0xffffff, 60000000 // rng.randint(20, 300)])
            return meta(t, us.to_bytes(3, 'big'))
        if t == 0x58:
            return meta(t, bytes([rng.choice([1, 2, 3, 4, 5, 6, 7, 9, 12, 255, rng.randint(1, 255)]),
                                  rng.choice([0, 1, 2, 3, 4, 5, 6, rng.randint(0, 30)]), 24, 8]))
        if t == 0x59:
            return meta(t, bytes([rng.randint(-7, 7) & 0xff, rng.randint(0, 1)]))
        if t == 0x20:
            return meta(t, bytes([rng.randint(0, 15)]))
        if t == 0x21:
            return meta(t, bytes([rng.randint(0, 127)]))
        if t == 0x54:
            return meta(t, bytes([rng.randint(0, 23), rng.randint(0, 59), rng.randint(0, 59), rng.randint(0, 29), rng.randint(0, 99)]))
        if t == 0x00:
            return meta(t, struct.pack('>H', rng.randint(0, 65535)))
        txt = bytes(rng.choice([rng.randint(32, 126), rng.randint(0, 255)]) for _ in range(rng.randint(0, 12)))
        return meta(t, txt)
    t = rng.choice(KNOWN_META + [rng.randint(0, 127), rng.randint(0, 127), 0x58, 0x59, 0x51])
    mode = rng.random()
    if t == 0x58 and mode < 0.6:
        num = rng.choice([0, 1, 4, 255, rng.randint(0, 255)])
        den = rng.choice([255, 31, 32, 30, 63, 64, 128, 200, rng.randint(0, 255)])
        p = bytes([num, den, rng.randint(0, 255), rng.randint(0, 255)])
        return meta(t, p[:rng.choice([4, 4, 4, 3, 2, 0])] + (b'\x00' * rng.choice([0, 0, 0, 1, 4])))
    if t == 0x59 and mode < 0.6:
        sf = rng.choice([8, 9, 127, 128, 0xf8, 0xf7, 0x80, rng.randint(0, 255)])
        mi = rng.choice([0, 1, 2, 255, rng.randint(0, 255)])
        p = bytes([sf, mi])
        return meta(t, p[:rng.choice([2, 2, 2, 1, 0])] + (b'\x00' * rng.choice([0, 0, 1, 3])))
    if t == 0x51 and mode < 0.6:
        p = rng.choice([b'\x00\x00\x00', b'\xff\xff\xff', b'\x00\x00\x01', b'\x00\x00', b'\x07\xa1\x20\x00', b''])
        return meta(t, p)
    n = rng.choice([0, 1, 2, 3, 5, 8, 200])
    payload = bytes(rng.randint(0, 255) for _ in range(n))
    if mode > 0.85:
        return meta(t, payload, length=rng.choice([n + 1, n + 100, 0x0fffffff, max(0, n - 1), 0x7f]))
    return meta(t, payload)


def rand_channel_events(rng, n, max_delta=480, bad=0.0):
    """A plausible stream of channel messages: overlapping notes, note-on velocity 0, ccs / bends before the first
    note (stragglers), program changes, drums on channel 9.  bad = probability of an out-of-range data byte."""
    ev = []
    open_notes = []
    chans = [rng.randint(0, 15) for _ in range(rng.randint(1, 3))] + ([9] if rng.random() < 0.3 else [])

    def db(lo=0, hi=127):
        return rng.randint(128, 255) if rng.random() < bad else rng.randint(lo, hi)

    def delta():
        r = rng.random()
        return 0 if r < 0.35 else rng.randint(1, 10) if r < 0.6 else rng.randint(1, max_delta)
    for _ in range(n):
        ch = rng.choice(chans)
        r = rng.random()
        if r < 0.40:
            p = rng.choice([db(), 60, 36, rng.choice(open_notes)[1] if open_notes else 64])
            ev.append((delta(), bytes([0x90 | ch, p, db(1, 127)])))
            open_notes.append((ch, p))
        elif r < 0.70 and open_notes:
            c2, p = open_notes.pop(rng.randrange(len(open_notes)))
            if rng.random() < 0.5:
                ev.append((delta(), bytes([0x80 | c2, p, db()])))
            else:
                ev.append((delta(), bytes([0x90 | c2, p, 0])))
        elif r < 0.78:
            ev.append((delta(), bytes([0xc0 | ch, db()])))
        elif r < 0.88:
            ev.append((delta(), bytes([0xb0 | ch, rng.choice([64, 7, 1, db()]), db()])))
        elif r < 0.94:
            ev.append((delta(), bytes([0xe0 | ch, db(), db()])))
        elif r < 0.96:
            ev.append((delta(), bytes([0xa0 | ch, db(), db()])))
        elif r < 0.98:
            ev.append((delta(), bytes([0xd0 | ch, db()])))
        else:
            body = bytes(rng.randint(0, 127) for _ in range(rng.randint(0, 6)))
            ev.append((delta(), b'\xf0' + vlq(len(body) + 1) + body + b'\xf7'))
    for c2, p in open_notes:
        if rng.random() < 0.8:
            ev.append((delta(), bytes([0x80 | c2, p, 0])))
    return ev


def synth(rng, knobs=None):
    """A file synthesised message by message.  Returns dict(fmt, ntrk, div, tracks=[bytes])."""
    k = knobs or {}
    div = k.get('div', rng.choice([24, 96, 120, 220, 384, 480, 960, 1, 32767, rng.randint(1, 32767)]))
    ntr = k.get('ntr', rng.choice([1, 1, 2, 3, 4]))
    fmt = k.get('fmt', 0 if ntr == 1 and rng.random() < 0.5 else 1)
    tracks = []
    for ti in range(ntr):
        ev = []
        if rng.random() < 0.6:
            ev.append((0, meta(0x03, bytes(rng.choice([rng.randint(65, 122), rng.randint(128, 255)]) for _ in range(rng.randint(0, 8))))))
        nmeta = rng.randint(0, 5) if ti == 0 or rng.random() < 0.2 else 0
        chan = rand_channel_events(rng, k.get('nev', rng.randint(0, 40)), bad=k.get('bad_data', 0.0))
        metas = [(rng.choice([0, 0, rng.randint(0, 960)]), rand_meta(rng, valid=not k.get('bad_meta', False) or rng.random() < 0.3))
                 for _ in range(nmeta + k.get('extra_meta', 0))]
        # interleave metas into the channel stream
        for m in metas:
            chan.insert(rng.randint(0, len(chan)), m)
        ev += chan
        tracks.append(track_bytes(ev, running=rng.random() < k.get('running', 0.4), eot=rng.random() > k.get('no_eot', 0.03)))
    return {'fmt': fmt, 'ntrk': ntr, 'div': div, 'tracks': tracks}


def assemble(f, **over):
    d = dict(f)
    d.update(over)
    out = header(d['fmt'], d['ntrk'], d['div'], d.get('hlen', 6), d.get('hextra', b''), d.get('hmagic', b'MThd'))
    for i, t in enumerate(d['tracks']):
        tl = d.get('tlen', {}).get(i)
        out += chunk(d.get('tmagic', {}).get(i, b'MTrk'), t, tl)
    return out + d.get('trailer', b'')


def mido_file(rng):
    """A valid file written by mido itself."""
    import io
    import mido
    mf = mido.MidiFile(type=rng.choice([0, 1, 1]), ticks_per_beat=rng.choice([96, 220, 480, 960]))
    ntr = 1 if mf.type == 0 else rng.randint(1, 3)
    for ti in range(ntr):
        tr = mido.MidiTrack()
        mf.tracks.append(tr)
        if rng.random() < 0.7:
            tr.append(mido.MetaMessage('track_name', name='t%d\xe9' % ti, time=0))
        if ti == 0:
            for _ in range(rng.randint(0, 3)):
                tr.append(mido.MetaMessage('set_tempo', tempo=rng.randint(200000, 1500000), time=rng.choice([0, 0, rng.randint(1, 2000)])))
            for _ in range(rng.randint(0, 2)):
                tr.append(mido.MetaMessage('time_signature', numerator=rng.randint(1, 12), denominator=rng.choice([1, 2, 4, 8, 16, 32]),
                                           time=rng.choice([0, rng.randint(1, 2000)])))
            for _ in range(rng.randint(0, 2)):
                tr.append(mido.MetaMessage('key_signature', key=rng.choice(['C', 'Am', 'F#', 'Ebm', 'Cb', 'A#m', 'Db', 'G#m']),
                                           time=rng.choice([0, rng.randint(1, 2000)])))
        ch = rng.choice([0, 1, 9])
        if rng.random() < 0.7:
            tr.append(mido.Message('program_change', channel=ch, program=rng.randint(0, 127), time=0))
        for _ in range(rng.randint(0, 12)):
            p = rng.randint(0, 127)
            tr.append(mido.Message('note_on', channel=ch, note=p, velocity=rng.randint(1, 127), time=rng.randint(0, 300)))
            if rng.random() < 0.3:
                tr.append(mido.Message('control_change', channel=ch, control=rng.randint(0, 127), value=rng.randint(0, 127), time=rng.randint(0, 50)))
            if rng.random() < 0.2:
                tr.append(mido.Message('pitchwheel', channel=ch, pitch=rng.randint(-8192, 8191), time=rng.randint(0, 50)))
            tr.append(mido.Message('note_off', channel=ch, note=p, velocity=0, time=rng.randint(0, 300)))
        if rng.random() < 0.3:
            tr.append(mido.MetaMessage('lyrics', text='la', time=3))
    bio = io.BytesIO()
    mf.save(file=bio)
    return bio.getvalue()


_FIXTURES = [None]


def fixtures():
    if _FIXTURES[0] is None:
        import glob
        import note_seq
        d = os.path.join(os.path.dirname(note_seq.__file__), 'testdata')
        out = []
        for p in sorted(glob.glob(os.path.join(d, '*.mid'))):
            with open(p, 'rb') as f:
                b = f.read()
            if len(b) <= 16000:
                out.append(b)
        _FIXTURES[0] = out
    return _FIXTURES[0]


# ------------------------------------------------------------------ mutations
def mut_header(rng, f):
    r = rng.randrange(9)
    if r == 0:
        return assemble(f, fmt=rng.choice([2, 3, 255, 65535, 0, 1]))
    if r == 1:
        return assemble(f, ntrk=rng.choice([0, f['ntrk'] + 1, f['ntrk'] - 1, 65535, 1000]))
    if r == 2:   # SMPTE / zero / negative division
        return assemble(f, div=rng.choice([0, 0x8000, 0xE728, 0xE250, 0xE350, 0xE878, 0xFFFF, 0x8001, 0xE764, rng.randint(0x8000, 0xFFFF)]))
    if r == 3:
        hl = rng.choice([0, 5, 7, 8, 10, 0xffffffff, 0x7fffffff])
        return assemble(f, hlen=hl, hextra=bytes(rng.randint(0, 255) for _ in range(rng.choice([0, max(0, min(hl, 16) - 6)]))))
    if r == 4:
        return assemble(f, hmagic=rng.choice([b'MThD', b'RIFF', b'MTrk', b'\x00\x00\x00\x00', b'mthd']))
    if r == 5:
        i = rng.randrange(len(f['tracks']))
        n = len(f['tracks'][i])
        return assemble(f, tlen={i: rng.choice([0, 1, n - 1, n + 1, n + 1000, n // 2, 0xffffffff, 0x7fffffff, 0x80000000])})
    if r == 6:
        i = rng.randrange(len(f['tracks']))
        return assemble(f, tmagic={i: rng.choice([b'MTrx', b'MThd', b'XFIH', b'\xff\xff\xff\xff'])})
    if r == 7:
        return assemble(f, trailer=bytes(rng.randint(0, 255) for _ in range(rng.randint(1, 40))))
    return assemble(f, tracks=[])


def mut_bytes(rng, b, other=None):
    b = bytearray(b)
    r = rng.randrange(8)
    if not b:
        return bytes(b)
    if r == 0:    # truncation
        return bytes(b[:rng.randrange(len(b))])
    if r == 1:    # flips
        for _ in range(rng.choice([1, 1, 2, 4, 16])):
            i = rng.randrange(len(b))
            b[i] ^= 1 << rng.randrange(8)
        return bytes(b)
    if r == 2:    # overwrite with interesting bytes
        for _ in range(rng.choice([1, 2, 4])):
            i = rng.randrange(len(b))
            b[i] = rng.choice([0x00, 0x7f, 0x80, 0xff, 0xf0, 0xf7, 0x2f, 0x51, 0x58, 0x59, 0x90, 0x81])
        return bytes(b)
    if r == 3:    # insert
        i = rng.randrange(len(b) + 1)
        ins = bytes(rng.choice([0x80, 0xff, 0x00, rng.randint(0, 255)]) for _ in range(rng.choice([1, 2, 3, 8])))
        return bytes(b[:i] + ins + b[i:])
    if r == 4:    # delete
        i = rng.randrange(len(b))
        return bytes(b[:i] + b[i + rng.choice([1, 1, 2, 4, 16]):])
    if r == 5 and other:   # splice: head of this + tail of other
        return bytes(b[:rng.randrange(len(b))]) + bytes(other[rng.randrange(len(other)):])
    if r == 6 and other:   # splice: insert a track chunk of other into this
        j = other.find(b'MTrk')
        i = b.find(b'MTrk')
        if j >= 0 and i >= 0:
            return bytes(b[:i]) + bytes(other[j:]) + bytes(b[i:])
    # duplicate a slice
    i = rng.randrange(len(b))
    j = min(len(b), i + rng.randint(1, 32))
    return bytes(b[:j] + b[i:j] + b[j:])


def mut_vlq(rng, f):
    """Replace deltas by boundary / huge / over-long VLQs (kept below the slow range unless tagged bigtick)."""
    tracks = []
    for t in f['tracks']:
        tracks.append(t)
    i = rng.randrange(len(tracks))
    ev = rand_channel_events(rng, rng.randint(1, 8))
    j = rng.randrange(len(ev))
    kind = rng.randrange(5)
    if kind == 0:
        d = vlq(rng.choice([0x7f, 0x80, 0x3fff, 0x4000, 0x1fffff]))
    elif kind == 1:
        d = vlq(rng.randint(0, 0x3fff), pad=rng.choice([1, 2, 3]))           # over-long but small
    elif kind == 2:
        d = b'\xff\xff\xff\xff\x7f'                                           # 5-byte VLQ: 2^35-1 > MAX_TICK
    elif kind == 3:
        d = bytes([0x80 | rng.randint(0, 127) for _ in range(rng.choice([4, 9, 20]))]) + b'\x7f'   # very long VLQ
    else:
        d = b'\x8f\xff\xff\xff\x7f'
    ev[j] = (d, ev[j][1])
    tracks[i] = track_bytes(ev, running=rng.random() < 0.5)
    return assemble(f, tracks=tracks)


def mut_running(rng, f):
    """Running-status abuse: data bytes with no status, status change mid-message, real-time bytes inside."""
    ev = rand_channel_events(rng, rng.randint(2, 10))
    raw = bytearray(track_bytes(ev, running=True, eot=False))
    r = rng.randrange(5)
    if r == 0:
        raw = bytearray(b'\x00\x3c\x40\x00\x3c\x00') + raw               # data bytes before any status
    elif r == 1:
        raw += b'\x00\xff\x01\x01a\x00\x3c\x40'                           # running status after a meta
    elif r == 2:
        raw += b'\x00\xf0\x03\x01\x02\xf7\x00\x3c\x40'                    # running status after sysex
    elif r == 3:
        i = rng.randrange(len(raw) + 1)
        raw[i:i] = bytes([rng.choice([0xf8, 0xfa, 0xfe, 0xf1, 0xf2, 0xf3, 0xf6, 0xf4, 0xf5])])
    else:
        raw += b'\x00\x90\x3c'                                            # message cut short by EOT
    tracks = list(f['tracks'])
    tracks[rng.randrange(len(tracks))] = bytes(raw) + b'\x00' + EOT
    return assemble(f, tracks=tracks)


def bigtick(rng, ticks, div=480):
    """One note / cc far out in time: exercises the tick-table allocation hazard."""
    ev = [(0, meta(0x51, (500000).to_bytes(3, 'big'))), (ticks, bytes([0x90, 60, 64])), (10, bytes([0x80, 60, 0]))]
    return assemble({'fmt': 0, 'ntrk': 1, 'div': div, 'tracks': [track_bytes(ev)]})


def late_tempo(tick, div=480):
    """A set_tempo far out in time (seed C16-3): get_tempo_changes() -> tick_to_time(tick) runs AFTER the constructor and
    consults pretty_midi.MAX_TICK again."""
    ev = [(0, meta(0x51, (500000).to_bytes(3, 'big'))), (tick, meta(0x51, (400000).to_bytes(3, 'big'))),
          (1, bytes([0x90, 60, 64])), (10, bytes([0x80, 60, 0]))]
    return assemble({'fmt': 0, 'ntrk': 1, 'div': div, 'tracks': [track_bytes(ev)]})


def named_track(name, multi=False, late_name=False):
    """Track-name meta (FF 03) on a track whose instrument really gets notes (seed C16-4)."""
    body = [(0, bytes([0xc0, 5])), (0, bytes([0x90, 60, 64])), (10, bytes([0x80, 60, 0]))]
    nm = [(0, meta(0x03, name))]
    tr = track_bytes((body[:2] + nm + body[2:]) if late_name else (nm + body))
    if multi:
        t0 = track_bytes([(0, meta(0x51, (500000).to_bytes(3, 'big')))])
        return assemble({'fmt': 1, 'ntrk': 2, 'div': 480, 'tracks': [t0, tr]})
    return assemble({'fmt': 0, 'ntrk': 1, 'div': 480, 'tracks': [tr]})


# ------------------------------------------------------------------ pm-object cases
def _t(rng):
    return ford(rng.choice([0.0, 0.5, 1.0, 2.25, rng.randint(0, 400) / 8.0, rng.random() * 100, 1e-9, 5e5]))


def gen_pm(rng, wild):
    def maybe(v, alts, p=0.12):
        return rng.choice(alts) if wild and rng.random() < p else v
    res = maybe(rng.choice([96, 220, 480, 1, 32767]), [0, -1, -6360, -32768, INT32_MAX, INT32_MAX + 1, 2 ** 40, INT32_MIN - 1], 0.2)
    # only values pretty_midi's container constructors accept (pm_ctor_ok): positive numerator / denominator, key 0..23,
    # non-negative times for time and key signatures, note end >= start
    tsigs = [[_t(rng),
              maybe(rng.randint(1, 255), [1, 255, 256, INT32_MAX, INT32_MAX + 1, 2 ** 70]),
              maybe(2 ** rng.randint(0, 6), [1, 3, 2 ** 30, 2 ** 31, 2 ** 31 - 1, 2 ** 32, 2 ** 255, 2 ** 31 + 1], 0.15)]
             for _ in range(rng.randint(0, 3))]
    keys = [[_t(rng), maybe(rng.randint(0, 23), [12, 11, 0, 23], 0.2)]
            for _ in range(rng.randint(0, 3))]
    tempos = [[maybe(_t(rng), [ford(-0.5)], 0.05), ford(rng.choice([120.0, 60.0, 33.3, 1e-3, 1e9]))] for _ in range(rng.randint(1, 3))]
    insts = []
    for _ in range(rng.randint(0, 3)):
        name = [ord(c) for c in rng.choice(['', '', 'piano', 'dr\xfcm', '\x00', 'aሴb'])]
        name = maybe(name, [[0xD800], [65, 0xDFFF, 66], [0x10FFFF], [0xD7FF, 0xE000]], 0.1)
        notes = []
        for _ in range(rng.randint(0, 4)):
            s = rng.randint(0, 80) / 4.0 + rng.choice([0, 0, 1e-7])
            e = s + rng.choice([0.0, 0.25, 1.0, 7.5])
            if wild and rng.random() < 0.06:
                s, e = rng.choice([(-1.0, 0.5), (-2.0, -1.0), (-0.0, 0.0), (-3.0, -3.0)])
            notes.append([ford(s), ford(e), maybe(rng.randint(0, 127), [128, -1, 2 ** 31, 255, INT32_MIN - 1], 0.06),
                          maybe(rng.randint(1, 127), [0, 128, -1, 2 ** 31, INT32_MAX], 0.06)])
        bends = [[maybe(_t(rng), [ford(-3.0)], 0.05), maybe(rng.randint(-8192, 8191), [INT32_MAX, INT32_MAX + 1, INT32_MIN, INT32_MIN - 1, 2 ** 64], 0.08)]
                 for _ in range(rng.randint(0, 2))]
        ccs = [[maybe(_t(rng), [ford(-3.0)], 0.05), maybe(rng.randint(0, 127), [128, -1, 2 ** 31, INT32_MIN - 1], 0.06),
                maybe(rng.randint(0, 127), [128, 2 ** 31 - 1, 2 ** 31, -2 ** 31 - 1], 0.06)] for _ in range(rng.randint(0, 2))]
        insts.append([maybe(rng.randint(0, 127), [128, -1, INT32_MAX, INT32_MAX + 1, INT32_MIN - 1, 2 ** 33], 0.08),
                      int(rng.random() < 0.3), name, notes, bends, ccs])
    return [res, tsigs, keys, tempos, insts]


# ------------------------------------------------------------------ case lists
def _bcase(b, gen, file=False, repeat=False, twostep=False):
    inp = {'hex': bytes(b).hex(), 'file': bool(file)}
    if repeat:
        inp['repeat'] = True
    if twostep:
        inp['twostep'] = True
    return {'op': 'bytes', 'gen': gen, 'input': inp}


def _flags(rng, thorough):
    """file / repeat / twostep are drawn independently of each other and of the generator class."""
    return (rng.random() < (0.15 if not thorough else 0.05), rng.random() < (0.15 if not thorough else 0.05),
            rng.random() < (0.12 if not thorough else 0.05))


def fresh_group(variant):
    """Decoded in a process that has decoded nothing before: first a file that only decodes under note_seq's raised
    MAX_TICK (set_tempo at tick 1e7), then one file per failure kind, then everything again in shuffled order.  Any module
    state an error (or a success) leaves behind shows up as a changed result for the same bytes."""
    T = lambda ev, div=480: assemble({'fmt': 1, 'ntrk': 1, 'div': div, 'tracks': [track_bytes(ev)]})
    note = [(3, bytes([0x90, 60, 64])), (4, bytes([0x80, 60, 0]))]
    valid = T([(0, meta(0x58, bytes([3, 2, 24, 8])))] + note)
    files = [late_tempo(10 ** 7 + variant), valid,
             T(note, div=0),                                              # ZeroDivisionError in the constructor
             T([(0x0fffffff, bytes([0xb0, 1, 1]))] * 40),                  # tick > MAX_TICK: ValueError
             bigtick(None, 0x0fffffff),                                   # MemoryError
             T([(9, meta(0x51, b'\x06\x00\x00'))] + note, div=0xE728),     # SMPTE: rejected after the constructor
             T([(0, meta(0x58, bytes([4, 255, 24, 8])))] + note),          # denominator 2^255: after the constructor
             T([(0, meta(0x59, bytes([8, 0])))] + note),                   # KeySignatureError
             valid[:-7], b'']                                              # truncated, empty
    if variant % 2:
        files = [files[0]] + files[:0:-1]
    return {'op': 'order', 'gen': 'order-fresh-process', 'input': {'hexes': [f.hex() for f in files], 'seed': 1600 + variant, 'fresh': True}}


def order_cases(rng, pool, k):
    """(B)(ii): groups of different files decoded in one process in shuffled order.  Every group also holds files whose
    outcome depends on pretty_midi.MAX_TICK (tick counts between the library default 1e7 and note_seq's 1e10)."""
    small = [c for c in pool if c['op'] == 'bytes' and len(c['input']['hex']) <= 8000 and not c.get('gen', '').startswith('bigtick')]
    fixed = [bigtick(None, 0x0fffffff).hex(),
             assemble({'fmt': 0, 'ntrk': 1, 'div': 480, 'tracks': [track_bytes([(0x0fffffff, bytes([0xb0, 1, 1]))] * 40)]}).hex(),
             bigtick(None, 9 * 10 ** 7).hex()]
    out = []
    for _ in range(k):
        if not small:
            break
        hx = [c['input']['hex'] for c in rng.sample(small, min(len(small), rng.randint(6, 14)))] + fixed
        rng.shuffle(hx)
        out.append({'op': 'order', 'gen': 'order', 'input': {'hexes': hx, 'seed': rng.randrange(1 << 30)}})
    return out


def corpus():
    cs = []
    T = lambda ev, div=480, **kw: assemble({'fmt': kw.get('fmt', 1), 'ntrk': 1, 'div': div, 'tracks': [track_bytes(ev)]})
    # D1 witness: SMPTE division (negative ticks_per_beat) + tempo change after tick 0 -> negative tempo time
    cs.append(_bcase(T([(10, meta(0x51, b'\x07\x00\x00')), (10, meta(0x51, b'\x06\x00\x00'))], div=0xE728), 'corpus-smpte-tempo', True))
    cs.append(_bcase(T([(10, bytes([0xb0, 7, 100])), (10, bytes([0x90, 60, 64])), (5, bytes([0x80, 60, 0]))], div=0xE728), 'corpus-smpte-note'))
    cs.append(_bcase(T([(0, meta(0x58, bytes([4, 2, 24, 8]))), (0, meta(0x59, bytes([0, 0])))], div=0xFFFF), 'corpus-smpte-meta0'))
    cs.append(_bcase(T([(0, bytes([0xb0, 7, 100]))], div=0), 'corpus-div0'))
    # denominators: 2^255, 2^31, 2^30
    for p in (255, 31, 30, 32, 63, 64):
        cs.append(_bcase(T([(0, meta(0x58, bytes([4, p, 24, 8])))]), 'corpus-den-2^%d' % p, p == 255))
    for p in (0, 1, 29, 33, 34, 62, 127, 128, 254):
        cs.append(_bcase(T([(0, meta(0x58, bytes([4, p, 24, 8])))]), 'corpus-den-2^%d' % p, p == 33, p == 33))
    # (D) the offending element is not the first one stored / comes after valid ones
    ok_ts = (0, meta(0x58, bytes([3, 2, 24, 8])))
    ok_key = (0, meta(0x59, bytes([2, 0])))
    ok_tempo = (0, meta(0x51, b'\x07\xa1\x20'))
    note = [(3, bytes([0x90, 60, 64])), (4, bytes([0x80, 60, 0]))]
    for p in (31, 32, 33, 40, 255):
        cs.append(_bcase(T([ok_ts, ok_key, (5, meta(0x58, bytes([6, 3, 24, 8])))] + note + [(7, meta(0x58, bytes([4, p, 24, 8]))), ok_ts]),
                         'corpus-late-den-2^%d' % p, p == 32, True))
    for sf, mi in ((8, 0), (0xf8, 1), (0, 2)):
        cs.append(_bcase(T([ok_key, ok_ts] + note + [(9, meta(0x59, bytes([sf, mi]))), ok_key]), 'corpus-late-key-%d-%d' % (sf, mi), sf == 8))
    cs.append(_bcase(T([ok_tempo, (5, meta(0x51, b'\x06\x00\x00'))] + note + [(9, meta(0x51, b'\x00\x00\x00')), ok_tempo]), 'corpus-late-tempo0', True))
    cs.append(_bcase(T([ok_ts] + note + [(9, meta(0x58, bytes([0, 2, 24, 8])))]), 'corpus-late-num0'))
    # (C) track names that are not valid UTF-8, attached to instruments that really have notes
    for k, nm in enumerate((b'\xff', b'\xe9t\xe9', b'\xc3', b'\xc3\xa9', b'\xed\xa0\x80', b'\x83s\x83A\x83m', b'\x80\x81\xfe\xff',
                            b'', b'\x00', b'a' * 200, b'\xf0\x9f\x8e\xb9', b'\xf8\x88\x80\x80\x80', b'piano')):
        cs.append(_bcase(named_track(nm, multi=bool(k % 2), late_name=(k % 3 == 2)), 'corpus-track-name', k % 4 == 0, k % 5 == 0, k % 2 == 0))
    # set_tempo at an absolute tick >= pretty_midi's default MAX_TICK (1e7)
    cs.append(_bcase(late_tempo(10 ** 7), 'bigtick-late-tempo-1e7'))
    cs.append(_bcase(late_tempo(9999999), 'bigtick-late-tempo-1e7-1'))
    # single-event / zero-length shapes
    cs.append(_bcase(T([(0, bytes([0x90, 60, 64])), (0, bytes([0x80, 60, 0]))]), 'corpus-zero-length-note', True, True, True))
    cs.append(_bcase(T([(0, bytes([0x90, 0, 1])), (1, bytes([0x80, 0, 0])), (0, bytes([0x90, 127, 127])), (1, bytes([0x90, 127, 0]))]), 'corpus-range-ends', True, True, True))
    cs.append(_bcase(T([(0, bytes([0xe0, 0, 0])), (0, bytes([0xe0, 127, 127])), (0, bytes([0x90, 1, 1])), (1, bytes([0x80, 1, 0]))]), 'corpus-bend-ends', False, True, True))
    cs.append(_bcase(T([(0, bytes([0x90, 60, 64]))]), 'corpus-unclosed-note'))
    cs.append(_bcase(T([(0, bytes([0x80, 60, 64]))]), 'corpus-spurious-note-off'))
    cs.append(_bcase(T([(0, meta(0x58, bytes([0, 2, 24, 8])))]), 'corpus-num0'))
    cs.append(_bcase(T([(0, meta(0x58, bytes([255, 2, 24, 8])))]), 'corpus-num255'))
    # key signatures beyond 7 accidentals / bad mode
    for sf, mi in ((8, 0), (0xf8, 0), (7, 2), (7, 1), (0xf9, 1), (127, 255), (0, 0), (0xf9, 0)):
        cs.append(_bcase(T([(0, meta(0x59, bytes([sf, mi])))]), 'corpus-key-%d-%d' % (sf, mi)))
    cs.append(_bcase(T([(0, meta(0x51, b'\x00\x00\x00'))]), 'corpus-tempo0'))
    cs.append(_bcase(T([(5, meta(0x51, b'\x00\x00\x00'))]), 'corpus-tempo0-late'))
    cs.append(_bcase(T([(5, meta(0x51, b'\xff\xff\xff')), (100, bytes([0x90, 1, 1])), (1, bytes([0x80, 1, 1]))], div=1), 'corpus-slowest'))
    cs.append(_bcase(b'', 'corpus-empty'))
    cs.append(_bcase(b'MThd', 'corpus-magic-only'))
    cs.append(_bcase(header(1, 0, 480), 'corpus-no-tracks', True))
    cs.append(_bcase(header(1, 1, 480) + chunk(b'MTrk', b''), 'corpus-empty-track'))
    cs.append(_bcase(bigtick(None, 0x0fffffff), 'bigtick-2^28'))
    cs.append(_bcase(assemble({'fmt': 0, 'ntrk': 1, 'div': 480, 'tracks': [track_bytes([(0x0fffffff, bytes([0xb0, 1, 1]))] * 40)]}), 'bigtick-over-max'))
    cs.append(_bcase(bigtick(None, 10 ** 8), 'bigtick-1e8'))
    cs.append(_bcase(bigtick(None, 10 ** 6), 'bigtick-1e6'))
    for b in fixtures():
        cs.append(_bcase(b, 'corpus-fixture', True, len(b) < 2000, True))
    # constructed objects: one per hypothesis of pm_inv (all must be foreign exceptions => hypotheses necessary)
    z = ford(0.0)
    base = lambda **kw: [kw.get('res', 480), kw.get('tsigs', []), kw.get('keys', []), kw.get('tempos', [[z, ford(120.0)]]), kw.get('insts', [])]
    inst = lambda **kw: [kw.get('prog', 0), 0, kw.get('name', []), kw.get('notes', []), kw.get('bends', []), kw.get('ccs', [])]
    for rec in (base(res=2 ** 31), base(res=0), base(res=-6360, tempos=[[z, ford(120.0)], [ford(-0.5), ford(100.0)]]),
                base(tsigs=[[z, 2 ** 31, 4]]), base(tsigs=[[z, 4, 2 ** 31]]), base(tsigs=[[z, 4, 2 ** 255]]),
                base(tsigs=[[z, 2 ** 31, 2 ** 31]]), base(tsigs=[[z, 1, 1]]), base(tsigs=[[z, 4, 2 ** 31 - 1]]),
                base(keys=[[z, 0]]), base(keys=[[z, 11]]), base(keys=[[z, 12]]), base(keys=[[z, 23]]),
                base(insts=[inst(prog=2 ** 31, notes=[[z, z, 60, 60]])]), base(insts=[inst(name=[0xD800])]),
                base(insts=[inst(notes=[[z, z, 128, 60]])]), base(insts=[inst(notes=[[z, z, 2 ** 31, 60]])]),
                base(insts=[inst(notes=[[z, z, 60, 2 ** 31]])]),
                base(insts=[inst(notes=[[ford(-2.0), ford(-1.0), 60, 60]])]),
                base(insts=[inst(notes=[[ford(1.0), ford(3.0), 60, 60], [ford(1.0), ford(2.0), 61, 60]])]),
                base(insts=[inst(bends=[[z, 2 ** 31]])]), base(insts=[inst(ccs=[[z, 2 ** 31, 0]])]),
                base(insts=[inst(ccs=[[z, 0, -2 ** 31 - 1]])]), base(insts=[inst(ccs=[[ford(-1.0), 0, 0]], notes=[[z, z, 1, 1]])]),
                base(tsigs=[[z, 2 ** 31, 4]], keys=[[z, 23]]), base(tsigs=[[z, 4, 2 ** 31]], keys=[[z, 13]], res=2 ** 31),
                base(tsigs=[[z, 4, 2 ** 40]], insts=[inst(name=[0xDC00])])):
        cs.append({'op': 'pm', 'gen': 'corpus-pm', 'input': rec})
    import random as _r
    cs += order_cases(_r.Random(16), cs, 3)
    cs.append(fresh_group(0))
    return _register(cs)


def sweeps(rng, complete):
    """Exhaustive small scopes: every header division value, every key-signature payload (sf, mi), every
    time-signature (numerator, log2 denominator), every meta type x payload length 0..6."""
    T = lambda ev, div=480: assemble({'fmt': 1, 'ntrk': 1, 'div': div, 'tracks': [track_bytes(ev)]})
    note = [(3, bytes([0x90, 60, 64])), (5, bytes([0xb0, 7, 1])), (4, bytes([0x80, 60, 0]))]
    tempo = [(7, meta(0x51, b'\x06\x00\x00'))]
    out = []
    pick = (lambda xs, k: xs) if complete else (lambda xs, k: rng.sample(xs, k))
    for div in pick(range(65536), 60):
        out.append(_bcase(T(tempo + (note if div % 2 else []), div=div), 'sweep-division'))
    for v in pick(range(65536), 60):
        out.append(_bcase(T([(0, meta(0x59, bytes([v >> 8, v & 255])))] + (note if v % 7 == 0 else [])), 'sweep-keysig'))
    for v in pick(range(65536), 60):
        out.append(_bcase(T([(v % 3, meta(0x58, bytes([v >> 8, v & 255, 24, 8])))]), 'sweep-timesig'))
    for v in pick(range(128 * 7), 30):
        t, ln = v // 7, v % 7
        out.append(_bcase(T([(1, meta(t, bytes([(t * 37 + k * 11) & 255 for k in range(ln)])))] + note), 'sweep-meta-len'))
    return out


def cases(rng, tier, n=None):
    thorough = tier == 'thorough'
    N = n if n is not None else (100000 if thorough else 6000)
    cs = []
    seeds = []

    npm = N // 5
    nb = N - npm
    fx = fixtures()
    for i in range(nb):
        r = rng.random()
        fileflag, rep, two = _flags(rng, thorough)
        if r < 0.14:
            f = synth(rng)
            b = assemble(f)
            seeds.append(b)
            cs.append(_bcase(b, 'synth-valid', fileflag, rep, two))
        elif r < 0.20:
            b = mido_file(rng)
            seeds.append(b)
            cs.append(_bcase(b, 'mido-valid', fileflag, rep, two))
        elif r < 0.34:
            cs.append(_bcase(assemble(synth(rng, {'bad_meta': True, 'extra_meta': rng.randint(1, 4), 'nev': rng.randint(0, 8)})), 'meta-oob', fileflag, rep, two))
        elif r < 0.44:
            cs.append(_bcase(mut_header(rng, synth(rng, {'nev': rng.randint(0, 12)})), 'header-mut', fileflag, rep, two))
        elif r < 0.52:
            cs.append(_bcase(mut_vlq(rng, synth(rng, {'nev': rng.randint(0, 6)})), 'vlq-mut', fileflag, rep, two))
        elif r < 0.60:
            cs.append(_bcase(mut_running(rng, synth(rng, {'nev': rng.randint(0, 6)})), 'running-status', fileflag, rep, two))
        elif r < 0.66:
            cs.append(_bcase(assemble(synth(rng, {'bad_data': rng.choice([0.02, 0.1, 0.5]), 'nev': rng.randint(1, 20)})), 'data-byte-oob', fileflag, rep, two))
        elif r < 0.70:
            # SMPTE / odd divisions on otherwise valid content
            f = synth(rng, {'div': rng.choice([0xE728, 0xE250, 0xE350, 0xE878, 0x8001, 0xFFFF, rng.randint(0x8000, 0xFFFF)]),
                            'nev': rng.choice([0, 0, 2, 10]), 'extra_meta': rng.randint(0, 3)})
            cs.append(_bcase(assemble(f), 'smpte-division', fileflag, rep, two))
        elif r < 0.93:
            src = rng.choice(seeds + fx) if (seeds or fx) else assemble(synth(rng))
            oth = rng.choice(seeds + fx) if (seeds or fx) else None
            b = src
            for _ in range(rng.choice([1, 1, 1, 2, 3])):
                b = mut_bytes(rng, b, oth)
            cs.append(_bcase(b, 'byte-mut', fileflag, rep, two))
        elif r < 0.97:
            cs.append(_bcase(bytes(rng.randint(0, 255) for _ in range(rng.choice([0, 1, 4, 14, 22, 64, 300]))), 'random-bytes', fileflag, rep, two))
        else:
            hd = header(rng.choice([0, 1]), 1, rng.choice([480, 96]))
            body = bytes(rng.choice([rng.randint(0, 255), 0x00, 0xff, 0x90, 0x3c]) for _ in range(rng.randint(0, 60)))
            cs.append(_bcase(hd + chunk(b'MTrk', body), 'random-track-body', fileflag, rep, two))
    # allocation hazard: a fixed small number of far-out ticks (cost grows with the tick count on this machine)
    ticks = [2 * 10 ** 6, 0x0fffffff, 3 * 10 ** 8] if not thorough else \
        [2 * 10 ** 6, 5 * 10 ** 6, 10 ** 7, 2 * 10 ** 7, 4 * 10 ** 7, 10 ** 8, 0x0fffffff, 3 * 10 ** 8]
    for tk in ticks:
        if tk <= 0x0fffffff:
            cs.append(_bcase(bigtick(rng, tk, div=rng.choice([96, 480])), 'bigtick-%d' % tk))
        else:
            ev = [(0x0fffffff, bytes([0xb0, 1, 1]))] * (tk // 0x0fffffff) + [(1, bytes([0x90, 60, 64])), (1, bytes([0x80, 60, 0]))]
            cs.append(_bcase(assemble({'fmt': 0, 'ntrk': 1, 'div': 480, 'tracks': [track_bytes(ev)]}), 'bigtick-%d' % tk))
    for i in range(npm):
        cs.append({'op': 'pm', 'gen': 'pm-wild' if i % 3 else 'pm-valid', 'input': gen_pm(rng, wild=bool(i % 3))})
    # small-scope sweeps on the implementation side: complete in thorough, sampled in quick
    cs += sweeps(rng, thorough)
    # several different files per process, shuffled order, results kept alive and re-observed
    cs += order_cases(rng, cs, 150 if thorough else 10)
    if thorough:
        cs += [fresh_group(1), fresh_group(2)]
        for tk in (10 ** 7 + 1, 12345678):
            cs.append(_bcase(late_tempo(tk), 'bigtick-late-tempo-%d' % tk))
    if n is not None:
        cs = cs[:n] if n < len(cs) else cs
    return _register(cs)


# ------------------------------------------------------------------ impl / model
def _res_canon(r):
    if r[0] == 'OK':
        return ['OK', r[1], int(not r[2])]
    return ['EXC', r[1]]


def _skipped(case):
    return case['op'] == 'pm' and not pm_ctor_ok(case['input'])


def impl(case):
    if _skipped(case):
        return ['SKIPPED-NOT-CONSTRUCTIBLE']
    resp = _response(case)
    if 'resource' in resp:
        return ['RESOURCE', resp['resource']]
    if resp.get('op') == 'order':
        return ['ORDER', [r[:2] + [r[3]] for r in resp['results']], resp['mismatches'], resp['alive_changed']]
    if resp.get('parsed'):
        return ['PARSED', pm_inv_py(resp['pm']), _res_canon(resp['res'])]
    return ['UNPARSED', _res_canon(resp['res'])]


def model_input(case):
    if _skipped(case):
        return None
    resp = _response(case)
    if 'resource' in resp or resp.get('op') == 'order' or not resp.get('parsed') or resp.get('types'):
        return None
    return [1, resp['pm']]


def model_output(case, out):
    rb, tb, ib, res = out[:4]
    possible = [EXN_NAMES[k + 1] for k, b in enumerate(out[4]) if b] if len(out) > 4 else None
    if res and res[0] == 0:
        r = ['OK', res[1], res[2]]
    elif res and res[0] == -1000:
        r = ['EXC', EXN_NAMES.get(res[1], 'code%r' % (res[1],))]
    else:
        r = ['BAD-MODEL-OUTPUT', res]
    return ['PARSED', [rb, tb, ib], r, possible, out[5] if len(out) > 5 else None]


def equal(case, io, mo):
    """Correspondence.  Exact on everything a byte string can reach (op bytes: flags, full result or exception class).
    For a constructed object (op pm) whose conversion fails, the model's FIRST failing assignment is an artefact of the
    order in which independent repeated fields are filled, which C16 does not constrain: the implementation's exception
    class must then be one of the classes that can surface over all field orders (Model/MidiConvert.exn_possible;
    Proofs: convert's own error is always in that set and the set is empty iff convert succeeds)."""
    if not (isinstance(mo, list) and len(mo) == 5 and mo[0] == 'PARSED'):
        return False
    if mo[4] != 1:
        return False       # Coq's pm_ctorb disagrees with pm_ctor_ok (constructed cases are filtered, parsed ones monitored)
    flags, mres, possible = mo[1], mo[2], mo[3]
    if mres[0] == 'EXC' and (possible is None or mres[1] not in possible):
        return False                                  # model inconsistent with its own set: fail closed
    if mres[0] == 'OK' and possible:
        return False
    if case['op'] == 'pm' and mres[0] == 'EXC' and len(possible) > 1:
        return (isinstance(io, list) and len(io) == 3 and io[0] == 'PARSED' and io[1] == flags and
                io[2][0] == 'EXC' and io[2][1] in possible)
    return io == ['PARSED', flags, mres]


def _statement(res, gen, op, neg_res, variant):
    """The property's statement on one call result: MIDIConversionError or a well-formed NoteSequence."""
    if res[0] == 'EXC' and res[1] != 'MIDIConversionError':
        return {'kind': 'foreign-exception', 'exception': res[1], 'message': res[2], 'gen': gen, 'op': op, 'variant': variant}
    if res[0] == 'OK' and res[2]:
        return {'kind': 'ill-formed-result', 'what': res[2], 'resolution_nonpositive': neg_res, 'gen': gen, 'op': op,
                'variant': variant}
    return None


def oracle(case, io):
    """C16's statement evaluated on what the implementation did."""
    if _skipped(case):
        return None
    resp = _response(case)
    gen = case.get('gen', '?')
    if io[0] == 'RESOURCE':
        if io[1] not in ('timeout', 'harness-MemoryError'):
            # a dead worker is neither "returns a NoteSequence" nor "raises MIDIConversionError": fail closed
            return {'kind': 'worker-crash', 'detail': resp, 'gen': gen}
        return None     # wall-clock limit: no exception escaped; recorded in evidence, not a violation
    probe = _STATS.get('probe')
    if probe is not None and probe.get('probe') != PROBE_EXPECT:
        return {'kind': 'protobuf-failure-modes-changed', 'got': probe.get('probe')}
    if case['op'] == 'order':
        # the statement on every file of the group, then independence of call history
        for i, r in enumerate(resp['results']):
            v = _statement([r[0], r[1], str(r[2])] if r[0] == 'EXC' else ['OK', None, r[2]], gen, 'bytes', False, 'order[%d]' % i)
            if v:
                v['hex'] = case['input']['hexes'][i]
                return v
        if resp['mismatches']:
            m = resp['mismatches'][0]
            return {'kind': 'result-depends-on-call-history', 'hex': case['input']['hexes'][m[0]], 'first': m[1], 'later': m[2],
                    'pass': m[3], 'gen': gen}
        if resp['alive_changed']:
            return {'kind': 'earlier-result-changed-by-later-call', 'hex': case['input']['hexes'][resp['alive_changed'][0]], 'gen': gen}
        # the same file decoded as an individual case in another process with another history
        for i, h in enumerate(case['input']['hexes']):
            for fl in range(8):
                inp = {'hex': h, 'file': bool(fl & 1)}
                if fl & 2:
                    inp['repeat'] = True
                if fl & 4:
                    inp['twostep'] = True
                k = case_key({'op': 'bytes', 'input': inp})
                other = _CACHE.get(k)
                if other and 'res' in other:
                    a, b = resp['results'][i], other['res']
                    if (a[0], a[1] if a[0] == 'EXC' else '') != (b[0], b[1] if b[0] == 'EXC' else '') or \
                            (a[0] == 'OK' and a[3] != _digest(b)):
                        if not ((a[0] == 'EXC' and 'MemoryError' in str(a[2])) or (b[0] == 'EXC' and 'MemoryError' in b[2])):
                            return {'kind': 'result-differs-between-processes', 'hex': h, 'in_group': a[:2], 'alone': b[:2] if b[0] == 'EXC' else ['OK'], 'gen': gen}
        return None
    res = resp['res']
    inv = pm_inv_py(resp['pm']) if resp.get('parsed') else None
    neg_res = bool(resp.get('parsed') and resp['pm'][0] <= 0)
    if resp.get('state'):
        return {'kind': 'state-or-aliasing', 'what': resp['state'], 'gen': gen, 'op': case['op']}
    if case['op'] == 'pm':
        if not inv[2]:
            return None     # outside the theorem's hypothesis; only model agreement is checked
        return _statement(res, gen, 'pm', neg_res, 'object')
    v = _statement(res, gen, 'bytes', neg_res, 'bytes')
    if v:
        return v
    rres = resp.get('repeat')
    if rres is not None and rres != 'same':
        v = _statement(rres, gen, 'bytes', neg_res, 'repeat')
        if v:
            return v
        if _res_canon(rres) != _res_canon(res) and not any(r[0] == 'EXC' and 'MemoryError' in r[2] for r in (res, rres)):
            return {'kind': 'second-call-differs', 'gen': gen, 'first': res[:2] if res[0] == 'EXC' else ['OK'],
                    'second': rres[:2] if rres[0] == 'EXC' else ['OK']}
    two = resp.get('twostep')
    if two and two[0] != 'EXPORT-FAILED':
        for r, variant in zip(two, ('reexported-bytes', 'reexported-object')):
            v = _statement(r, gen, 'bytes', False, variant)
            if v:
                return v
    fres = resp.get('file')
    if fres is not None and fres != 'same':
        v = _statement(fres, gen, 'bytes', neg_res, 'file')
        if v:
            return v
        if _res_canon(fres) != _res_canon(res) and not any(r[0] == 'EXC' and 'MemoryError' in r[2] for r in (res, fres)):
            return {'kind': 'file-variant-differs', 'gen': gen,
                    'bytes': res[:2] if res[0] == 'EXC' else ['OK'], 'file': fres[:2] if fres[0] == 'EXC' else ['OK']}
    if resp.get('parsed'):
        if resp.get('types'):
            return {'kind': 'pm-attribute-type-unexpected', 'what': resp['types'], 'gen': gen}
        if not inv[2] or not pm_ctor_ok(resp['pm']):
            return {'kind': 'pm-invariant-violated', 'range_ok': inv[0], 'time_ok': inv[1],
                    'constructor_invariants_ok': int(pm_ctor_ok(resp['pm'])), 'gen': gen}
        obj = resp['obj']
        if obj != 'same' and _res_canon(obj) != _res_canon(res):
            if not (res[0] == 'EXC' and 'MemoryError' in res[2]):
                return {'kind': 'bytes-vs-object-conversion-differ', 'gen': gen,
                        'bytes': res[:2] if res[0] == 'EXC' else ['OK'], 'object': obj[:2] if obj[0] == 'EXC' else ['OK']}
    elif res[0] == 'OK' and 'MemoryError' not in resp.get('parse_exc', ''):
        return {'kind': 'constructor-nondeterministic', 'gen': gen, 'parse_exc': resp.get('parse_exc')}
    return None


def nontrivial(case, io):
    if case['op'] in ('pm', 'order'):
        return io[0] not in ('RESOURCE', 'SKIPPED-NOT-CONSTRUCTIBLE')
    if io[0] == 'PARSED':
        resp = _response(case)
        pm = resp['pm']
        return bool(pm[1] or pm[2] or len(pm[3]) > 1 or pm[4])
    if io[0] == 'UNPARSED':
        return case['input']['hex'].startswith('4d546864')
    return False


def _shr(case):
    g = case.get('gen', '?')
    return g if g.endswith('-shrunk') else g + '-shrunk'


def shrink(case):
    if case['op'] == 'order':
        hx = case['input']['hexes']
        for i in range(len(hx)):
            yield {'op': 'order', 'gen': 'order-shrunk', 'input': {'hexes': hx[:i] + hx[i + 1:], 'seed': case['input']['seed']}}
        return
    if case['op'] == 'bytes':
        b = bytes.fromhex(case['input']['hex'])
        n = len(b)
        step = max(1, n // 2)
        while step >= 1:
            for i in range(0, n, step):
                c = b[:i] + b[i + step:]
                if c != b:
                    yield {'op': 'bytes', 'gen': _shr(case), 'input': dict(case['input'], hex=c.hex())}
            if step == 1:
                break
            step //= 2
    else:
        res, tsigs, keys, tempos, insts = case['input']
        for idx, lst in ((1, tsigs), (2, keys), (3, tempos), (4, insts)):
            for j in range(len(lst)):
                rec = [res, list(tsigs), list(keys), list(tempos), list(insts)]
                rec[idx] = lst[:j] + lst[j + 1:]
                yield {'op': 'pm', 'gen': 'pm-shrunk', 'input': rec}
        for j, ins in enumerate(insts):
            for f in (3, 4, 5):
                for k in range(len(ins[f])):
                    ni = list(ins)
                    ni[f] = ins[f][:k] + ins[f][k + 1:]
                    yield {'op': 'pm', 'gen': 'pm-shrunk', 'input': [res, tsigs, keys, tempos, insts[:j] + [ni] + insts[j + 1:]]}


def extra_evidence():
    outcomes, ctor_exc, resource, obs, extra = {}, {}, {}, {}, {}

    def upd(name, v):
        lo, hi = obs.get(name, (v, v))
        obs[name] = (min(lo, v), max(hi, v))
    parsed = 0
    for k, r in _CACHE.items():
        if 'resource' in r:
            resource[r['resource']] = resource.get(r['resource'], 0) + 1
            continue
        if r.get('op') == 'order':
            extra['order_groups'] = extra.get('order_groups', 0) + 1
            extra['order_files_decoded_3x'] = extra.get('order_files_decoded_3x', 0) + len(r['results'])
            continue
        if 'res' not in r:
            continue
        for f in ('file', 'repeat', 'twostep'):
            if f in r:
                extra[f + '_cases'] = extra.get(f + '_cases', 0) + 1
        if r.get('twostep') and r['twostep'][0] == 'EXPORT-FAILED':
            extra['twostep_export_failed:' + r['twostep'][1]] = extra.get('twostep_export_failed:' + r['twostep'][1], 0) + 1
        if r.get('parsed'):
            extra['object_conversions_repeated_and_argument_compared'] = extra.get('object_conversions_repeated_and_argument_compared', 0) + 1
        res = r['res']
        key = r.get('op', '?') + ':' + (res[1] if res[0] == 'EXC' else 'OK')
        outcomes[key] = outcomes.get(key, 0) + 1
        if not r.get('parsed'):
            ctor_exc[r.get('parse_exc', '?')] = ctor_exc.get(r.get('parse_exc', '?'), 0) + 1
        elif 'obj' in r and r['obj'] is not None:
            parsed += 1
            pm = r['pm']
            upd('resolution', pm[0])
            for t in pm[1]:
                upd('numerator', t[1])
                upd('log2_denominator', t[2].bit_length() - 1)
            for kk in pm[2]:
                upd('key_number', kk[1])
            upd('n_instruments', len(pm[4]))
            for i in pm[4]:
                upd('program', i[0])
                for nn in i[3]:
                    upd('pitch', nn[2])
                    upd('velocity', nn[3])
                for b in i[4]:
                    upd('bend', b[1])
                for c in i[5]:
                    upd('cc_number', c[1])
                    upd('cc_value', c[2])
    return {
        'c16_cases_by_generator': dict(sorted(_GENS.items())),
        'c16_state_and_variant_checks': dict(sorted(extra.items())),
        'c16_outcomes_by_op_and_exception_class': outcomes,   # op pm includes objects OUTSIDE pm_inv (foreign exceptions expected there)
        'c16_constructor_exception_classes': ctor_exc,
        'c16_resource_cases': resource,
        'c16_parsed_objects_monitored': parsed,
        'c16_observed_ranges_on_parsed_objects': {k: list(v) for k, v in sorted(obs.items())},
        'c16_pm_inv_hypotheses': PM_INV_HYPOTHESES,
        'c16_limits': {'RLIMIT_AS_bytes': MEM_LIMIT, 'wall_s_per_case': WALL_LIMIT, 'workers': N_WORKERS},
        'c16_protobuf_probe': _STATS.get('probe'),
    }


if __name__ == '__main__':
    if '--worker' in sys.argv:
        worker_main()
