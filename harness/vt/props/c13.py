"""C13 — shifting, stretching, concatenating, repeating and time-mapping move every event consistently.

Ops (one per anchored function of note_seq/sequences_lib.py):
  shift    {'d': ticks, 'seq': desc}
  stretch  {'fn': int, 'fd': 2^k, 'seq': desc}                factor = fn/fd (exact double)
  concat   {'seqs': [desc...], 'durs': [ticks...] | None}
  repeat   {'seq': desc, 'd': ticks, 'sd': ticks | None}
  adjust   {'table': [[x, y, p, q]...], 'md': ticks | None, 'seq': desc}
  rectify  {'bpm': qpm units (2^-20), 'seq': desc}
Times are exact ticks (vt.nsio); only rectify's output times are floats (compared with tolerance against
the model's exact rationals).
"""
import copy
from fractions import Fraction

from vt import nsio

ID = 'C13'
RULE = ('seeded structured NoteSequence generator (vt.nsio.gen_desc: every event kind, coinciding times, '
        'times a few ticks around other times) combined per op with dyadic shifts, dyadic stretch factors fn/2^k, '
        '0..5 pieces with optional explicit durations, target durations on/around multiples of the piece duration, '
        'piecewise-linear integer time maps given as breakpoint tables (monotone, plus reversing/negative ones for '
        'the rejection clause) and beat annotations inside/on/after total_time; stretch in_place absent/False/True; '
        'chains of 2-3 operations where each input is the real output of the step before; every call is observed twice '
        '(argument snapshot, second call on the same objects, mutation of the second result); non-trivial = the implementation '
        'returned a sequence with at least one note and one non-note event, or took a rejection branch; '
        'distinct by canonical input')
ASSUMPTIONS = [
    'exact-arithmetic reading: times are multiples of 2^-40 s below 2^12 s, on which the float +, -, min, max, '
    'comparisons of the code are exact; stretch factors are fn/2^k with t*fn/2^k and qpm*2^k/fn exact in binary64',
    'repeat_sequence_to_duration: math.ceil(duration / sequence_duration) equals the exact integer ceiling on the '
    'generated grid (quotients are at least 2^-44 away from an integer, far above one ulp)',
    'rectify_beats: the model interpolates in exact rationals; the implementation (np.interp in binary64) is compared '
    'with tolerance 1e-9*max(1,|t|); generated times differ by >= 2^-40 s so the float test start == end agrees '
    'with the exact one',
    'extract_subsequence(seq, 0, d) inside repeat: the local one-window model is proved equal to the C02 model of '
    '_extract_subsequences on [0, d] (Proofs/TimeOpsExtract.v); the pedal pass is C02\'s model reused',
    'protobuf MergeFrom/CopyFrom/deepcopy and the opaque remainder of the message (id, filename, metadata, ...) are '
    'trusted; the remainder is compared by hash for shift/stretch/adjust/rectify, field by field (merge rule) for '
    'concat, and ignored for repeat',
]
TOL = 1e-9

ERR = {1: 'ValueError', 2: 'QuantizationStatusError', 3: 'InvalidTimeAdjustmentError', 4: 'RectifyBeatsError',
       5: 'ZeroDivisionError'}
Q = nsio.QUARTER_SEC
LISTS = ('notes', 'tempos', 'tsigs', 'ksigs', 'texts', 'ccs', 'bends', 'sects')
I_TOTAL, I_QSTEPS, I_SPQ, I_SPS, I_SUB, I_TPQ, I_REST = 8, 9, 10, 11, 12, 13, 14


# ---------------------------------------------------------------- helpers
def _wire(desc):
    if '_wire' in desc:                     # pseudo-description of an intermediate result (chains)
        return desc['_wire']
    return nsio.to_wire(nsio.to_proto(desc))


def _pseudo(ns):
    w = nsio.to_wire(ns)
    return {'_wire': w, 'total': w[I_TOTAL], 'spq': w[I_SPQ], 'sps': w[I_SPS]}


def _canon(w, drop_rest=False, drop_ccs=False, keep_order=False):
    """Canonical comparable form of a wire sequence: bags sorted."""
    w = list(w)
    for i in range(8):
        rows = [list(r) for r in w[i]]
        w[i] = rows if keep_order else sorted(rows, key=lambda r: repr(r))
    if drop_ccs:
        w[5] = []
    if drop_rest:
        w[I_REST] = 0
    return w


def _exc(e):
    return ['EXC', type(e).__name__]


# ---- the rest of the message (opened up for concatenation): strings are 'x<k>' for k > 0, '' for 0
def _str(k):
    return 'x%d' % k if k else ''


def _unstr(x):
    return int(x[1:]) if x else 0


def _proto(desc):
    """nsio.to_proto plus the explicit remainder description desc['xmeta'] (scalars, composers, genres,
    instrument_infos, part_infos, section_groups)."""
    ns = nsio.to_proto(desc)
    m = desc.get('xmeta')
    if m:
        sc = m['scalars']
        ns.id, ns.filename, ns.reference_number, ns.collection_name = _str(sc[0]), _str(sc[1]), sc[2], _str(sc[3])
        ns.source_info.source_type, ns.source_info.encoding_type, ns.source_info.parser = sc[4], sc[5], sc[6]
        if sc[7] or sc[8] or m['composers'] or m['genres']:
            ns.sequence_metadata.title, ns.sequence_metadata.artist = _str(sc[7]), _str(sc[8])
            ns.sequence_metadata.composers.extend(_str(c) for c in m['composers'])
            ns.sequence_metadata.genre.extend(_str(c) for c in m['genres'])
        for r in m['instr']:
            ii = ns.instrument_infos.add(); ii.instrument, ii.name = r[0], _str(r[1])
        for r in m['parts']:
            pi = ns.part_infos.add(); pi.part, pi.name = r[0], _str(r[1])
        for r in m['groups']:
            sg = ns.section_groups.add(); sg.num_times = r[0]
            for sid in r[1:]:
                sg.sections.add().section_id = sid
    return ns


def _meta_of(ns):
    """Encode the remainder of a NoteSequence; the last element is 0 iff nothing else is left in it."""
    from note_seq.protobuf import music_pb2
    md = ns.sequence_metadata
    out = [[_unstr(ns.id), _unstr(ns.filename), ns.reference_number, _unstr(ns.collection_name),
            ns.source_info.source_type, ns.source_info.encoding_type, ns.source_info.parser,
            _unstr(md.title), _unstr(md.artist)],
           [_unstr(c) for c in md.composers], [_unstr(c) for c in md.genre],
           [[i.instrument, _unstr(i.name)] for i in ns.instrument_infos],
           [[i.part, _unstr(i.name)] for i in ns.part_infos],
           [[g.num_times] + [x.section_id for x in g.sections] for g in ns.section_groups]]
    c = music_pb2.NoteSequence()
    c.CopyFrom(ns)
    for f in ('id', 'filename', 'reference_number', 'collection_name', 'source_info', 'sequence_metadata',
              'instrument_infos', 'part_infos', 'section_groups'):
        c.ClearField(f)
    return out + [nsio.seq_rest(c)]


def _wire_meta(desc):
    m = desc.get('xmeta')
    if not m:
        return [[0] * 9, [], [], [], [], []]
    return [m['scalars'], m['composers'], m['genres'], m['instr'], m['parts'], m['groups']]


def _gen_xmeta(rng):
    if rng.random() < 0.15:
        return None
    def sc(hi):
        return rng.choice([0, 0, rng.randint(1, hi)])
    return {'scalars': [sc(5), sc(5), sc(9), sc(3), rng.choice([0, 1, 2]), rng.choice([0, 1, 3]),
                        rng.choice([0, 2, 5]), sc(4), sc(4)],
            'composers': [rng.randint(1, 4) for _ in range(rng.randint(0, 3))],
            'genres': [rng.randint(1, 3) for _ in range(rng.randint(0, 2))],
            'instr': [[rng.randint(0, 3), rng.randint(0, 4)] for _ in range(rng.randint(0, 2))],
            'parts': [[rng.randint(0, 3), rng.randint(0, 4)] for _ in range(rng.randint(0, 2))],
            'groups': [[rng.randint(0, 3)] + [rng.randint(0, 5) for _ in range(rng.randint(0, 2))]
                       for _ in range(rng.randint(0, 2))]}


def table_map(tbl, t):
    """The integer piecewise-linear map of Run/C13.v:table_map (Python // is floor division like Coq's /)."""
    if not tbl:
        return t
    cur = tbl[0]
    for r in tbl[1:]:
        if t < r[0]:
            break
        cur = r
    x, y, p, q = cur
    return y + (t - x) * p // q


def _time_func(tbl):
    def f(t):
        return nsio.t2f(table_map(tbl, nsio.f2t(float(t))))
    return f


def _quantized(desc):
    return desc.get('spq', 0) > 0 or desc.get('sps', 0) > 0


# ---------------------------------------------------------------- generators
def _seq(rng, **kw):
    kw.setdefault('max_notes', 8)
    kw.setdefault('hi_quarters', 24)
    d = nsio.gen_desc(rng, **kw)
    if rng.random() < 0.25:
        d['sub'] = [rng.randint(0, 8) * Q, rng.randint(0, 8) * Q]
    return d


def _maybe_quantized(rng, d, p=0.06):
    if rng.random() < p:
        if rng.random() < 0.5:
            d['spq'] = rng.choice([1, 4])
        else:
            d['sps'] = rng.choice([10, 100])
        d['qsteps'] = rng.randint(0, 64)
    return d


def _snap(desc, m):
    """Round every time down to a multiple of m ticks (keeps coincidences and order)."""
    d = copy.deepcopy(desc)
    for r in d['notes']:
        r[2] -= r[2] % m
        r[3] -= r[3] % m
    for f in LISTS[1:]:
        for r in d[f]:
            r[0] -= r[0] % m
    d['total'] -= d['total'] % m
    ends = [r[3] for r in d['notes']]
    if ends and d['total'] < max(ends):
        d['total'] = max(ends)
    return d


def _gen_shift(rng):
    s = _maybe_quantized(rng, _seq(rng))
    r = rng.random()
    if r < 0.08:
        d = rng.choice([0, -1, -Q, -3 * Q])
    elif r < 0.5:
        d = rng.randint(1, 40) * Q
    else:
        d = rng.randint(1, 40) * Q + rng.choice([-3, -1, 1, 2, 1 << 20, -(1 << 20)])
    return {'op': 'shift', 'input': {'d': d, 'seq': s}}


def _gen_stretch(rng):
    k = rng.randint(0, 8)
    fd = 1 << k
    r = rng.random()
    if r < 0.07:
        fn = fd
    elif r < 0.5:
        fn = rng.choice([1, 3, 5, 7, 9, 15, 25, 3, 5])
    else:
        fn = rng.randrange(1, 1 << 10, 2)
    s = _snap(_seq(rng), 256)
    for t in s['tempos']:
        t[1] = fn * rng.randint((20 << nsio.QPM_BITS) // fn, (300 << nsio.QPM_BITS) // fn)
    _maybe_quantized(rng, s)
    a = {'fn': fn, 'fd': fd, 'seq': s}
    r = rng.random()
    if r < 0.3:                                   # in_place drawn independently of factor and sequence
        a['in_place'] = True
    elif r < 0.4:
        a['in_place'] = False
    return {'op': 'stretch', 'input': a}


def _gen_concat(rng):
    n = rng.choice([0, 1, 1, 2, 2, 3, 3, 4, 5])
    seqs = []
    base = None
    for i in range(n):
        if base is not None and rng.random() < 0.3:
            s = copy.deepcopy(base)
        else:
            s = _seq(rng, max_notes=5, hi_quarters=12, max_events=3)
            r0 = rng.random()
            if r0 < 0.08:                              # an empty piece of zero duration
                s = nsio.gen_desc(rng, max_notes=0, with_events=False)
            elif r0 < 0.2:                             # no notes, total_time 0, but events (at and after 0)
                s = nsio.gen_desc(rng, max_notes=0, hi_quarters=6, max_events=2)
                s['total'] = 0
            if rng.random() < 0.3:
                _add_redundant(rng, s)
            s['meta'] = None
            s['xmeta'] = _gen_xmeta(rng)
            base = s
        _maybe_quantized(rng, s, 0.04)
        seqs.append(s)
    durs = None
    r = rng.random()
    if r < 0.45 and n:
        durs = [s['total'] + rng.choice([0, 0, 1, Q, 2 * Q, 5 * Q]) for s in seqs]
        if rng.random() < 0.08:
            i = rng.randrange(n)
            durs[i] = max(0, seqs[i]['total'] - rng.choice([1, Q]))      # too short (or equal when total = 0)
        if rng.random() < 0.05:
            durs = durs + [Q] if rng.random() < 0.5 else durs[:-1]       # wrong length ([] means "none")
    elif r < 0.5:
        durs = []
    return {'op': 'concat', 'input': {'seqs': seqs, 'durs': durs}}


def _add_redundant(rng, s):
    """Store, inside the piece itself, tempo / time-signature / key events that only repeat the value of the
    event before them in time (what remove_redundant_data must drop, also when one copy is enough)."""
    for f in ('tempos', 'tsigs', 'ksigs'):
        if rng.random() < 0.6:
            if not s[f]:
                s[f].append({'tempos': [0, 120 << nsio.QPM_BITS], 'tsigs': [0, 4, 4], 'ksigs': [0, 2, 0]}[f])
            for _ in range(rng.randint(1, 2)):
                e = list(rng.choice(s[f]))
                e[0] += rng.choice([0, 1, Q, Q, 2 * Q, 5 * Q])
                s[f].insert(rng.randint(0, len(s[f])), e)
    return s


def _gen_repeat(rng):
    s = _seq(rng, max_notes=5, hi_quarters=10, max_events=3)
    if rng.random() < 0.05:
        s = nsio.gen_desc(rng, max_notes=0, with_events=False)            # total_time 0 -> ZeroDivisionError
    elif rng.random() < 0.5:
        _add_redundant(rng, s)
    _maybe_quantized(rng, s, 0.03)
    sd = None
    r = rng.random()
    if r < 0.4:
        sd = s['total'] + rng.choice([0, 1, Q, 3 * Q])
    elif r < 0.45:
        sd = max(0, s['total'] - rng.choice([1, Q]))
    elif r < 0.5:
        sd = 0
    dur = sd if sd else s['total']
    r = rng.random()
    if r < 0.25 and dur > 0:                # ONE copy is enough: d <= dur (inside the piece, on its end, or
        # beyond total_time but within a longer explicit sequence_duration)
        d = rng.choice([dur, dur, max(1, dur - 1), max(1, dur - Q), rng.randint(1, max(1, dur // Q)) * Q,
                        max(1, min(dur, s['total'] + 1))])
        d = max(1, min(d, dur))
    elif r < 0.5 and dur:
        d = dur * rng.randint(1, 4) + rng.choice([0, 0, -1, 1, -Q, Q])
    elif r < 0.93:
        d = rng.randint(1, 60) * Q + rng.choice([0, 0, 0, 1, -1])
    else:
        d = rng.choice([0, -Q, 1])
    if dur and d > 8 * dur:                 # keep the number of copies small (a 1-tick piece would need 2^40 copies)
        d = dur * rng.randint(1, 8) + rng.choice([0, -1, 1]) * min(1, dur - 1)
    return {'op': 'repeat', 'input': {'seq': s, 'd': d, 'sd': sd}}


SLOPES = [(0, 1), (1, 2), (1, 1), (1, 1), (3, 2), (2, 1), (1, 3), (5, 4), (7, 8)]


def _gen_table(rng, mode):
    n = rng.randint(1, 5)
    xs = sorted(rng.sample(range(1, 30), n - 1))
    xs = [0] + [x * Q for x in xs]
    y = rng.choice([0, 0, Q, 3 * Q + 1])
    if mode == 'negative':
        y = -rng.choice([1, Q, 5 * Q])
    tbl = []
    bad = rng.randrange(1, n) if (mode == 'reverse' and n > 1) else None
    for i, x in enumerate(xs):
        p, q = rng.choice(SLOPES)
        if mode == 'reverse' and n == 1:
            p = -p
        tbl.append([x, y, p, q])
        if i + 1 < n:
            y = y + (xs[i + 1] - x) * p // q + rng.choice([0, 0, 0, 1, Q])
            if bad == i + 1:
                y -= rng.choice([2 * Q, 6 * Q, 1])
    return tbl


def _gen_adjust(rng):
    s = _seq(rng)
    _maybe_quantized(rng, s, 0.03)          # adjust does not look at quantization
    r = rng.random()
    mode = 'monotone' if r < 0.8 else ('reverse' if r < 0.9 else 'negative')
    md = None
    if rng.random() < 0.2:
        md = rng.choice([0, 1, Q // 4, Q])
    return {'op': 'adjust', 'input': {'table': _gen_table(rng, mode), 'md': md, 'seq': s}}


def _gen_rectify(rng):
    s = _seq(rng, max_notes=6, hi_quarters=16)
    s['texts'] = [t for t in s['texts'] if t[3] != 2 or rng.random() < 0.5]
    r = rng.random()
    if r > 0.06:
        k = rng.randint(1, 6)
        hi = max(1, s['total'] // Q)
        pool = []
        for _ in range(k):
            t = rng.randint(0, hi) * Q
            if pool and rng.random() < 0.15:
                t = rng.choice(pool)                       # duplicate beat
            if rng.random() < 0.15:
                t = min(s['total'], t + rng.choice([1, 2, 1 << 20]))
            if rng.random() < 0.12:
                t = s['total'] + rng.choice([0, 1, Q, 4 * Q])   # on / after total_time
            pool.append(t)
            s['texts'].append([t, 0, 'beat', 2])
        rng.shuffle(s['texts'])
    else:
        s['texts'] = [t for t in s['texts'] if t[3] != 2]       # no beats -> RectifyBeatsError
    _maybe_quantized(rng, s, 0.04)
    bpm = rng.choice([30, 60, 120, 240, 90, 97, 133, 100]) << nsio.QPM_BITS
    if rng.random() < 0.1:
        bpm += rng.randint(1, (1 << nsio.QPM_BITS) - 1)
    return {'op': 'rectify', 'input': {'bpm': bpm, 'seq': s}}


def _chain_step(rng, final=False):
    """One operation on "the sequence produced so far".  All values keep times on multiples of 2^12 ticks
    (power-of-two stretch factors, integer-slope maps), so every later step stays exact."""
    k = rng.choice(['shift', 'stretch', 'concat', 'repeat', 'adjust'] + (['rectify', 'rectify'] if final else []))
    if k == 'shift':
        return {'op': 'shift', 'seq': 'CUR', 'd': rng.choice([Q, 3 * Q, 10 * Q, 0] if rng.random() < 0.1 else [Q, 2 * Q, 7 * Q])}
    if k == 'stretch':
        fn, fd = rng.choice([(1, 2), (2, 1), (4, 1), (1, 4), (1, 1), (3, 1)])
        st = {'op': 'stretch', 'seq': 'CUR', 'fn': fn, 'fd': fd}
        if rng.random() < 0.4:
            st['in_place'] = rng.random() < 0.75
        return st
    if k == 'concat':
        n = rng.randint(1, 3)
        seqs = ['CUR'] * n
        if rng.random() < 0.5:
            o = _snap(_seq(rng, max_notes=3, hi_quarters=8, max_events=2, meta=False), 1 << 12)
            for t in o['tempos']:
                t[1] = (27 * rng.choice([2, 3, 4, 5])) << nsio.QPM_BITS
            seqs.insert(rng.randint(0, n), o)
        r = rng.random()
        durs = None if r < 0.6 else ([] if r < 0.7 else [rng.choice([40, 80]) * Q for _ in seqs])
        return {'op': 'concat', 'seqs': seqs, 'durs': durs}
    if k == 'repeat':
        sd = rng.choice([None, None, 60 * Q, 200 * Q])
        d = rng.randint(1, 4) * (sd or 20 * Q) + rng.choice([0, Q, -Q])
        if sd is None:
            d = rng.randint(1, 30) * Q
        return {'op': 'repeat', 'seq': 'CUR', 'd': d, 'sd': sd}
    if k == 'adjust':
        n = rng.randint(1, 3)
        xs = [0] + [x * Q for x in sorted(rng.sample(range(1, 40), n - 1))]
        y = rng.choice([0, 0, Q, -2 * Q] if rng.random() < 0.2 else [0, Q])
        tbl = []
        for i, x in enumerate(xs):
            p_ = rng.choice([0, 1, 1, 2])
            tbl.append([x, y, p_, 1])
            if i + 1 < n:
                y = y + (xs[i + 1] - x) * p_ + rng.choice([0, Q])
        return {'op': 'adjust', 'seq': 'CUR', 'table': tbl, 'md': rng.choice([None, None, None, Q, 0])}
    return {'op': 'rectify', 'seq': 'CUR', 'bpm': rng.choice([30, 60, 120, 97]) << nsio.QPM_BITS}


def _gen_chain(rng):
    """Two- and three-step use: the input of every operation but the first is the real output of the one before."""
    s = _snap(_seq(rng, max_notes=5, hi_quarters=12, max_events=3, meta=False), 1 << 12)
    for t in s['tempos']:
        t[1] = (27 * rng.choice([2, 3, 4, 5])) << nsio.QPM_BITS       # qpm / 3 (up to three times), / 4 stay on the 2^-20 grid
    if rng.random() < 0.5:
        s['texts'] += [[rng.randint(0, 12) * Q, 0, 'beat', 2] for _ in range(rng.randint(1, 3))]
    _maybe_quantized(rng, s, 0.03)
    steps = [_chain_step(rng) for _ in range(rng.randint(1, 2))]
    # a repeat / concat of an already repeated sequence can get long: at most one of them per chain
    seen = False
    for st in steps:
        if st['op'] in ('repeat', 'concat'):
            if seen:
                st.clear(); st.update({'op': 'shift', 'seq': 'CUR', 'd': Q})
            seen = True
    final = _chain_step(rng, final=True)
    if seen and final['op'] in ('repeat', 'concat'):
        final = {'op': 'rectify', 'seq': 'CUR', 'bpm': 60 << nsio.QPM_BITS}
    return {'op': 'chain', 'input': {'seq': s, 'steps': steps, 'final': final}}


GENS = [('chain', _gen_chain), ('shift', _gen_shift), ('stretch', _gen_stretch), ('concat', _gen_concat), ('repeat', _gen_repeat),
        ('adjust', _gen_adjust), ('rectify', _gen_rectify)]
PER_OP = {'quick': 260, 'thorough': 6000}


def cases(rng, tier, n=None):
    per = PER_OP.get(tier, PER_OP['quick'])
    if n is not None:
        per = max(0, n // len(GENS))
    out = []
    for _ in range(per):
        for _, g in GENS:
            out.append(g(rng))
    return out


def _mini(notes=(), total=0, **kw):
    d = {'notes': [list(n) for n in notes], 'tempos': [], 'tsigs': [], 'ksigs': [], 'texts': [], 'ccs': [], 'bends': [],
         'sects': [], 'total': total, 'qsteps': 0, 'spq': 0, 'sps': 0, 'sub': [0, 0], 'tpq': 220, 'meta': None}
    d.update(kw)
    return d


RED = {'tempos': [[0, 120 << 20], [4 * Q, 120 << 20], [8 * Q, 90 << 20]], 'tsigs': [[0, 4, 4], [6 * Q, 4, 4]],
       'ksigs': [[0, 2, 0], [2 * Q, 2, 0]]}


def corpus():
    n1 = [60, 80, 4 * Q, 8 * Q, 0, 0, 0, 0, 0, 0]
    full = _mini([n1], 8 * Q, tempos=[[4 * Q, 120 << 20]], tsigs=[[4 * Q, 4, 4]], ksigs=[[4 * Q, 2, 0]],
                 texts=[[4 * Q, 0, 'C', 1], [4 * Q, 0, 'b', 2], [4 * Q, 0, 'x', 0]], ccs=[[4 * Q, 0, 64, 127, 0, 0, 0]],
                 bends=[[4 * Q, 100, 0, 0, 0]], sects=[[4 * Q, 7]], sub=[Q, 2 * Q])
    out = [
        # every event kind moves (F16: section annotations under stretch / adjust)
        {'op': 'shift', 'input': {'d': 4 * Q, 'seq': full}},
        {'op': 'stretch', 'input': {'fn': 2, 'fd': 1, 'seq': full}},
        {'op': 'stretch', 'input': {'fn': 3, 'fd': 2, 'seq': full}},
        {'op': 'stretch', 'input': {'fn': 4, 'fd': 4, 'seq': full}},
        {'op': 'adjust', 'input': {'table': [[0, 0, 2, 1]], 'md': None, 'seq': full}},
        # a section annotation pushed below zero must be rejected like any other event
        {'op': 'adjust', 'input': {'table': [[0, -6 * Q, 2, 1]], 'md': None,
                                   'seq': _mini([n1], 8 * Q, sects=[[2 * Q, 1]])}},
        # rectify: an event after total_time (fix 2) and a beat after total_time
        {'op': 'rectify', 'input': {'bpm': 30 << 20, 'seq': _mini(
            [[60, 80, 0, 8 * Q, 0, 0, 0, 0, 0, 0]], 8 * Q,
            texts=[[2 * Q, 0, 'b', 2], [4 * Q, 0, 'b', 2], [6 * Q, 0, 'b', 2], [10 * Q, 0, 'b', 2]],
            ccs=[[8 * Q, 0, 64, 0, 0, 0, 0], [9 * Q, 0, 64, 0, 0, 0, 0]])}},
        {'op': 'rectify', 'input': {'bpm': 120 << 20, 'seq': _mini(
            [[60, 80, Q, 3 * Q, 0, 0, 0, 0, 0, 0], [62, 80, 8 * Q, 8 * Q, 0, 0, 0, 0, 0, 0]], 8 * Q,
            texts=[[3 * Q, 0, 'b', 2], [3 * Q, 0, 'b', 2], [8 * Q, 0, 'b', 2]])}},
        # concatenation: redundant tempo of the second piece dropped, changed one kept
        {'op': 'concat', 'input': {'seqs': [
            _mini([n1], 8 * Q, tempos=[[0, 120 << 20]], tsigs=[[0, 4, 4]]),
            _mini([n1], 8 * Q, tempos=[[0, 120 << 20], [4 * Q, 60 << 20]], tsigs=[[0, 3, 4]]),
            _mini([n1], 8 * Q, tempos=[[0, 60 << 20]], tsigs=[[0, 3, 4]])], 'durs': None}},
        {'op': 'concat', 'input': {'seqs': [_mini([n1], 8 * Q), _mini([n1], 8 * Q)], 'durs': [12 * Q, 8 * Q]}},
        {'op': 'concat', 'input': {'seqs': [_mini([n1], 8 * Q), _mini([n1], 8 * Q)], 'durs': [7 * Q, 8 * Q]}},
        {'op': 'concat', 'input': {'seqs': [_mini([n1], 8 * Q)], 'durs': [8 * Q, 8 * Q]}},
        # quantized first piece is merged unshifted (accepted); quantized later piece is rejected by shift
        {'op': 'concat', 'input': {'seqs': [_mini([n1], 8 * Q, spq=4), _mini([n1], 8 * Q)], 'durs': None}},
        {'op': 'concat', 'input': {'seqs': [_mini([n1], 8 * Q), _mini([n1], 8 * Q, spq=4)], 'durs': None}},
        # quantization_info is a oneof: the later piece's steps_per_second replaces steps_per_quarter (both pieces
        # have total_time 0, so neither is shifted and neither is rejected)
        {'op': 'concat', 'input': {'seqs': [_mini(spq=1, qsteps=54), _mini(sps=10, qsteps=2, total=0)], 'durs': None}},
        # repeat with ONE copy (duration inside the piece / exactly its length / within a longer explicit
        # sequence_duration) and with two, over a piece that itself stores redundant tempo / time-signature / key events
        {'op': 'repeat', 'input': {'seq': _mini([n1], 16 * Q, **RED), 'd': 12 * Q, 'sd': None}},
        {'op': 'repeat', 'input': {'seq': _mini([n1], 16 * Q, **RED), 'd': 16 * Q, 'sd': None}},
        {'op': 'repeat', 'input': {'seq': _mini([n1], 16 * Q, **RED), 'd': 18 * Q, 'sd': 20 * Q}},
        {'op': 'repeat', 'input': {'seq': _mini([n1], 16 * Q, **RED), 'd': 24 * Q, 'sd': None}},
        # repeat: exact multiple, one tick over, explicit duration, zero duration
        {'op': 'repeat', 'input': {'seq': full, 'd': 16 * Q, 'sd': None}},
        {'op': 'repeat', 'input': {'seq': full, 'd': 16 * Q + 1, 'sd': None}},
        {'op': 'repeat', 'input': {'seq': full, 'd': 21 * Q, 'sd': 10 * Q}},
        {'op': 'repeat', 'input': {'seq': full, 'd': 5 * Q, 'sd': None}},
        {'op': 'repeat', 'input': {'seq': _mini(), 'd': 5 * Q, 'sd': None}},
        {'op': 'repeat', 'input': {'seq': full, 'd': 0, 'sd': None}},
        # audit: in_place both ways, also on the rejection path (nothing may be touched before raising)
        {'op': 'stretch', 'input': {'fn': 3, 'fd': 2, 'seq': full, 'in_place': True}},
        {'op': 'stretch', 'input': {'fn': 3, 'fd': 2, 'seq': full, 'in_place': False}},
        {'op': 'stretch', 'input': {'fn': 2, 'fd': 1, 'seq': _mini([n1], 8 * Q, spq=4), 'in_place': True}},
        # audit: leading zero-length pieces with explicit positive durations (the offset is what has accumulated,
        # not cat_seq.total_time)
        {'op': 'concat', 'input': {'seqs': [_mini(), _mini(tempos=[[0, 90 << 20]]), _mini([n1], 8 * Q)],
                                   'durs': [4 * Q, 2 * Q, 8 * Q]}},
        {'op': 'concat', 'input': {'seqs': [_mini(), _mini([n1], 8 * Q)], 'durs': [4 * Q, 9 * Q]}},
        # audit: the map pushes only the SECOND stored event of a kind below zero / reverses only the second note
        {'op': 'adjust', 'input': {'table': [[0, -3 * Q, 1, 1]], 'md': None, 'seq': _mini(
            [n1], 8 * Q, ccs=[[6 * Q, 0, 64, 127, 0, 0, 0], [Q, 0, 64, 0, 0, 0, 0]])}},
        {'op': 'adjust', 'input': {'table': [[0, -3 * Q, 1, 1]], 'md': None, 'seq': _mini(
            [n1], 8 * Q, sects=[[6 * Q, 1], [Q, 2]], texts=[[5 * Q, 0, 'C', 1], [2 * Q, 0, 'b', 2]])}},
        {'op': 'adjust', 'input': {'table': [[0, 0, 1, 1], [5 * Q, 0, 1, 1]], 'md': None, 'seq': _mini(
            [[60, 80, Q, 2 * Q, 0, 0, 0, 0, 0, 0], [62, 80, 4 * Q, 6 * Q, 0, 0, 0, 0, 0, 0]], 8 * Q)}},
        {'op': 'adjust', 'input': {'table': [[0, 0, 0, 1]], 'md': Q, 'seq': _mini([n1, n1], 8 * Q)}},
        # audit: two-step use
        {'op': 'chain', 'input': {'seq': full, 'steps': [{'op': 'shift', 'seq': 'CUR', 'd': 2 * Q},
                                                          {'op': 'stretch', 'seq': 'CUR', 'fn': 1, 'fd': 2, 'in_place': True}],
                                  'final': {'op': 'repeat', 'seq': 'CUR', 'd': 12 * Q, 'sd': None}}},
        {'op': 'chain', 'input': {'seq': full, 'steps': [{'op': 'concat', 'seqs': ['CUR', 'CUR'], 'durs': None}],
                                  'final': {'op': 'rectify', 'seq': 'CUR', 'bpm': 60 << 20}}},
        {'op': 'shift', 'input': {'d': 0, 'seq': full}},
        {'op': 'shift', 'input': {'d': Q, 'seq': _mini([n1], 8 * Q, sps=100)}},
    ]
    return out


# ---------------------------------------------------------------- implementation
def _rect_wire(ns):
    return nsio.to_wire(ns, tfun=float)


HOLE = -(2 ** 70)          # Run/C13.v:HOLE, "the sequence produced so far" in a chain


def _prepare(op, a, cur=None):
    """Build the arguments of one call of the real code.  Returns (protos, other_args, call)."""
    from note_seq import sequences_lib as sl

    def seq():
        return cur if a.get('seq') == 'CUR' else _proto(a['seq'])
    if op == 'shift':
        x = seq()
        return [x], [], lambda: (sl.shift_sequence_times(x, nsio.t2f(a['d'])),)
    if op == 'stretch':
        x = seq()
        if 'in_place' in a:
            return [x], [], lambda: (sl.stretch_note_sequence(x, a['fn'] / a['fd'], in_place=bool(a['in_place'])),)
        return [x], [], lambda: (sl.stretch_note_sequence(x, a['fn'] / a['fd']),)
    if op == 'concat':
        xs = [cur if q == 'CUR' else _proto(q) for q in a['seqs']]
        durs = None if a['durs'] is None else [nsio.t2f(d) for d in a['durs']]
        return xs, [xs, durs], lambda: (sl.concatenate_sequences(xs, durs),)
    if op == 'repeat':
        x = seq()
        sd = None if a['sd'] is None else nsio.t2f(a['sd'])
        return [x], [], lambda: (sl.repeat_sequence_to_duration(x, nsio.t2f(a['d']), sd),)
    if op == 'adjust':
        x = seq()
        md = None if a['md'] is None else nsio.t2f(a['md'])
        f = _time_func(a['table'])
        return [x], [], lambda: sl.adjust_notesequence_times(x, f, md)
    if op == 'rectify':
        x = seq()
        return [x], [], lambda: sl.rectify_beats(x, nsio.q2f(a['bpm']))
    raise ValueError(op)


def _canon_out(op, raw, drop_rest=False):
    r = raw[0]
    if op in ('shift', 'stretch'):
        return ['OK', _canon(nsio.to_wire(r), drop_rest=drop_rest)]
    if op == 'concat':
        return ['OK', _canon(nsio.to_wire(r), drop_rest=True), _meta_of(r)]
    if op == 'repeat':
        return ['OK', _canon(nsio.to_wire(r), drop_rest=True)]
    if op == 'adjust':
        return ['OK', _canon(nsio.to_wire(r), drop_rest=drop_rest), int(raw[1])]
    if op == 'rectify':
        al = raw[1]
        return ['OK', _canon(_rect_wire(r), keep_order=True, drop_rest=drop_rest),
                [nsio.f2t(float(x)) for x in al[:, 0]], [float(x) for x in al[:, 1]]]


def _snapshot(protos, other):
    return [q.SerializeToString(deterministic=True) for q in protos], repr([len(o) if o is not None else None
                                                                            for o in other]), \
        repr(other[1]) if len(other) > 1 else ''


def _observe(op, a, cur=None, drop_rest=False):
    """One operation on the real code, observed the way section (B) of the audit asks:
    aux = [arguments untouched (in_place: result IS the argument), a second call on the same argument objects
    gives the same answer, mutating that second result changes neither the arguments nor the first result and
    the result is a new object]."""
    protos, other, call = _prepare(op, a, cur)
    snap = _snapshot(protos, other)
    inplace = op == 'stretch' and a.get('in_place')

    def once():
        try:
            raw = call()
            return raw, _canon_out(op, raw, drop_rest)
        except nsio.OffGrid:
            raise
        except Exception as e:  # noqa
            return None, _exc(e)
    raw, out = once()
    aux = [1, 1, 1]
    if inplace and raw is not None:
        aux[0] = int(raw[0] is protos[0])
        return out, aux, raw
    aux[0] = int(_snapshot(protos, other) == snap)
    raw2, out2 = once()
    aux[1] = int(out2 == out)
    if raw2 is not None and raw is not None:
        r2 = raw2[0]
        r2.total_time += 1.0
        del r2.notes[:]
        r2.tempos.add().qpm = 1.0
        r2.section_annotations.add().time = 1.0
        r2.id = 'mutated'
        aux[2] = int(_snapshot(protos, other) == snap and _canon_out(op, raw, drop_rest) == out and
                     raw[0] is not r2 and all(raw[0] is not q for q in protos))
    return out, aux, raw


def impl(case):
    op, a = case['op'], case['input']
    if op != 'chain':
        out, aux, _ = _observe(op, a)
        return out + [aux]
    cur = _proto(a['seq'])
    auxs = []
    for st in a['steps'] + [a['final']]:
        out, aux, raw = _observe(st['op'], st, cur, drop_rest=True)
        auxs.append(aux)
        if out[0] != 'OK':
            break
        cur = raw[0]
    return out + [[min(x[i] for x in auxs) for i in range(3)]]


# ---------------------------------------------------------------- model
def _minput(op, a):
    def sw(x):
        return HOLE if x == 'CUR' else _wire(x)
    if op == 'shift':
        return [1, a['d'], sw(a['seq'])]
    if op == 'stretch':
        return [2, a['fn'], a['fd'], sw(a['seq'])]
    if op == 'concat':
        return [3, [sw(q) for q in a['seqs']], a['durs'] or [],
                [_wire_meta({} if q == 'CUR' else q) for q in a['seqs']]]
    if op == 'repeat':
        return [4, sw(a['seq']), a['d'], [] if a['sd'] is None else [a['sd']]]
    if op == 'adjust':
        return [5, a['table'], [] if a['md'] is None else [a['md']], sw(a['seq'])]
    if op == 'rectify':
        return [6, a['bpm'], sw(a['seq'])]


def model_input(case):
    op, a = case['op'], case['input']
    if op == 'chain':
        return [7, _wire(a['seq']), [_minput(st['op'], st) for st in a['steps']], _minput(a['final']['op'], a['final'])]
    return _minput(op, a)


def _moutput(op, a, m, drop_rest=False):
    if m[0] == -1000:
        return ['EXC', ERR.get(m[1], 'model-error-%d' % m[1])]
    p = m[1]
    if op in ('shift', 'stretch'):
        return ['OK', _canon(p, drop_rest=drop_rest)]
    if op == 'concat':
        sc = p[1][0] + [0] * (9 - len(p[1][0]))
        return ['OK', _canon(p[0], drop_rest=True), [sc] + p[1][1:] + [0]]
    if op == 'repeat':
        return ['OK', _canon(p, drop_rest=True)]
    if op == 'adjust':
        return ['OK', _canon(p[0], drop_rest=drop_rest), p[1]]
    if op == 'rectify':
        w, beats, S = p
        unit = Fraction(60 << nsio.QPM_BITS, a['bpm']) / S          # seconds per model unit

        def sec(k):
            return float(k * unit)
        w = list(w)
        w[0] = [r[:2] + [sec(r[2]), sec(r[3])] + r[4:] for r in w[0]]
        for i in range(1, 8):
            w[i] = [[sec(r[0])] + r[1:] for r in w[i]]
        w[I_TOTAL] = sec(w[I_TOTAL])
        w[I_SUB] = [float(nsio.t2f(x)) for x in w[I_SUB]]
        return ['OK', _canon(w, keep_order=True, drop_rest=drop_rest), beats, [sec(i * S) for i in range(len(beats))]]


def model_output(case, m):
    op, a = case['op'], case['input']
    if op == 'chain':
        # an error of an earlier step ends the chain with that error; otherwise the final op's result
        return _moutput(a['final']['op'], a['final'], m, drop_rest=True) + [[1, 1, 1]]
    return _moutput(op, a, m) + [[1, 1, 1]]


def _close(x, y):
    if isinstance(x, list) and isinstance(y, list):
        return len(x) == len(y) and all(_close(p, q) for p, q in zip(x, y))
    if isinstance(x, float) or isinstance(y, float):
        if isinstance(x, (list, str)) or isinstance(y, (list, str)):
            return False
        return abs(x - y) <= TOL * max(1.0, abs(x), abs(y))
    return x == y


def equal(case, a, b):
    op = case['op']
    if op == 'rectify' or (op == 'chain' and case['input']['final']['op'] == 'rectify'):
        return _close(a, b)
    return a == b


# ---------------------------------------------------------------- oracle: the property on the implementation
def _norm(x):
    if isinstance(x, Fraction) and x.denominator == 1:
        return int(x)
    if isinstance(x, (list, tuple)):
        return [_norm(y) for y in x]
    return x


def _bag(rows):
    return sorted(repr(_norm(list(r))) for r in rows)


def _ambiguous(events):
    """True if two events at the same time carry different values (which one is in force then depends on
    storage order, which the property does not fix)."""
    seen = {}
    for r in events:
        if seen.setdefault(r[0], repr(r[1:])) != repr(r[1:]):
            return True
    return False


def _map_rows(i, rows, f):
    if i == 0:
        return [list(r[:2]) + [f(r[2]), f(r[3])] + list(r[4:]) for r in rows]
    return [[f(r[0])] + list(r[1:]) for r in rows]


def _scalars_same(win, wout, idxs, op):
    for i in idxs:
        if win[i] != wout[i]:
            return {'kind': '%s-changes-unrelated-field' % op, 'field': i, 'before': win[i], 'after': wout[i]}
    return None


def _in_force(events, t):
    """value (row without time) of the last event with time <= t in a time-sorted list"""
    v = None
    for r in events:
        if r[0] <= t:
            v = r[1:]
        else:
            break
    return v


def _expect_exc(io, cls, op, why):
    if io[0] == 'EXC' and io[1] == cls:
        return None
    return {'kind': '%s-%s-not-rejected' % (op, why), 'expected': cls, 'got': io[:2] if io[0] == 'EXC' else 'OK'}


AUX_KINDS = ['argument-modified-by-the-call', 'second-call-on-same-arguments-differs',
             'result-shares-state-with-argument-or-later-result']


def _oracle_op(op, a, io):
    if op == 'shift':
        return _oracle_shift(a, io)
    if op == 'stretch':
        return _oracle_stretch(a, io)
    if op == 'concat':
        return _oracle_concat(a, io)
    if op == 'repeat':
        return _oracle_repeat(a, io)
    if op == 'adjust':
        return _oracle_adjust(a, io)
    if op == 'rectify':
        return _oracle_rectify(a, io)


def _aux_verdict(op, a, aux, ok=True):
    for i, k in enumerate(AUX_KINDS):
        if not aux[i]:
            if i == 0 and op == 'stretch' and a.get('in_place') and ok:
                return {'kind': 'stretch-in-place-does-not-return-its-argument'}
            return {'kind': '%s-%s' % (op, k)}
    return None


def oracle(case, io):
    op, a = case['op'], case['input']
    if io[0] == 'HARNESS-EXC':
        return {'kind': '%s-output-not-representable' % op, 'detail': io[1:]}
    if op != 'chain':
        return _aux_verdict(op, a, io[-1], io[0] == 'OK') or _oracle_op(op, a, io[:-1])
    # two-step use: every step is judged on the sequence the implementation really produced before it
    cur = _proto(a['seq'])
    for k, st in enumerate(a['steps'] + [a['final']]):
        b = dict(st)
        if b.get('seq') == 'CUR':
            b['seq'] = _pseudo(cur)
        if 'seqs' in b:
            ps = _pseudo(cur)
            b['seqs'] = [ps if q == 'CUR' else q for q in b['seqs']]
        out, aux, raw = _observe(st['op'], st, cur, drop_rest=True)
        v = _aux_verdict(st['op'], st, aux, out[0] == 'OK') or _oracle_op(st['op'], b, out)
        if v:
            v['step'] = k
            v['kind'] = 'chain-' + v['kind']
            return v
        if out[0] != 'OK':
            return None
        cur = raw[0]
    return None


def _oracle_shift(a, io):
    d, desc = a['d'], a['seq']
    if d <= 0:
        return _expect_exc(io, 'ValueError', 'shift', 'non-positive-shift')
    if _quantized(desc):
        return _expect_exc(io, 'QuantizationStatusError', 'shift', 'quantized-input')
    if io[0] != 'OK':
        return {'kind': 'shift-valid-input-rejected', 'got': io[1]}
    win, wout = _wire(desc), io[1]
    for i, name in enumerate(LISTS):
        if _bag(_map_rows(i, win[i], lambda t: t + d)) != _bag(wout[i]):
            return {'kind': 'shift-%s-not-moved-by-shift' % name, 'd': d}
    if wout[I_TOTAL] != win[I_TOTAL] + d:
        return {'kind': 'shift-total-time-wrong', 'd': d, 'got': wout[I_TOTAL]}
    if wout[I_SUB] != [0, 0]:
        return {'kind': 'shift-subsequence-info-not-cleared'}
    return _scalars_same(win, wout, (I_QSTEPS, I_SPQ, I_SPS, I_TPQ, I_REST), 'shift')


def _oracle_stretch(a, io):
    fn, fd, desc = a['fn'], a['fd'], a['seq']
    if _quantized(desc):
        return _expect_exc(io, 'QuantizationStatusError', 'stretch', 'quantized-input')
    if io[0] != 'OK':
        return {'kind': 'stretch-valid-input-rejected', 'got': io[1]}
    f = Fraction(fn, fd)
    win, wout = _wire(desc), io[1]
    for i, name in enumerate(LISTS):
        exp = _map_rows(i, win[i], lambda t: t * f)
        if name == 'tempos':
            exp = [[r[0], r[1] / f] for r in exp]
        if _bag(exp) != _bag(wout[i]):
            if name == 'sects' and _bag(win[i]) == _bag(wout[i]):
                return {'kind': 'stretch-section-annotations-not-moved', 'factor': [fn, fd]}
            return {'kind': 'stretch-%s-not-scaled' % name, 'factor': [fn, fd]}
    if wout[I_TOTAL] != win[I_TOTAL] * f:
        return {'kind': 'stretch-total-time-wrong', 'factor': [fn, fd], 'got': wout[I_TOTAL]}
    return _scalars_same(win, wout, (I_QSTEPS, I_SPQ, I_SPS, I_SUB, I_TPQ, I_REST), 'stretch')


def _oracle_concat(a, io):
    seqs, durs = a['seqs'], a['durs']
    if durs and len(durs) != len(seqs):
        return _expect_exc(io, 'ValueError', 'concat', 'duration-count-mismatch')
    use = bool(durs)
    if any(_quantized(s) for s in seqs):
        return None                         # outside the quantifier (unquantized pieces)
    if use and any(d < s['total'] for d, s in zip(durs, seqs)):
        return _expect_exc(io, 'ValueError', 'concat', 'short-duration')
    if io[0] != 'OK':
        return {'kind': 'concat-valid-input-rejected', 'got': io[1]}
    wout = io[1]
    off = 0
    exp = [[] for _ in LISTS]
    last_end = 0
    for k, s in enumerate(seqs):
        w = _wire(s)
        for i in range(8):
            exp[i] += _map_rows(i, w[i], lambda t: t + off)
        last_end = off + w[I_TOTAL]
        off += durs[k] if use else w[I_TOTAL]
    for i, name in enumerate(LISTS):
        if name in ('tempos', 'tsigs', 'ksigs'):
            want, got = _bag(exp[i]), _bag(wout[i])
            rest = list(want)
            for g in got:
                if g in rest:
                    rest.remove(g)
                else:
                    return {'kind': 'concat-%s-invented-or-misplaced' % name, 'event': g}
            if _ambiguous(exp[i]):
                continue
            allsorted = sorted(exp[i], key=lambda r: r[0])
            outsorted = sorted(wout[i], key=lambda r: r[0])
            times = sorted(set(r[0] for r in allsorted))
            # value in force after all events at each time must be unchanged
            for t in times:
                if _in_force(allsorted, t) != _in_force(outsorted, t):
                    return {'kind': 'concat-%s-in-force-changed' % name, 'time': t}
            for x, y in zip(outsorted, outsorted[1:]):
                if x[1:] == y[1:]:
                    return {'kind': 'concat-%s-redundant-event-kept' % name, 'event': y}
        elif _bag(exp[i]) != _bag(wout[i]):
            return {'kind': 'concat-%s-not-placed-after-earlier-pieces' % name}
    if wout[I_TOTAL] != last_end:
        return {'kind': 'concat-total-time-wrong', 'expected': last_end, 'got': wout[I_TOTAL]}
    if wout[I_SUB] != [0, 0]:
        return {'kind': 'concat-subsequence-info-not-cleared'}
    # the rest of the message: last non-default scalar wins, repeated fields appended in piece order,
    # composers / genres without repeats
    ms = [_wire_meta(s) for s in seqs]
    sc = [0] * 9
    for m in ms:
        sc = [y if y else x for x, y in zip(sc, m[0])]

    def uniq(xs):
        out = []
        for x in xs:
            if x not in out:
                out.append(x)
        return out
    exp = [sc, uniq([c for m in ms for c in m[1]]), uniq([c for m in ms for c in m[2]]),
           [r for m in ms for r in m[3]], [r for m in ms for r in m[4]], [r for m in ms for r in m[5]], 0]
    names = ['scalars', 'composers', 'genres', 'instrument-infos', 'part-infos', 'section-groups', 'other-fields']
    for nm, x, y in zip(names, exp, io[2]):
        if x != y:
            return {'kind': 'concat-metadata-%s-not-merged' % nm, 'expected': x, 'got': y}
    return None


def _oracle_repeat(a, io):
    desc, d, sd = a['seq'], a['d'], a['sd']
    dur = sd if sd else desc['total']
    if dur == 0:
        return _expect_exc(io, 'ZeroDivisionError', 'repeat', 'zero-duration')
    if dur < desc['total'] or _quantized(desc):
        return None                         # outside the quantifier (duration >= total_time, unquantized)
    n = -((-d) // dur)
    if n <= 0 or (n - 1) * dur + desc['total'] == 0:
        # nothing to cut: the code happens to raise ValueError (extract_subsequence rejects total_time 0); the
        # property only requires that nothing is invented, so an empty result is accepted as well
        if io[0] == 'OK' and not io[1][0] and io[1][I_TOTAL] == 0:
            return None
        return _expect_exc(io, 'ValueError', 'repeat', 'empty-result')
    if io[0] != 'OK':
        return {'kind': 'repeat-valid-input-rejected', 'got': io[1]}
    if not ((n - 1) * dur < d <= n * dur):
        return {'kind': 'oracle-internal'}
    wout = io[1]
    if wout[I_SUB] != [0, 0]:
        return {'kind': 'repeat-subsequence-info-not-cleared', 'got': wout[I_SUB]}
    w = _wire(desc)
    exp = []
    for k in range(n):
        for r in w[0]:
            s, e = r[2] + k * dur, r[3] + k * dur
            if s < d:
                exp.append(list(r[:2]) + [s, min(e, d)] + list(r[4:]))
    if _bag(exp) != _bag(wout[0]):
        return {'kind': 'repeat-notes-not-copies-cut-at-duration', 'copies': n, 'expected': len(exp), 'got': len(wout[0])}
    if wout[I_TOTAL] != max([r[3] for r in exp] + [0]):
        return {'kind': 'repeat-total-time-wrong', 'got': wout[I_TOTAL]}
    # tempo / time signature / key in force at every instant of [0, d) is that of the copies
    for i in (1, 2, 3):
        allev = sorted([[r[0] + k * dur] + list(r[1:]) for k in range(n) for r in w[i]], key=lambda r: r[0])
        outsorted = sorted(wout[i], key=lambda r: r[0])
        for t in sorted(set([r[0] for r in allev if r[0] < d] + [0])):
            if _ambiguous(allev):
                break                       # coinciding different values: order-dependent, not fixed by the property
            if _in_force(allev, t) != _in_force(outsorted, t):
                return {'kind': 'repeat-%s-in-force-changed' % LISTS[i], 'time': t}
        if any(r[0] >= d or r[0] < 0 for r in outsorted):
            return {'kind': 'repeat-%s-outside-window' % LISTS[i]}
        # "the concatenation of enough copies": concatenation keeps no tempo / time signature / key that repeats
        # the value already in force, for ANY number of copies, one included
        if not _ambiguous(allev):
            for x, y in zip(outsorted, outsorted[1:]):
                if x[1:] == y[1:]:
                    return {'kind': 'repeat-%s-redundant-event-kept' % LISTS[i], 'copies': n, 'event': y}
    from note_seq import sequences_lib as sl
    # the statement itself through the library's own public building blocks: concatenate the documented number of
    # copies, cut at d (the input may be a pseudo-description in a chain: then the copies are built from its wire)
    if '_wire' not in desc:
        piece = _proto(desc)
        ref = sl.extract_subsequence(
            sl.concatenate_sequences([piece] * n, sequence_durations=[nsio.t2f(dur)] * n), 0.0, nsio.t2f(d))
        ref.ClearField('subsequence_info')
        wref = _canon(nsio.to_wire(ref), drop_rest=True)
        for i, name in enumerate(LISTS):
            if wref[i] != wout[i]:
                return {'kind': 'repeat-%s-differ-from-cut-of-concatenated-copies' % name, 'copies': n,
                        'expected': len(wref[i]), 'got': len(wout[i])}
        if wref[I_TOTAL] != wout[I_TOTAL]:
            return {'kind': 'repeat-total-time-differs-from-cut-of-concatenated-copies', 'copies': n}
    # control changes: only the preserved (pedal) numbers survive; per (instrument, number) the value in force
    # at every instant of [0, d) is that of the copies
    pres = set(sl.DEFAULT_SUBSEQUENCE_PRESERVE_CONTROL_NUMBERS)
    if set([64, 66, 67]) != pres:
        return {'kind': 'preserved-control-numbers-changed', 'got': sorted(pres)}
    if any(r[2] not in pres for r in wout[5]):
        return {'kind': 'repeat-non-pedal-control-change-kept'}
    if any(r[0] >= d or r[0] < 0 for r in wout[5]):
        return {'kind': 'repeat-ccs-outside-window'}
    allcc = [[r[0] + k * dur] + list(r[1:]) for k in range(n) for r in w[5] if r[2] in pres]
    for key in set((r[4], r[2]) for r in allcc) | set((r[4], r[2]) for r in wout[5]):
        a_ = sorted([r for r in allcc if (r[4], r[2]) == key], key=lambda r: r[0])
        o_ = sorted([r for r in wout[5] if (r[4], r[2]) == key], key=lambda r: r[0])
        if _ambiguous(a_):
            continue
        for t in sorted(set([r[0] for r in a_ if r[0] < d] + [0])):
            if _in_force(a_, t) != _in_force(o_, t):
                return {'kind': 'repeat-pedal-in-force-changed', 'key': list(key), 'time': t}
    return None


def _oracle_adjust(a, io):
    tbl, md, desc = a['table'], a['md'], a['seq']
    f = lambda t: table_map(tbl, t)  # noqa
    w = _wire(desc)
    reject = False
    kept = []
    collapsed = 0
    for r in w[0]:
        s, e = f(r[2]), f(r[3])
        if s == e:
            if md:
                e += md
            else:
                collapsed += 1
                continue
        if e < s or s < 0:
            reject = True
        kept.append(list(r[:2]) + [s, e] + list(r[4:]))
    neg_sect = any(f(r[0]) < 0 for r in w[7])
    for i in (2, 3, 4, 5, 6):
        if any(f(r[0]) < 0 for r in w[i]):
            reject = True
    if reject:
        return _expect_exc(io, 'InvalidTimeAdjustmentError', 'adjust', 'reversing-or-negative-map')
    if neg_sect:
        v = _expect_exc(io, 'InvalidTimeAdjustmentError', 'adjust', 'negative-section-annotation')
        if v:
            v['kind'] = 'adjust-section-annotations-not-moved'
        return v
    if io[0] != 'OK':
        return {'kind': 'adjust-valid-map-rejected', 'got': io[1]}
    wout, skipped = io[1], io[2]
    if _bag(kept) != _bag(wout[0]):
        return {'kind': 'adjust-notes-not-mapped-or-wrongly-dropped', 'expected': len(kept), 'got': len(wout[0])}
    if skipped != collapsed:
        return {'kind': 'adjust-skipped-count-wrong', 'expected': collapsed, 'got': skipped}
    if wout[1]:
        return {'kind': 'adjust-tempos-not-deleted'}
    for i in (2, 3, 4, 5, 6, 7):
        if _bag(_map_rows(i, w[i], f)) != _bag(wout[i]):
            if i == 7 and _bag(w[i]) == _bag(wout[i]):
                return {'kind': 'adjust-section-annotations-not-moved'}
            return {'kind': 'adjust-%s-not-mapped' % LISTS[i]}
    if wout[I_TOTAL] != max([r[3] for r in kept] + [0]):
        return {'kind': 'adjust-total-time-wrong', 'got': wout[I_TOTAL]}
    return _scalars_same(w, wout, (I_QSTEPS, I_SPQ, I_SPS, I_SUB, I_TPQ, I_REST), 'adjust')


def _oracle_rectify(a, io):
    bpm, desc = a['bpm'], a['seq']
    if _quantized(desc):
        return _expect_exc(io, 'QuantizationStatusError', 'rectify', 'quantized-input')
    w = _wire(desc)
    total = w[I_TOTAL]
    beats = sorted(set([0, total] + [r[0] for r in w[4] if r[3] == 2 and r[0] <= total]))
    if not [r for r in w[4] if r[3] == 2 and r[0] <= total]:
        return _expect_exc(io, 'RectifyBeatsError', 'rectify', 'no-beats')
    if io[0] != 'OK':
        return {'kind': 'rectify-valid-input-rejected', 'got': io[1]}
    wout, al0, al1 = io[1], io[2], io[3]
    spb = Fraction(60 << nsio.QPM_BITS, bpm)
    if al0 != beats:
        return {'kind': 'rectify-alignment-beats-wrong', 'expected': beats, 'got': al0}
    for i, y in enumerate(al1):
        if not _close(float(i * spb), y):
            return {'kind': 'rectify-beat-not-regular', 'beat': i, 'got': y}

    def tick_sec(t):
        return float(Fraction(t, 1 << nsio.TICK_BITS))
    # 1. monotone: the events of the 1:1 lists keep their time order
    pairs = []
    for i in (3, 4, 5, 6, 7):
        if len(w[i]) != len(wout[i]):
            return {'kind': 'rectify-%s-count-changed' % LISTS[i]}
        pairs += [(x[0], y[0], LISTS[i]) for x, y in zip(w[i], wout[i])]
    pairs.sort(key=lambda p: p[0])
    for (t1, o1, k1), (t2, o2, k2) in zip(pairs, pairs[1:]):
        if o2 < o1 - TOL * max(1.0, abs(o1)):
            return {'kind': 'rectify-map-not-monotone', 'earlier': [t1, o1, k1], 'later': [t2, o2, k2]}
        if t1 == t2 and not _close(o1, o2):
            return {'kind': 'rectify-map-not-a-function', 'time': t1}
    # 2. beats land on the regular grid, everything else is interpolated between its neighbouring beats and
    #    saturates at the last beat
    def g(t):
        if t >= beats[-1]:
            return (len(beats) - 1) * spb
        j = max(i for i, b in enumerate(beats) if b <= t)
        return (j + Fraction(t - beats[j], beats[j + 1] - beats[j])) * spb
    for (t, o, k) in pairs:
        if not _close(float(g(t)), o):
            return {'kind': 'rectify-event-not-on-beat-map', 'list': k, 'time': t, 'expected': float(g(t)), 'got': o}
    kept = [list(r[:2]) + [float(g(r[2])), float(g(r[3]))] + list(r[4:]) for r in w[0] if g(r[2]) != g(r[3])]
    if not _close(kept, [list(r) for r in wout[0]]):
        return {'kind': 'rectify-notes-not-on-beat-map', 'expected': len(kept), 'got': len(wout[0])}
    if wout[2]:
        return {'kind': 'rectify-time-signatures-kept'}
    if not _close(wout[1], [[0.0, bpm]]):
        return {'kind': 'rectify-tempo-wrong', 'got': wout[1]}
    if not _close(wout[I_TOTAL], max([r[3] for r in kept] + [0.0])):
        return {'kind': 'rectify-total-time-wrong'}
    return None


def nontrivial(case, io):
    if io[0] == 'EXC':
        return True
    if io[0] != 'OK':
        return False
    w = io[1]
    return len(w[0]) > 0 and any(len(w[i]) > 0 for i in range(1, 8))


def shrink(case):
    op, a = case['op'], case['input']
    if op == 'chain':
        for i in range(len(a['steps'])):
            b = dict(a); b['steps'] = a['steps'][:i] + a['steps'][i + 1:]
            yield {'op': op, 'input': b}
        if a['steps']:
            b = dict(a); b['final'] = a['steps'][-1]; b['steps'] = a['steps'][:-1]
            yield {'op': op, 'input': b}
        for q in nsio.shrink_desc(a['seq']):
            b = dict(a); b['seq'] = q
            yield {'op': op, 'input': b}
        return
    if 'seq' in a:
        for s in nsio.shrink_desc(a['seq']):
            b = dict(a); b['seq'] = s
            yield {'op': op, 'input': b}
    if op == 'concat':
        seqs = a['seqs']
        if len(seqs) > 1:
            for i in range(len(seqs)):
                b = dict(a); b['seqs'] = seqs[:i] + seqs[i + 1:]
                if a['durs']:
                    b['durs'] = a['durs'][:i] + a['durs'][i + 1:]
                yield {'op': op, 'input': b}
        for i, s in enumerate(seqs):
            for s2 in nsio.shrink_desc(s):
                if s2['total'] != s['total']:
                    continue
                b = dict(a); b['seqs'] = seqs[:i] + [s2] + seqs[i + 1:]
                yield {'op': op, 'input': b}
    if op == 'adjust' and len(a['table']) > 1:
        for i in range(1, len(a['table'])):
            b = dict(a); b['table'] = a['table'][:i] + a['table'][i + 1:]
            yield {'op': op, 'input': b}


META = {
    'level_text': ('Theorems for ALL sequences (every event kind, any length), all shifts, all exact stretch factors, all '
                   'lists of pieces with or without explicit durations, all target durations, ALL time maps (adjust is '
                   'quantified over an arbitrary function Z -> Z) and all beat annotations, about a Gallina model of the '
                   'six anchored functions in exact tick arithmetic; the model is tied to note_seq by a differential run '
                   'on generated inputs and the property statement is re-evaluated on the implementation output by an '
                   'independent oracle.'),
    'level_note': ('Trusted: Coq kernel; the hand-written model Model/TimeOps.v (tied by correspondence only); exact-tick '
                   'reading of float arithmetic (dyadic grid); rectify compared with 1e-9 tolerance; protobuf '
                   'copy/merge semantics; the pedal pass of extract_subsequence inside repeat is not modelled.'),
}
