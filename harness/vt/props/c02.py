"""C02 — extracting or splitting a sequence partitions its notes and carries state over.

Anchors: note_seq/sequences_lib.py `_extract_subsequences`, `extract_subsequence`,
`trim_note_sequence`, `split_note_sequence` (scalar and list form),
`split_note_sequence_on_time_changes`, `split_note_sequence_on_silence`.
Model: coq/Model/Extract.v, coq/Model/Split.v; theorems: coq/Props/C02.v.

All times are exact ticks (1 tick = 2**-40 s) on which the implementation's float
comparisons, min/max and +/- are exact, so implementation and model are compared as
integers.
"""
import itertools

from vt import coqgen as G
from vt import nsio

ID = 'C02'
RULE = ('seeded structured NoteSequences (every event kind, coinciding times, per-instrument pedals) x split-time '
        'vectors drawn from the sequence\'s own event times, those times +-1..2 ticks, a coarse grid and total_time; '
        'hop/gap sizes on a 2^-20 s grid; plus a malformed stream (unsorted / too few / past-the-end split times, '
        'quantized sequences, zero/negative hops).  A case is non-trivial when the implementation returned pieces '
        'and at least one of: >= 2 pieces, a clipped note, a carried-over state/pedal event, a dropped split point; '
        'distinct by hash of the canonical input')
ASSUMPTIONS = [
    'times are multiples of 2^-40 s below 2^12 s, so float comparison/min/max/+/- in the code are exact and equal the '
    'model\'s integer arithmetic (checked: a result off the grid is a harness error, never silently rounded)',
    'np.arange(hop, total, hop) for hop on the 2^-20 s grid equals the exact multiples k*hop < total '
    '(k*hop needs < 53 bits); non-dyadic hops are not modelled',
    'qpm values are multiples of 2^-20 (float equality of tempos is then integer equality)',
    'section annotations, UNKNOWN text annotations, pitch bends, non-pedal control changes and sequence-level metadata of '
    'the pieces are not compared (the property does not speak about them)',
]
USE_VM = False

OPS = {'extract': 1, 'extract1': 2, 'trim': 3, 'split_hop': 4, 'split_list': 5, 'split_tc': 6, 'split_silence': 7}
ERR = {1: 'QuantizationStatusError', 2: 'ValueError', 3: 'ValueError', 4: 'ValueError', 5: 'HOP0'}
Q = nsio.QUARTER_SEC
HOP_UNIT = 1 << 20          # 2^-20 s in ticks
PEDALS = (64, 66, 67)       # the control numbers the property statement names


def gen_coq():
    from note_seq import constants, sequences_lib
    from note_seq.protobuf import music_pb2
    s = G.HEADER
    s += G.defzlist('DEFAULT_PRESERVE', list(sequences_lib.DEFAULT_SUBSEQUENCE_PRESERVE_CONTROL_NUMBERS))
    s += G.defz('G_CHORD_SYMBOL', int(sequences_lib.CHORD_SYMBOL))
    s += G.defz('G_BEAT', int(sequences_lib.BEAT))
    s += G.defz('G_UNKNOWN', int(music_pb2.NoteSequence.TextAnnotation.UNKNOWN))
    s += G.defz('DEFAULT_QPM', nsio.f2q(float(constants.DEFAULT_QUARTERS_PER_MINUTE)))
    return s


# ---------------------------------------------------------------- generator
def _times_of(d):
    ts = set([0, d['total']])
    for n in d['notes']:
        ts.add(n[2]); ts.add(n[3])
    for f in ('tempos', 'tsigs', 'ksigs', 'texts', 'ccs'):
        for r in d[f]:
            ts.add(r[0])
    return sorted(ts)


def _cut(rng, pool, hi):
    r = rng.random()
    if pool and r < 0.6:
        t = rng.choice(pool)
        if rng.random() < 0.2:
            t = max(0, t + rng.choice([-2, -1, 1, 2]))
        return t
    return rng.randint(0, hi) * Q


def _gen_seq(rng, small=False):
    if small:
        d = nsio.gen_desc(rng, max_notes=4, max_instr=2, hi_quarters=12, max_events=2, sects=False, meta=False)
    else:
        d = nsio.gen_desc(rng, max_notes=rng.choice([3, 8, 14]), max_instr=3, hi_quarters=rng.choice([12, 40]),
                          max_events=rng.choice([1, 3, 5]), meta=rng.random() < 0.3)
    if rng.random() < 0.08:
        # malformed notes also reach the code: end before start, note beyond total_time
        for n in d['notes']:
            if rng.random() < 0.3 and n[3] > 0:
                n[3] = rng.randint(0, n[3])
    if rng.random() < 0.04:
        if rng.random() < 0.5:
            d['spq'] = 4
        else:
            d['sps'] = 100
    if rng.random() < 0.05 and d['notes']:
        d['notes'].append([d['notes'][0][0], 64, d['total'], d['total'], 0, 0, 0, 0, 0, 0])   # zero length, at total_time
    if rng.random() < 0.3:
        # the input is itself a piece of an earlier extraction: it already carries a subsequence_info
        d['sub'] = [rng.randint(0, 12) * Q + rng.choice([0, 0, 1, 1 << 20]), rng.randint(0, 12) * Q]
    return d


def _gen_ts(rng, d, allow_bad=True):
    pool = _times_of(d)
    hi = max(4, d['total'] // Q + 4)
    k = rng.choice([2, 2, 3, 3, 4, 5, 7])
    ts = sorted(_cut(rng, pool, hi) for _ in range(k))
    r = rng.random()
    if allow_bad and r < 0.05:
        rng.shuffle(ts)
    elif allow_bad and r < 0.08:
        ts = ts[:rng.randint(0, 1)]
    elif r < 0.55 and d['total'] > 0:
        # mostly valid: every start before total_time
        ts = [t for t in ts if t < d['total']] or [0]
        if rng.random() < 0.7:
            ts.append(rng.choice([d['total'], d['total'] + Q, d['total'] - 1 if d['total'] > ts[-1] + 1 else d['total']]))
        ts = sorted(ts)
        if len(ts) < 2:
            ts.append(ts[-1] + Q)
    return ts


def _second(rng):
    """Parameters of the second cut of a two-step case; split times are given as eighths of the
    intermediate piece's total_time (resolved once the piece is known)."""
    r = rng.random()
    if r < 0.35:
        k = rng.choice([2, 3, 3, 4])
        return {'op': 'extract', 'eighths': sorted(rng.randint(0, 8) for _ in range(k)), 'pres': None}
    if r < 0.6:
        return {'op': 'split_hop', 'hop': rng.choice([Q, 2 * Q, 3 * Q, 5 * Q]), 'skip': int(rng.random() < 0.5)}
    if r < 0.8:
        return {'op': 'split_silence', 'gap': rng.choice([0, Q, 2 * Q, 4 * Q])}
    return {'op': 'split_tc', 'skip': int(rng.random() < 0.5)}


def _two_step(rng, d):
    r = rng.random()
    if r < 0.4:
        first = {'op': 'split_hop', 'hop': rng.choice([2 * Q, 3 * Q, 4 * Q, 6 * Q]), 'skip': int(rng.random() < 0.3)}
    elif r < 0.6:
        first = {'op': 'split_tc', 'skip': int(rng.random() < 0.3)}
    elif r < 0.8:
        first = {'op': 'split_silence', 'gap': rng.choice([0, Q, 2 * Q])}
    else:
        ts = _gen_ts(rng, d, allow_bad=False)
        first = {'op': 'extract', 'ts': ts, 'pres': None}
    return {'op': 'two_step', 'input': {'seq': d, 'first': first, 'pick': rng.randint(0, 7), 'second': _second(rng)}}


def _gen_pres(rng):
    """preserve_control_numbers: None (default), an explicit empty list, or other number sets (also as tuple-free
    lists containing non-pedal numbers that do occur in the generated control changes: 7, 1)"""
    if rng.random() < 0.7:
        return None
    return rng.choice([[], [], [64], [67], [7, 64], [1, 66, 67], [66, 64], [7], [64, 66, 67, 1, 7]])


def _omit(rng):
    """1: keyword arguments whose requested value is the documented default are not passed at all"""
    return int(rng.random() < 0.5)


def _one(rng, small=False):
    d = _gen_seq(rng, small)
    if rng.random() < 0.12:
        d['spq'] = d['sps'] = 0
        if d['total'] // (2 * Q) > 48:
            d['total'] = 96 * Q
        return _two_step(rng, d)
    r = rng.random()
    if r < 0.40:
        ts = _gen_ts(rng, d)
        if rng.random() < 0.04:
            ts = sorted([-rng.randint(1, 4) * Q] + ts)       # a cut before time zero is legal
        return {'op': 'extract', 'input': {'seq': d, 'ts': ts, 'pres': _gen_pres(rng), 'omit': _omit(rng)}}
    if r < 0.47:
        ts = _gen_ts(rng, d, allow_bad=False)
        a, b = ts[0], ts[-1]
        if rng.random() < 0.1:
            a, b = b, a
        return {'op': 'extract1', 'input': {'seq': d, 'a': a, 'b': b, 'pres': _gen_pres(rng), 'omit': _omit(rng)}}
    if r < 0.52:
        ts = _gen_ts(rng, d, allow_bad=False)
        a, b = ts[0], ts[-1]
        if rng.random() < 0.1:
            a, b = b, a
        return {'op': 'trim', 'input': {'seq': d, 'a': a, 'b': b}}
    if r < 0.66:
        hop = rng.choice([Q, 2 * Q, 3 * Q, 4 * Q, 6 * Q, 10 * Q, rng.randint(1, 1 << 23) * HOP_UNIT,
                          rng.randint(1 << 17, 1 << 22) * HOP_UNIT])
        x = rng.random()
        if x < 0.04:
            hop = 0
        elif x < 0.08:
            hop = -hop
        elif x < 0.2 and d['total'] > 0:
            # a hop that divides total_time exactly (last multiple == total_time is excluded)
            hop = max(HOP_UNIT, (d['total'] // rng.randint(1, 6)) // HOP_UNIT * HOP_UNIT)
        if hop > 0 and d['total'] // hop > 48:
            # keep the number of pieces small (np.arange + one deep copy per piece in the code)
            hop = ((d['total'] // 48) // HOP_UNIT + 1) * HOP_UNIT
        return {'op': 'split_hop', 'input': {'seq': d, 'hop': hop, 'skip': int(rng.random() < 0.5), 'omit': _omit(rng)}}
    if r < 0.78:
        pool = _times_of(d)
        hi = max(4, d['total'] // Q + 2)
        l = [_cut(rng, pool, hi) for _ in range(rng.randint(0, 5))]
        if rng.random() < 0.85:
            l = sorted(set(t for t in l if 0 < t < d['total']))
            if rng.random() < 0.5:
                rng.shuffle(l)
        return {'op': 'split_list', 'input': {'seq': d, 'times': l, 'skip': int(rng.random() < 0.5), 'omit': _omit(rng)}}
    if r < 0.90:
        # make "didn't actually change" events likely
        for t in d['tsigs']:
            if rng.random() < 0.4:
                t[1], t[2] = 4, 4
        for t in d['tempos']:
            if rng.random() < 0.4:
                t[1] = 120 << nsio.QPM_BITS
        return {'op': 'split_tc', 'input': {'seq': d, 'skip': int(rng.random() < 0.5), 'omit': _omit(rng)}}
    gap = rng.choice([0, 1, Q, 2 * Q, 4 * Q, 12 * Q, 12 * Q - 1, 12 * Q + 1, rng.randint(0, 1 << 22) * HOP_UNIT, None, None,
                      -Q if rng.random() < 0.3 else Q])
    if gap is None or gap >= 12 * Q - 1:
        # silences around the documented default of 3 s must exist for it to matter
        for n in d['notes']:
            if rng.random() < 0.3:
                n[2] += 13 * Q; n[3] += 13 * Q
        d['total'] = max([d['total']] + [n[3] for n in d['notes']])
    return {'op': 'split_silence', 'input': {'seq': d, 'gap': gap}}


def cases(rng, tier, n=None):
    if n is None:
        n = 5000 if tier == 'quick' else 150000
    out = [_one(rng, small=(i % 3 == 0)) for i in range(n)]
    if tier == 'thorough':
        # all cut vectors of length <= 3 over the event-time set for sequences of <= 4 notes
        for _ in range(150):
            d = nsio.gen_desc(rng, max_notes=4, max_instr=2, hi_quarters=8, max_events=2, sects=False, meta=False)
            pool = _times_of(d)
            if len(pool) > 9:
                pool = sorted(rng.sample(pool, 9))
            for k in (2, 3):
                for ts in itertools.combinations_with_replacement(pool, k):
                    out.append({'op': 'extract', 'input': {'seq': d, 'ts': list(ts), 'pres': None}})
    return out


def _d(notes=(), total=0, **kw):
    d = {'notes': [list(n) for n in notes], 'tempos': [], 'tsigs': [], 'ksigs': [], 'texts': [], 'ccs': [],
         'bends': [], 'sects': [], 'total': total, 'qsteps': 0, 'spq': 0, 'sps': 0, 'sub': [0, 0], 'tpq': 220,
         'meta': None}
    d.update(kw)
    return d


def _n(p, s, e, instr=0, vel=100):
    return [p, vel, s, e, instr, 0, 0, 0, 0, 0]


def corpus():
    q = Q
    base = _d([_n(60, 0, 4 * q), _n(62, 2 * q, 6 * q), _n(64, 6 * q, 6 * q), _n(65, 8 * q, 12 * q, 1)],
              total=12 * q,
              tempos=[[0, 120 << 20], [4 * q, 90 << 20], [4 * q, 60 << 20], [8 * q, 60 << 20]],
              tsigs=[[0, 4, 4], [6 * q, 3, 4], [9 * q, 3, 4]],
              ksigs=[[2 * q, 3, 0], [6 * q, 5, 1]],
              texts=[[0, 0, 'C', 1], [6 * q, 0, 'G7', 1], [1 * q, 0, 'beat', 2], [6 * q, 0, 'beat', 2],
                     [3 * q, 0, 'lyric', 0]],
              ccs=[[q, 0, 64, 127, 0, 0, 0], [5 * q, 0, 64, 0, 0, 0, 0], [q, 0, 64, 100, 1, 0, 0],
                   [6 * q, 0, 67, 127, 1, 0, 0], [2 * q, 0, 7, 90, 0, 0, 0]],
              bends=[[q, 100, 0, 0, 0]])
    out = [
        {'op': 'extract', 'input': {'seq': base, 'ts': [0, 6 * q, 12 * q], 'pres': None}},
        {'op': 'extract', 'input': {'seq': base, 'ts': [2 * q, 4 * q, 4 * q, 6 * q, 13 * q], 'pres': None}},
        {'op': 'extract', 'input': {'seq': base, 'ts': [6 * q - 1, 6 * q, 6 * q + 1], 'pres': [64]}},
        {'op': 'extract', 'input': {'seq': base, 'ts': [6 * q], 'pres': None}},
        {'op': 'extract', 'input': {'seq': base, 'ts': [6 * q, 2 * q], 'pres': None}},
        {'op': 'extract', 'input': {'seq': base, 'ts': [0, 12 * q, 13 * q], 'pres': None}},
        {'op': 'extract', 'input': {'seq': dict(base, spq=4), 'ts': [0, 6 * q], 'pres': None}},
        {'op': 'extract1', 'input': {'seq': base, 'a': 3 * q, 'b': 9 * q}},
        {'op': 'trim', 'input': {'seq': base, 'a': 2 * q, 'b': 7 * q}},
        {'op': 'split_hop', 'input': {'seq': base, 'hop': 3 * q, 'skip': 0}},
        {'op': 'split_hop', 'input': {'seq': base, 'hop': 3 * q, 'skip': 1}},
        {'op': 'split_hop', 'input': {'seq': base, 'hop': 0, 'skip': 0}},
        {'op': 'split_hop', 'input': {'seq': base, 'hop': -q, 'skip': 0}},
        {'op': 'split_hop', 'input': {'seq': _d(total=0), 'hop': q, 'skip': 0}},
        {'op': 'split_list', 'input': {'seq': base, 'times': [7 * q, 3 * q, 6 * q], 'skip': 1}},
        {'op': 'split_list', 'input': {'seq': base, 'times': [0, 6 * q, 6 * q], 'skip': 0}},
        {'op': 'split_list', 'input': {'seq': base, 'times': [13 * q, 14 * q], 'skip': 0}},
        {'op': 'split_tc', 'input': {'seq': base, 'skip': 0}},
        {'op': 'split_tc', 'input': {'seq': base, 'skip': 1}},
        {'op': 'split_silence', 'input': {'seq': base, 'gap': q}},
        {'op': 'split_silence', 'input': {'seq': base, 'gap': 0}},
        # zero-length note exactly at total_time after a silence
        {'op': 'split_silence', 'input': {'seq': _d([_n(60, 0, q), _n(61, 8 * q, 8 * q)], total=8 * q), 'gap': q}},
        {'op': 'split_list', 'input': {'seq': base, 'times': [], 'skip': 0, 'omit': 1}},
        {'op': 'split_silence', 'input': {'seq': base, 'gap': None}},
        {'op': 'split_silence', 'input': {'seq': _d([_n(60, 0, q), _n(61, 13 * q, 14 * q), _n(62, 27 * q, 28 * q)], total=28 * q),
                                          'gap': None}},     # 3 s exactly is not a silence, 3.25 s is
        {'op': 'extract', 'input': {'seq': base, 'ts': [-q, 6 * q, 12 * q], 'pres': [], 'omit': 0}},
        {'op': 'extract1', 'input': {'seq': base, 'a': 3 * q, 'b': 9 * q, 'pres': [67, 7], 'omit': 0}},
        {'op': 'extract1', 'input': {'seq': base, 'a': 3 * q, 'b': 9 * q, 'pres': None, 'omit': 1}},
        {'op': 'extract', 'input': {'seq': base, 'ts': [0, 6 * q, 5 * q, 12 * q], 'pres': None, 'omit': 1}},   # unsorted pair not first
        {'op': 'extract', 'input': {'seq': base, 'ts': [0, 6 * q, 12 * q, 12 * q], 'pres': None, 'omit': 1}},  # past-end start last
        # inputs that are themselves pieces of an earlier cut (subsequence_info already set)
        {'op': 'extract', 'input': {'seq': dict(base, sub=[5 * q, 2 * q]), 'ts': [q, 6 * q, 12 * q], 'pres': None}},
        {'op': 'split_hop', 'input': {'seq': dict(base, sub=[3 * q, 0]), 'hop': 4 * q, 'skip': 0}},
        {'op': 'two_step', 'input': {'seq': base, 'first': {'op': 'split_tc', 'skip': 0}, 'pick': 1,
                                     'second': {'op': 'split_hop', 'hop': q, 'skip': 0}}},
        {'op': 'two_step', 'input': {'seq': base, 'first': {'op': 'split_hop', 'hop': 4 * q, 'skip': 0}, 'pick': 2,
                                     'second': {'op': 'extract', 'eighths': [0, 2, 8], 'pres': None}}},
        {'op': 'two_step', 'input': {'seq': base, 'first': {'op': 'extract', 'ts': [2 * q, 9 * q, 12 * q], 'pres': None},
                                     'pick': 0, 'second': {'op': 'split_silence', 'gap': q}}},
    ]
    return out


# ---------------------------------------------------------------- canonical forms
def _group_ccs(ccs):
    keys = sorted(set((c[4], c[2]) for c in ccs))
    return [[list(k), [c for c in ccs if (c[4], c[2]) == k]] for k in keys]


def canon_piece(w):
    """w: a sequence in wire layout (nsio.to_wire / Base.NoteSeq.oSeq)."""
    texts = w[4]
    return [sorted(w[0]), w[1], w[2], w[3],
            [t for t in texts if t[3] == 1], [t for t in texts if t[3] == 2],
            _group_ccs(w[5]), w[8], list(w[12])]


def canon_trim(w):
    return [sorted(w[0]), w[8], w[1], w[2], w[3], w[4], w[5], w[6], list(w[12])]


def _texts_wire(d):
    d = dict(d)
    d['texts'] = [[t[0], t[1], [ord(c) for c in t[2]] if isinstance(t[2], str) else list(t[2]), t[3]]
                  for t in d['texts']]
    return d


DEFAULT_GAP = 12 * Q        # documented default of gap_seconds: 3.0


def _build(op, a):
    """(function, positional arguments after the sequence, keyword arguments) for the requested call.  Keyword
    arguments whose requested value is the documented default are left out when a['omit'] is set."""
    from note_seq import sequences_lib as sl
    f = nsio.t2f
    omit = bool(a.get('omit'))
    kw = {}
    if op in ('extract', 'extract1'):
        if not (omit and a.get('pres') is None):
            kw['preserve_control_numbers'] = None if a.get('pres') is None else list(a['pres'])
    if op in ('split_hop', 'split_list', 'split_tc'):
        if not (omit and not a['skip']):
            kw['skip_splits_inside_notes'] = bool(a['skip'])
    if op == 'extract':
        return sl._extract_subsequences, [[f(t) for t in a['ts']]], kw
    if op == 'extract1':
        return sl.extract_subsequence, [f(a['a']), f(a['b'])], kw
    if op == 'trim':
        return sl.trim_note_sequence, [f(a['a']), f(a['b'])], kw
    if op == 'split_hop':
        return sl.split_note_sequence, [f(a['hop'])], kw
    if op == 'split_list':
        return sl.split_note_sequence, [[f(t) for t in a['times']]], kw
    if op == 'split_tc':
        return sl.split_note_sequence_on_time_changes, [], kw
    if op == 'split_silence':
        if a['gap'] is not None:
            kw['gap_seconds'] = f(a['gap'])
        return sl.split_note_sequence_on_silence, [], kw
    raise ValueError(op)


def _call(op, a, ns):
    fn, pos, kw = _build(op, a)
    return fn(ns, *pos, **kw)


STATS = {'cases': 0, 'exceptions': {}, 'cut_on_event_time': 0, 'cases_with_cuts': 0, 'pieces': 0,
         'carried_state_events': 0, 'clipped_notes': 0, 'empty_interval_pieces': 0, 'max_pieces': 0}


def _stats(case, out):
    op, a = case['op'], case['input']
    STATS['cases'] += 1
    if a['seq'].get('sub', [0, 0]) != [0, 0]:
        STATS['input_with_subsequence_info'] = STATS.get('input_with_subsequence_info', 0) + 1
    if op == 'two_step':
        STATS['two_step'] = STATS.get('two_step', 0) + 1
        if out[0] == 'OK' and out[1] and any(p[8][0] > 0 for p in out[1]):
            pass
        if out[0] != 'NO-PIECE':
            STATS['two_step_resolved'] = STATS.get('two_step_resolved', 0) + 1
        return
    if out[0] == 'EXC':
        STATS['exceptions'][out[1]] = STATS['exceptions'].get(out[1], 0) + 1
        return
    if op == 'trim':
        return
    pieces = [out[1]] if op == 'extract1' else out[1]
    d = a['seq']
    evt = set(_times_of(d))
    starts = [p[8][0] for p in pieces]
    STATS['cases_with_cuts'] += 1
    cuts = a['ts'] if op == 'extract' else ([a['a'], a['b']] if op == 'extract1' else starts[1:])
    if any(c in evt for c in cuts if c != 0):
        STATS['cut_on_event_time'] += 1
    STATS['pieces'] += len(pieces)
    STATS['max_pieces'] = max(STATS['max_pieces'], len(pieces))
    STATS['empty_interval_pieces'] += sum(1 for x, y in zip(starts[:-1], starts[1:]) if x == y)
    for k, p in enumerate(pieces):
        if p[8][0] > 0:
            STATS['carried_state_events'] += sum(1 for lst in (p[1], p[2], p[3], p[4]) for e in lst if e[0] == 0)
            STATS['carried_state_events'] += sum(1 for _, lst in p[6] for e in lst if e[0] == 0)
    for n in d['notes']:
        if any(n[2] < c < n[3] for c in cuts):
            STATS['clipped_notes'] += 1


def extra_evidence():
    st = dict(STATS)
    st['coincidence_rate'] = round(STATS['cut_on_event_time'] / max(1, STATS['cases_with_cuts']), 3)
    return {'input_distribution': st}


def impl(case):
    out = _impl(case)
    try:
        _stats(case, out)
    except Exception:  # statistics never influence the verdict
        pass
    return out


_RESOLVED = {}


def _resolve(case):
    """(op, args, input proto) of the call whose result is observed.  For a two-step case the input is a
    piece produced by the REAL code from the first cut (so it carries that cut's subsequence_info), and
    the second cut's split times are fractions of that piece's total_time."""
    op, a = case['op'], case['input']
    if op != 'two_step':
        return op, a, nsio.to_proto(a['seq'])
    hit = _RESOLVED.get(id(case))
    if hit is not None and hit[0] is case:
        r = hit[1]
    else:
        first = a['first']
        try:
            pieces = _call(first['op'], first, nsio.to_proto(a['seq']))
            r = ('PIECE', pieces[a['pick'] % len(pieces)].SerializeToString(deterministic=True)) if len(pieces) else ('EMPTY',)
        except Exception as e:  # noqa
            r = ('EXC1', type(e).__name__)
        if len(_RESOLVED) > 400000:
            _RESOLVED.clear()
        _RESOLVED[id(case)] = (case, r)
    if r[0] != 'PIECE':
        return None, r, None
    from note_seq.protobuf import music_pb2
    ns = music_pb2.NoteSequence.FromString(r[1])
    a2 = dict(a['second'])
    if 'eighths' in a2:
        total = nsio.f2t(ns.total_time)
        a2['ts'] = [total * k // 8 for k in a2['eighths']]
    return a2['op'], a2, ns


FLAGS = ['input-modified', 'argument-list-modified', 'second-call-differs', 'earlier-result-changed-by-later-call',
         'input-changed-by-editing-result', 'pieces-share-storage']


def _canon_result(op, r):
    if op == 'trim':
        return canon_trim(nsio.to_wire(r))
    if op == 'extract1':
        return canon_piece(nsio.to_wire(r))
    return [canon_piece(nsio.to_wire(p)) for p in r]


def _scribble(q):
    """Edit a returned sequence in place as a caller might."""
    for n in q.notes:
        n.pitch = 1; n.start_time += 1.0; n.end_time += 2.0
    for lst in (q.tempos, q.time_signatures, q.key_signatures, q.text_annotations, q.control_changes):
        for e in lst:
            e.time += 1.0
    del q.tempos[:]
    q.total_time = 77.0
    q.subsequence_info.start_time_offset = 99.0


def _impl(case):
    import copy
    op, a, ns = _resolve(case)
    if op is None:
        return ['NO-PIECE'] + list(a)
    before = ns.SerializeToString(deterministic=True)
    fn, pos, kw = _build(op, a)
    pos0, kw0 = copy.deepcopy(pos), copy.deepcopy(kw)
    try:
        r1 = fn(ns, *pos, **kw)
    except Exception as e:  # noqa
        name = type(e).__name__
        if op == 'split_hop' and a['hop'] == 0:
            name = 'HOP0'        # whichever exception a zero hop raises
        # nothing may have been modified before raising
        return ['EXC', name, [int(ns.SerializeToString(deterministic=True) == before), int(pos == pos0 and kw == kw0)]]
    flags = [int(ns.SerializeToString(deterministic=True) == before), int(pos == pos0 and kw == kw0)]
    c1 = _canon_result(op, r1)
    # the same call again on the same objects, the first result still alive
    try:
        r2 = fn(ns, *pos, **kw)
        c2 = _canon_result(op, r2)
    except Exception:  # noqa
        r2, c2 = None, None
    flags.append(int(c2 == c1))
    flags.append(int(_canon_result(op, r1) == c1))
    # edit the second result in place: neither the argument nor the first result may notice
    if r2 is not None:
        for q in ([r2] if op in ('trim', 'extract1') else r2):
            _scribble(q)
    flags.append(int(ns.SerializeToString(deterministic=True) == before and _canon_result(op, r1) == c1))
    # edit the first piece of the first result: the other pieces may not notice
    if op not in ('trim', 'extract1') and len(r1) >= 2:
        _scribble(r1[0])
        flags.append(int(_canon_result(op, r1[1:]) == c1[1:]))
    else:
        flags.append(1)
    return ['OK', c1, flags]


def model_input(case):
    op, a, ns = _resolve(case)
    if op is None:
        return None
    w = nsio.to_wire(ns)
    if op == 'extract':
        return [1, w, a['ts'], int(a['pres'] is None), a['pres'] or []]
    if op == 'extract1':
        return [2, w, a['a'], a['b'], int(a.get('pres') is None), a.get('pres') or []]
    if op == 'trim':
        return [3, w, a['a'], a['b']]
    if op == 'split_hop':
        return [4, w, a['hop'], a['skip']]
    if op == 'split_list':
        return [5, w, a['times'], a['skip']]
    if op == 'split_tc':
        return [6, w, a['skip']]
    if op == 'split_silence':
        return [7, w, DEFAULT_GAP if a['gap'] is None else a['gap']]


def _op2(case):
    return case['input']['second']['op'] if case['op'] == 'two_step' else case['op']


def model_output(case, m):
    op = _op2(case)
    if m[0] == -1000:
        return ['EXC', ERR.get(m[1], 'MODEL-ERR-%d' % m[1]), [1, 1]]
    ok = [1] * len(FLAGS)
    if op == 'trim':
        return ['OK', canon_trim(m[1]), ok]
    if op == 'extract1':
        return ['OK', canon_piece(m[1]), ok]
    return ['OK', [canon_piece(p) for p in m[1]], ok]


# ---------------------------------------------------------------- oracle: the property on the implementation
def _in_effect(evs, t):
    """last event, in stable time order, with time <= t; value = the event without its time"""
    best = None
    for e in sorted(evs, key=lambda e: e[0]):
        if e[0] <= t:
            best = e
    return None if best is None else best[1:]


def _crossing(notes, t):
    return any(n[2] < t < n[3] for n in notes)


def _filter_skip(notes, cands, skip):
    return [t for t in cands if not (skip and _crossing(notes, t))]


def _finish(points, total):
    if total > points[-1]:
        points = points + [total]
    return points


def expected_points(op, a, w):
    """The split points the property prescribes, from the input alone."""
    notes, total = w[0], w[8]
    if op == 'extract':
        return list(a['ts'])
    if op == 'extract1':
        return [a['a'], a['b']]
    if op == 'split_hop':
        hop = a['hop']
        cands = []
        if hop > 0:
            k = 1
            while k * hop < total:
                cands.append(k * hop); k += 1
        return _finish([0] + _filter_skip(notes, cands, a['skip']), total)
    if op == 'split_list':
        return _finish([0] + _filter_skip(notes, sorted(a['times']), a['skip']), total)
    if op == 'split_tc':
        evs = sorted([('ts', t[0], (t[1], t[2])) for t in w[2]] + [('tp', t[0], t[1]) for t in w[1]],
                     key=lambda e: e[1])
        cur = {'ts': (4, 4), 'tp': 120 << nsio.QPM_BITS}
        pts = [0]
        for kind, t, v in evs:
            if t >= total:
                continue
            if cur[kind] == v:
                continue
            cur[kind] = v
            if t > pts[-1] and not (a['skip'] and _crossing(notes, t)):
                pts.append(t)
        return _finish(pts, total)
    if op == 'split_silence':
        pts = [0]
        la = 0
        gap = DEFAULT_GAP if a['gap'] is None else a['gap']       # documented default: 3.0 seconds
        for n in sorted(notes, key=lambda n: n[2]):
            if n[2] > la + gap:
                pts.append(n[2])
            la = max(la, n[3])
        return _finish(pts, total)


def expected_exception(w, pts):
    if w[10] > 0 or w[11] > 0:
        return 'QuantizationStatusError'
    if len(pts) < 2:
        return 'ValueError'
    if any(x > y for x, y in zip(pts[:-1], pts[1:])):
        return 'ValueError'
    if any(t >= w[8] for t in pts[:-1]):
        return 'ValueError'
    return None


def check_piece(w, pres, a, b, p, i):
    """The property for one piece [a, b): p is canon_piece of the implementation's output."""
    notes, tempos, tsigs, ksigs, texts, ccs, total = w[0], w[1], w[2], w[3], w[4], w[5], w[8]
    pn, ptp, pts_, pks, pch, pbt, pcc, ptotal, psub = p
    want = sorted(n[:2] + [n[2] - a, min(n[3], b) - a] + n[4:] for n in notes if a <= n[2] < b)
    if pn != want:
        return {'kind': 'notes-not-partitioned', 'piece': i, 'interval': [a, b],
                'missing': [n for n in want if n not in pn][:3], 'extra': [n for n in pn if n not in want][:3]}
    chords = [t for t in texts if t[3] == 1]
    kinds = [('tempo', tempos, ptp), ('time-signature', tsigs, pts_), ('key-signature', ksigs, pks),
             ('chord', chords, pch)]
    pedal_keys = sorted(set((c[4], c[2]) for c in ccs if c[2] in pres) | set(tuple(k) for k, _ in pcc))
    pdict = {tuple(k): v for k, v in pcc}
    for (ins, num) in pedal_keys:
        kinds.append(('pedal', [c for c in ccs if c[2] in pres and (c[4], c[2]) == (ins, num)],
                      pdict.get((ins, num), [])))
    for name, orig, piece in kinds:
        taus = set([0, b - a - 1])
        for e in orig:
            taus.update([e[0] - a - 1, e[0] - a, e[0] - a + 1])
        for e in piece:
            taus.update([e[0] - 1, e[0], e[0] + 1])
        for tau in sorted(taus):
            if 0 <= tau < b - a and _in_effect(piece, tau) != _in_effect(orig, a + tau):
                return {'kind': 'state-in-effect-differs', 'event': name, 'piece': i, 'interval': [a, b], 'tau': tau,
                        'piece_value': _in_effect(piece, tau), 'original_value': _in_effect(orig, a + tau)}
    for name, orig, piece in kinds:
        for e in piece:
            if not (e[0] == 0 or 0 < e[0] < b - a):
                return {'kind': 'event-outside-piece', 'event': name, 'piece': i, 'interval': [a, b], 'time': e[0]}
    wantb = sorted([t[0] - a] + t[1:] for t in texts if t[3] == 2 and a <= t[0] < b)
    if sorted(pbt) != wantb:
        return {'kind': 'beats-not-partitioned', 'piece': i, 'interval': [a, b]}
    mx = max([n[3] for n in pn] + [0])
    if ptotal != mx:
        return {'kind': 'total-time-not-last-note-end', 'piece': i, 'interval': [a, b], 'total_time': ptotal, 'want': mx}
    if psub != [a, total - a - ptotal]:
        return {'kind': 'subsequence-info-wrong', 'piece': i, 'interval': [a, b], 'got': psub}
    return None


def oracle(case, io):
    if io[0] == 'NO-PIECE':
        return None                 # the first cut gave no piece to cut again; it is judged by the one-step cases
    op, a, ns = _resolve(case)
    w = nsio.to_wire(ns)
    if io[0] == 'HARNESS-EXC':
        return {'kind': 'result-not-representable', 'detail': io[1:]}
    if op == 'trim':
        quant = w[10] > 0 or w[11] > 0
        if io[0] == 'EXC':
            if io[2] != [1, 1]:
                return {'kind': 'modified-before-raising', 'op': op, 'exc': io[1]}
            return None if quant and io[1] == 'QuantizationStatusError' else {'kind': 'unexpected-exception', 'exc': io[1], 'op': op}
        if quant:
            return {'kind': 'quantized-input-accepted', 'op': op}
        got = io[1]
        want = sorted(n[:3] + [min(n[3], a['b'])] + n[4:] for n in w[0] if a['a'] <= n[2] < a['b'])
        if got[0] != want:
            return {'kind': 'trim-notes-wrong', 'interval': [a['a'], a['b']]}
        if got[1] != min(w[8], a['b']):
            return {'kind': 'trim-total-time-wrong'}
        if got[2:] != [w[1], w[2], w[3], w[4], w[5], w[6], list(w[12])]:
            return {'kind': 'trim-touched-other-fields'}
        return _flag_failure(op, io)
    if io[0] == 'EXC' and io[2] != [1, 1]:
        return {'kind': 'modified-before-raising', 'op': op, 'exc': io[1], 'input_unchanged': io[2][0], 'arguments_unchanged': io[2][1]}
    if op == 'split_hop' and a['hop'] == 0:
        return None if io[0] == 'EXC' else {'kind': 'zero-hop-accepted'}
    pts = expected_points(op, a, w)
    if op in ('extract', 'extract1') or len(pts) > 1:
        exc = expected_exception(w, pts)
    else:
        exc = None
    if io[0] == 'EXC':
        if exc == io[1]:
            return None
        return {'kind': 'unexpected-exception', 'exc': io[1], 'expected': exc, 'op': op, 'points': pts}
    if exc is not None:
        return {'kind': 'invalid-arguments-accepted', 'expected': exc, 'op': op, 'points': pts}
    pieces = [io[1]] if op == 'extract1' else io[1]
    npieces = 1 if op == 'extract1' else max(0, len(pts) - 1)
    starts = [p[8][0] for p in pieces]
    if len(pieces) != npieces:
        return {'kind': 'split-points-differ', 'op': op, 'expected_points': pts, 'got_starts': starts}
    if starts != pts[:npieces]:
        # the start offsets are the only place where the chosen split points show.  For the extract ops the
        # points are the caller's, so a wrong offset is a wrong subsequence_info; for the splitters ask the code
        # again on the same input without its own (stale) subsequence_info to tell the two apart.
        info_only = op in ('extract', 'extract1')
        if not info_only and list(w[12]) != [0, 0]:
            try:
                ns2 = type(ns)(); ns2.CopyFrom(ns); ns2.ClearField('subsequence_info')
                again = [nsio.f2t(q.subsequence_info.start_time_offset) for q in _call(op, a, ns2)]
                info_only = again == pts[:npieces]
            except Exception:  # noqa
                info_only = False
        if info_only:
            i = [x != y for x, y in zip(starts, pts)].index(True)
            return {'kind': 'subsequence-info-wrong', 'op': op, 'piece': i, 'interval': [pts[i], pts[i + 1]],
                    'got': pieces[i][8], 'want_start_offset': pts[i], 'input_subsequence_info': list(w[12])}
        return {'kind': 'split-points-differ', 'op': op, 'expected_points': pts, 'got_starts': starts}
    if op in ('split_hop', 'split_tc', 'split_silence') and not all(x < y for x, y in zip(pts[:-1], pts[1:])):
        if not (op == 'split_silence' and ((a['gap'] or 0) < 0 or any(n[3] < n[2] for n in w[0]))):
            return {'kind': 'split-points-not-increasing', 'op': op, 'points': pts}
    if op in ('extract', 'extract1') and a.get('pres') is not None:
        pres = list(a['pres'])
    else:
        pres = list(PEDALS)      # the property names them: sustain, sostenuto, una corda
    for i, p in enumerate(pieces):
        v = check_piece(w, pres, pts[i], pts[i + 1], p, i)
        if v:
            v['op'] = op
            return v
    return _flag_failure(op, io)


def _flag_failure(op, io):
    for name, v in zip(FLAGS, io[2]):
        if v != 1:
            return {'kind': name, 'op': op}
    return None


def nontrivial(case, io):
    if io[0] != 'OK':
        return False
    op, a = _op2(case), case['input']
    if op == 'trim':
        return any(n[3] > a['b'] > n[2] >= a['a'] for n in a['seq']['notes'])
    pieces = [io[1]] if op == 'extract1' else io[1]
    if len(pieces) >= 2:
        return True
    for p in pieces:
        s0, b = p[8][0], None
        if any(e and e[0][0] == 0 and s0 > 0 for e in (p[1], p[2], p[3], p[4])):
            return True
        if p[0] and p[7] > 0:
            return True
    return False


def shrink(case):
    a = case['input']
    for d in nsio.shrink_desc(a['seq']):
        yield {'op': case['op'], 'input': dict(a, seq=d)}
    if a['seq'].get('sub', [0, 0]) != [0, 0]:
        yield {'op': case['op'], 'input': dict(a, seq=dict(a['seq'], sub=[0, 0]))}
    for f in ('ts', 'times'):
        if f in a:
            for i in range(len(a[f])):
                yield {'op': case['op'], 'input': dict(a, **{f: a[f][:i] + a[f][i + 1:]})}
    if a.get('pres') is not None:
        yield {'op': case['op'], 'input': dict(a, pres=None)}


META = {
    'level_text': ('Theorems about the Gallina model for ALL sequences and ALL split-time vectors (no size bound): the model '
                   'of _extract_subsequences equals a filter/map/last specification piece by piece (refinement), hence notes are '
                   'partitioned, the tempo / time signature / key / chord / per-(instrument, pedal) value in effect at every '
                   'instant of every piece equals the original\'s, beats are partitioned, total_time and subsequence_info are as '
                   'stated; the split-point lists of the hop / list / time-change / silence splitters are characterised '
                   'declaratively, are strictly increasing, and are always accepted by the extraction\'s argument checks.'),
    'level_note': ('Trusted: Coq kernel; the hand-written models Model/Extract.v and Model/Split.v, tied to the code by '
                   'differential correspondence on exact-tick inputs and by constants regenerated into Gen/G02.v; the Python '
                   'oracle re-states the property independently of the model.  Not covered: float rounding off the 2^-40 s '
                   'grid, np.arange accumulation for non-dyadic hops, protobuf copy semantics (input non-modification is '
                   'tested, not proved).'),
}
