"""C19 — chord and melody inference return a maximum-likelihood path of their model."""
import itertools
import math

from vt import coqgen as G
from vt import nsio

ID = 'C19'
NEG = None          # -inf on the wire / in JSON
GRID = 2 ** 34      # generator grid: 1/64 s in ticks of 2**-40 s

RULE = ('(1) integer-valued (hence float-exact) log-likelihood matrices incl. -inf with many exact ties, fed to the real '
        '_melody_viterbi / _key_chord_viterbi and to the extracted Gallina Viterbi; paths (and melody events) compared for '
        'equality (chord cases only when the optimum is unique, because the code adds the irrational constant -log 12); '
        '(2) the real sequence_note_frames against its model on sequences with coinciding times, zero-length notes, notes on '
        'the sequence end, drums and unpitched programs; (3) writer loops driven through the real infer_* functions with the '
        'Viterbi call replaced by a chosen path (all 97 chords x 12 keys, every default meter, beat-annotated and '
        'absolutely-quantized sequences, shuffled/duplicate/boundary beats); (4) end-to-end runs where an independent DP '
        'recomputes the optimum from the matrices the implementation built, for varied model parameters, and the run is '
        'repeated on the sequence transposed by k; (5) the documented rejections. non-trivial = at least 2 frames for '
        'Viterbi / frame cases, at least one written annotation/note for writer and end-to-end cases; distinct by input')
ASSUMPTIONS = ['numpy log/dot/norm that build the likelihood and transition matrices are not modelled (the matrices are captured '
               'from the implementation and re-used by the oracle)',
               'IEEE addition is monotone on non-NaN values (instance of the generic theorem cited, not re-proved for floats)',
               'chord path equality is compared only for cases whose optimum is unique (the code adds -log 12 to every initial score)',
               'sequence times are multiples of 2**-40 s below 2**12 s, on which the float comparisons/products used are exact']
TRUSTED = ['independent dynamic program (_float_dp / _dp_best) in harness/vt/props/c19.py (oracle for the attained score)']


def gen_coq():
    from note_seq import constants
    s = G.HEADER
    s += G.defzlist('UNPITCHED_PROGRAMS', list(constants.UNPITCHED_PROGRAMS))
    return s


# ------------------------------------------------------------------ helpers
def _f(x):
    return float('-inf') if x is None else float(x)


def _np(mat):
    import numpy as np
    return np.array([[_f(x) for x in row] for row in mat], dtype=float)


def _rand_mat(rng, r, c, lo, p_inf):
    return [[None if rng.random() < p_inf else rng.randint(lo, 0) for _ in range(c)] for _ in range(r)]


def _dp_best(init, trans, frames):
    """Independent DP over exact values (ints / -inf): best total score and number of optimal paths (capped)."""
    NEGINF = float('-inf')
    n = len(init)
    best = [(_f(v), 1 if v is not None else 0) for v in init]
    for e in frames:
        new = []
        for j in range(n):
            m, cnt = NEGINF, 0
            for i in range(n):
                if best[i][0] == NEGINF or trans[i][j] is None:
                    continue
                s = best[i][0] + trans[i][j]
                if s > m:
                    m, cnt = s, best[i][1]
                elif s == m:
                    cnt = min(cnt + best[i][1], 10)
            if e[j] is None or m == NEGINF:
                new.append((NEGINF, 0))
            else:
                new.append((m + e[j], cnt))
        best = new
    top = max(b[0] for b in best)
    cnt = sum(b[1] for b in best if b[0] == top) if top != NEGINF else 0
    return top, cnt


def _path_score(init, trans, frames, path):
    s = _f(init[path[0]])
    for t, e in enumerate(frames):
        s = (s + _f(trans[path[t]][path[t + 1]])) + _f(e[path[t + 1]])
    return s


def _wire_mat(mat):
    return [[[] if x is None else [x] for x in row] for row in mat]


def _cols(trans):
    n = len(trans)
    return [[trans[i][j] for i in range(n)] for j in range(n)]


def _tk(x):
    """float seconds -> ticks; off-grid values become a string so that they can never compare equal to a model value."""
    try:
        return nsio.f2t(x)
    except nsio.OffGrid:
        return 'offgrid:' + float(x).hex()


def _sec(t):
    return nsio.t2f(t)


# ------------------------------------------------------------------ generators (pure Python, no note_seq)
def _gen_time(rng, lo, hi):
    """A grid time in [lo, hi] (grid units), occasionally nudged by one tick."""
    t = rng.randint(lo, hi) * GRID
    if rng.random() < 0.08:
        t += rng.choice([-1, 1])
    return max(t, 0)


def _gen_melody_notes(rng, n, end_note_prob=0.15):
    """[pitch, start, end, instrument, is_drum, program] in ticks; many coinciding times."""
    if rng.random() < 0.15:
        # the ends of the MIDI range (pitch 0 is falsy in Python): as the only / the top voice
        pool = list(rng.choice([[0], [0, 1], [0, 1, 2], [1], [127], [126, 127], [0, 127]]))
    else:
        pool = rng.sample(range(30, 90), rng.randint(1, min(5, max(1, n))))
    notes = []
    t = 0
    for _ in range(n):
        t += rng.choice([0, 0, 16, 32, 64]) * GRID
        if rng.random() < 0.05:
            t += rng.choice([1, 2])
        d = rng.choice([0, 16, 16, 32, 64, 128]) * GRID if rng.random() < 0.9 else rng.choice([1, GRID - 1])
        notes.append([rng.choice(pool), t, t + d, rng.choice([0, 0, 1, 2, 8]),
                      1 if rng.random() < 0.06 else 0, 100 if rng.random() < 0.05 else rng.choice([0, 0, 33, 95, 104])])
    total = max(x[2] for x in notes) + rng.choice([0, 0, 32 * GRID, 1])
    if rng.random() < end_note_prob:
        # a (zero-length) note sitting exactly on the end of the sequence
        notes.append([rng.choice(pool + [95]), total, total, 0, 0, 0])
    rng.shuffle(notes)
    return notes, total


def _melodic(x, total=None):
    return not x[4] and x[5] not in _UNPITCHED


_UNPITCHED = set(range(96, 104)) | set(range(112, 128))


def _gen_events(rng, notes, total):
    """A melody-event path over the pitches of the sequence; mostly assert-safe, sometimes not."""
    mel = [x for x in notes if _melodic(x)]
    pitches = sorted(set(x[0] for x in mel)) or [60]
    times = set([x[1] for x in mel] + [x[2] for x in mel]) - {0, total}
    T = len(times) + 1      # exactly one event per frame: the decoder never returns a path of another length
    evs, cur = [], None
    for _ in range(T):
        c = rng.random()
        if c < 0.25:
            evs.append([0, 0]); cur = None
        elif c < 0.65 or cur is None:
            if rng.random() < 0.06 and cur is None:
                evs.append([2, rng.choice(pitches)])       # a sustain after a rest: trips the code's assert
            else:
                cur = rng.choice(pitches); evs.append([1, cur])
        else:
            evs.append([2, cur if rng.random() < 0.95 else rng.choice(pitches)])
    return evs


METERS = [(2, 2), (2, 4), (3, 4), (4, 4), (6, 8)]
DEFAULT_CPB = {(2, 2): 1, (2, 4): 1, (3, 4): 1, (4, 4): 2, (6, 8): 2}     # expectation of the generator only


def _gen_grid(rng):
    """A quantization grid whose chord length is an exact number of ticks."""
    while True:
        num, den = rng.choice(METERS)
        spq = rng.choice([1, 2, 4, 8])
        qpm = rng.choice([60, 120, 120, 240])
        cpb = rng.choice([None, None, 1, 2, 4])
        c = DEFAULT_CPB[(num, den)] if cpb is None else cpb
        steps_per_bar = spq * 4 * num
        if steps_per_bar % (den * c):
            continue
        steps_per_chord = steps_per_bar // (den * c)
        ticks = steps_per_chord * 60 * (2 ** 40)
        if ticks % (spq * qpm):
            continue
        return {'num': num, 'den': den, 'spq': spq, 'qpm': qpm, 'cpb': cpb, 'spc': ticks // (spq * qpm),
                'steps_per_chord': steps_per_chord}


def _gen_beats(rng, T):
    """T-1 distinct interior beat times, then duplicates / boundary / outside beats, shuffled.  Returns (beats, total)."""
    t = 0
    interior = []
    for _ in range(T - 1):
        t += rng.choice([16, 32, 64]) * GRID
        interior.append(t + (1 if rng.random() < 0.05 else 0))
    total = (interior[-1] if interior else 0) + rng.choice([16, 32]) * GRID
    beats = list(interior)
    for b in list(interior):
        if rng.random() < 0.2:
            beats.append(b)
    beats += [0]
    if rng.random() < 0.5:
        beats.append(total)
    if rng.random() < 0.2:
        beats.append(total + GRID)
    rng.shuffle(beats)
    return beats, total


def _gen_path(rng, T, nfig, nkey):
    figs_pal = [rng.randrange(nfig) for _ in range(rng.randint(1, 3))]
    keys_pal = [rng.randrange(nkey) for _ in range(rng.randint(1, 2))]
    return [rng.choice(figs_pal) for _ in range(T)], [rng.choice(keys_pal) for _ in range(T)]


KINDS = [[0, 4, 7], [0, 3, 7], [0, 4, 8], [0, 3, 6], [0, 4, 7, 10], [0, 4, 7, 11], [0, 3, 7, 10], [0, 3, 6, 10], [0], [0, 7]]


def _gen_chord_notes(rng, frame_times, total):
    """[pitch, start, end] with chordal content per frame, some notes crossing frame boundaries."""
    roots = [rng.randrange(12) for _ in range(3)]
    notes = []
    bounds = list(frame_times) + [total]
    for a, b in zip(bounds, bounds[1:]):
        if rng.random() < 0.12:
            continue
        root = rng.choice(roots)
        for iv in rng.choice(KINDS):
            s = a if rng.random() < 0.7 else a + (b - a) // 2
            e = b if rng.random() < 0.7 else min(total, b + (b - a) // 2)
            notes.append([48 + (root + iv) % 12 + 12 * rng.randrange(2), s, max(e, s + 1)])
    if not notes:
        notes.append([60, 0, total])
    # the last note ends exactly at total so that total_time is what the generator intended
    notes.append([48 + rng.choice(roots), bounds[-2], total])
    return notes


def _gen_near_tie_first_frame(rng):
    """chords_e2e case whose FIRST frame is a triad held for the whole frame plus a seventh / out-of-key tone held for
    part of it (two chord readings close in frame likelihood that differ in how many chord pitches are in the key),
    followed by diatonic chords that fix the key.  Root and key vary; the run is repeated transposed by k."""
    g = _gen_grid(rng)
    spc = g['spc']
    key = rng.randrange(12)
    minor = rng.random() < 0.3
    degree = rng.choice([0, 0, 5, 7]) if not minor else rng.choice([2, 4, 9])      # I / IV / V or ii / iii / vi
    root = (key + degree) % 12
    triad = [0, 3, 7] if minor else [0, 4, 7]
    extra = rng.choice([10, 10, 11, 1, 6, 8, 3 if not minor else 4])
    frac_num, frac_den = rng.choice([(1, 4), (1, 2), (1, 2), (3, 4), (1, 8), (7, 8)])
    part = spc * frac_num // frac_den
    notes = [[48 + (root + iv) % 12, 0, spc] for iv in triad]
    start = rng.choice([0, spc - part])
    notes.append([60 + (root + extra) % 12, start, start + part])
    T = rng.randint(2, 5)
    prog = [rng.choice([5, 7, 0, 9]) for _ in range(T - 1)]
    prog[-1] = 0
    for f, d in enumerate(prog, start=1):
        r2 = (key + d) % 12
        kind = [0, 3, 7] if d == 9 else [0, 4, 7]
        notes += [[48 + (r2 + iv) % 12, f * spc, (f + 1) * spc] for iv in kind]
    g.update({'mode': 'fixed', 'total': T * spc, 'notes': notes, 'k': rng.randint(1, 11), 'addkeys': rng.random() < 0.7,
              'params': {} if rng.random() < 0.7 else {'chord_note_concentration': rng.choice([100.0, 50.0])}})
    return {'op': 'chords_e2e', 'input': g}


def _gen_full_range_melody(rng, lo=0, hi=127, hold_from=0, shuffle=True):
    """Every pitch lo..hi present (hi - lo + 1 notes; the maximal state space 1 + 2 * 128 = 257 for 0..127): the TOP pitch is
    one long note, all other pitches are short consecutive notes under it, so the optimal path sustains the HIGHEST-numbered
    state over many frames (back-pointers reach the largest state index)."""
    g = 4 * GRID
    low = list(range(lo, hi))
    if shuffle:
        rng.shuffle(low)
    notes = [[p0, i * g, (i + 1) * g, rng.choice([0, 1]), 0, 0] for i, p0 in enumerate(low)]
    total = len(low) * g
    notes.append([hi, hold_from * g, total, 0, 0, 0])
    return notes, total


def _gen_top_state_viterbi(rng, npitch=128):
    """melody_vit case with the full state space whose optimum runs through the highest-numbered states (sustains of the top
    pitches): integer matrices, ties, some -inf; emissions favour the last few states."""
    m = 2 * npitch + 1
    T = rng.randint(3, 5)
    trans = [[(None if rng.random() < 0.05 else rng.randint(-3, 0)) for _ in range(m)] for _ in range(m)]
    for i in range(m - 4, m):
        for j in range(m - 4, m):
            trans[i][j] = rng.randint(-3, -1)
        trans[0][i] = rng.randint(-2, 0)
    for j in range(m - 4, m):
        trans[m - 1][j] = 0             # the LAST state is the strictly best parent of the top block
    frames = [[(rng.randint(-9, -4) if j < m - 4 else rng.randint(-1, 0)) for j in range(m)] for _ in range(T)]
    for t in range(T - 1):
        frames[t][m - 1] = 0
    return {'op': 'melody_vit', 'input': {'pitches': list(range(128 - npitch, 128)), 'trans': trans, 'frames': frames}}


OUT_OF_KEY_SWEEP = [0.01, 0.1, 0.3, 0.5]


def _gen_out_of_key_sweep(rng):
    """One sparse / chromatic note set (single tones, semitone dyads, clusters, tritones, empty frames: frames where the
    out-of-key penalty decides) run with EVERY chord_pitch_out_of_key_prob of the sweep, all other parameters equal, in a
    random order: every call must be optimal for its own parameters whatever was called before in this process."""
    g = _gen_grid(rng)
    spc = g['spc']
    T = rng.randint(2, 6)
    base = rng.randrange(12)
    notes = []
    for f in range(T):
        shape = rng.choice([[0], [0], [0, 1], [0, 1, 2], [0, 6], [0, 4], [0, 3, 6, 9], [0, 1, 6, 7], []])
        r = (base + rng.choice([0, 0, 1, 2, 5, 6, 7])) % 12
        for iv in shape:
            s0 = f * spc if rng.random() < 0.8 else f * spc + spc // 2
            notes.append([48 + (r + iv) % 12 + 12 * rng.randrange(2), s0, (f + 1) * spc])
    notes.append([48 + base, (T - 1) * spc, T * spc])
    g.update({'mode': 'fixed', 'total': T * spc, 'notes': notes, 'k': rng.randint(1, 11), 'addkeys': rng.random() < 0.5})
    order = list(OUT_OF_KEY_SWEEP)
    rng.shuffle(order)
    out = []
    for oop in order:
        c = dict(g)
        c['params'] = {'chord_pitch_out_of_key_prob': oop}
        out.append({'op': 'chords_e2e', 'input': c})
    return out


CHORD_PARAMS = [None,
                {'key_change_prob': 0.01, 'chord_change_prob': 0.3, 'chord_pitch_out_of_key_prob': 0.05},
                {'key_change_prob': 0.0005, 'chord_change_prob': 0.7, 'chord_pitch_out_of_key_prob': 0.02},
                {'key_change_prob': 0.1, 'chord_change_prob': 0.9, 'chord_pitch_out_of_key_prob': 0.2}]


MELODY_PARAM_VALUES = {
    'melody_interval_scale': [0.5, 1.0, 2.0, 3.5, 5.0],
    'rest_prob': [0.01, 0.05, 0.1, 0.3, 0.5],
    'instantaneous_non_max_pitch_prob': [1e-15, 1e-9, 1e-3, 0.05, 0.25],
    'instantaneous_non_empty_rest_prob': [0.0, 1e-12, 1e-6, 0.01, 0.1],
    'instantaneous_missing_pitch_prob': [1e-15, 1e-12, 1e-6, 0.01, 0.3],
}


def _gen_melody_params(rng):
    """Every model parameter of infer_melody_for_sequence independently: left at its default or drawn from its range, so
    that in most cases the five values are pairwise different (a parameter wired to the wrong place then shows)."""
    if rng.random() < 0.2:
        return {}
    out = {}
    for name in sorted(MELODY_PARAM_VALUES):
        if rng.random() < 0.75:
            out[name] = rng.choice(MELODY_PARAM_VALUES[name])
    return out


REJECTIONS = ['chords-has-chords', 'chords-unquantized-cpb', 'chords-no-beats', 'chords-uncommon-meter',
              'chords-non-integer-steps', 'chords-empty', 'chords-too-long', 'melody-quantized', 'melody-too-many-frames',
              'melody-no-pitches',
              # the offending element is not the first one stored / the sequence is otherwise fine / other quantization kind
              'chords-has-chords-late', 'chords-has-chords-unquantized', 'chords-absolute-cpb', 'chords-no-beats-other-text',
              'chords-no-beats-absolute', 'chords-too-long-beats', 'chords-just-short-enough', 'melody-quantized-absolute',
              'melody-just-few-enough-frames']
EXPECTED_REJECTION = {
    'chords-has-chords': 'SequenceAlreadyHasChordsError', 'chords-unquantized-cpb': 'QuantizationStatusError',
    'chords-no-beats': 'QuantizationStatusError', 'chords-uncommon-meter': 'UncommonTimeSignatureError',
    'chords-non-integer-steps': 'NonIntegerStepsPerChordError', 'chords-empty': 'EmptySequenceError',
    'chords-too-long': 'SequenceTooLongError', 'melody-quantized': 'MelodyInferenceError',
    'melody-too-many-frames': 'MelodyInferenceError', 'melody-no-pitches': None,
    'chords-has-chords-late': 'SequenceAlreadyHasChordsError', 'chords-has-chords-unquantized': 'SequenceAlreadyHasChordsError',
    'chords-absolute-cpb': 'QuantizationStatusError', 'chords-no-beats-other-text': 'QuantizationStatusError',
    'chords-no-beats-absolute': 'QuantizationStatusError', 'chords-too-long-beats': 'SequenceTooLongError',
    'chords-just-short-enough': 'ACCEPTED', 'melody-quantized-absolute': 'MelodyInferenceError',
    'melody-just-few-enough-frames': 'ACCEPTED'}


def corpus():
    out = [{'op': 'reject', 'input': {'which': w}} for w in REJECTIONS]
    # boundary cases (some are past failures of this check, see notes/C19.md)
    out.append({'op': 'chord_write', 'input': {'mode': 'beats', 'beats': [0], 'total': 32 * GRID, 'figs': [2], 'keys': [2]}})
    out.append({'op': 'chord_write', 'input': {'mode': 'beats', 'beats': [32 * GRID, 0, 32 * GRID, 64 * GRID], 'total': 64 * GRID,
                                                'figs': [5, 5], 'keys': [0, 7]}})
    zl = [[60, 0, 64 * GRID, 0, 0, 0], [72, 64 * GRID, 64 * GRID, 0, 0, 0]]
    out.append({'op': 'note_frames', 'input': {'notes': zl, 'total': 64 * GRID}})
    out.append({'op': 'melody_e2e', 'input': {'notes': zl, 'total': 64 * GRID, 'k': 3, 'params': {}}})
    out.append({'op': 'melody_e2e', 'input': {'notes': [[60, 0, 64 * GRID, 0, 0, 0], [64, 64 * GRID, 128 * GRID, 0, 0, 0]],
                                               'total': 128 * GRID, 'k': 5, 'params': {}}})
    S = 2 ** 40
    demo = [(60, 0, 2), (64, 0, 2), (67, 0, 2), (70, 1, 2), (60, 2, 4), (65, 2, 4), (69, 2, 4),
            (59, 4, 6), (62, 4, 6), (67, 4, 6), (60, 6, 8), (64, 6, 8), (67, 6, 8)]
    out.append({'op': 'chords_e2e', 'input': {   # C E G + half-frame Bb | F | G | C  (seeded change C19-1): C F G C, not C7
        'mode': 'fixed', 'num': 4, 'den': 4, 'spq': 4, 'qpm': 120, 'cpb': 2, 'spc': S, 'steps_per_chord': 8, 'total': 4 * S,
        'notes': [[p, a * S // 2, b * S // 2] for p, a, b in demo], 'k': 5, 'addkeys': True, 'params': {}}})
    # rare but legal shapes: nothing at all; total_time 0; one zero-length note; a beat-annotated sequence without notes
    out.append({'op': 'melody_e2e', 'input': {'notes': [], 'total': 0, 'k': 1, 'params': {}}})
    out.append({'op': 'melody_e2e', 'input': {'notes': [], 'total': 64 * GRID, 'k': 1, 'params': {}}})
    out.append({'op': 'melody_e2e', 'input': {'notes': [[60, 0, 0, 0, 0, 0]], 'total': 0, 'k': 1, 'params': {}}})
    out.append({'op': 'melody_e2e', 'input': {'notes': [[60, 0, 0, 0, 0, 0]], 'total': 64 * GRID, 'k': 1, 'params': {}}})
    out.append({'op': 'melody_e2e', 'input': {'notes': [[60, 0, 64 * GRID, 8, 0, 0]], 'total': 64 * GRID, 'k': 1, 'params': {}}})
    out.append({'op': 'melody_twice', 'input': {'notes': [[60, 0, 64 * GRID, 8, 0, 0], [64, 32 * GRID, 96 * GRID, 0, 0, 0]],
                                                 'total': 96 * GRID}})
    out.append({'op': 'chords_e2e', 'input': {'mode': 'beats', 'beats': [0], 'total': 0, 'notes': [], 'k': 1, 'addkeys': True,
                                               'params': {}, 'extras': False}})
    out.append({'op': 'chords_e2e', 'input': {'mode': 'beats', 'beats': [0, 64 * GRID], 'total': 128 * GRID, 'notes': [], 'k': 1,
                                               'addkeys': False, 'params': {}, 'extras': True}})
    out.append({'op': 'chords_e2e', 'input': {'mode': 'beats_q', 'beats': [64 * GRID], 'total': 128 * GRID,
                                               'notes': [[60, 128 * GRID, 128 * GRID]], 'k': 1, 'addkeys': True, 'params': {},
                                               'extras': True}})
    out.append({'op': 'pitch_vectors', 'input': {'notes': [[60, 0, 64 * GRID, 0, 0, 0]], 'total': 64 * GRID, 'spf': []}})
    out.append({'op': 'pitch_vectors', 'input': {'notes': [[60, 64 * GRID, 64 * GRID, 0, 0, 0], [61, 0, 64 * GRID, 0, 1, 0]],
                                                  'total': 64 * GRID, 'spf': 64 * GRID}})
    # seeded change C19-5: instantaneous_missing_pitch_prob must not be replaced by instantaneous_non_max_pitch_prob
    G64 = 64 * GRID
    for gap in ([[48, 0, 3 * G64, 0, 0, 0], [72, 0, G64, 0, 0, 0], [72, 2 * G64, 3 * G64, 0, 0, 0]],
                [[40, 0, 4 * G64, 0, 0, 0], [76, 0, G64, 0, 0, 0], [74, 96 * GRID, 160 * GRID, 0, 0, 0], [72, 3 * G64, 4 * G64, 0, 0, 0]]):
        out.append({'op': 'melody_e2e', 'input': {'notes': gap, 'total': max(x[2] for x in gap), 'k': 4,
                                                   'params': {'instantaneous_non_max_pitch_prob': 0.25,
                                                              'instantaneous_missing_pitch_prob': 1e-12}}})
    # all 128 pitches, pitch 127 held over everything else: the path sustains state 256 of 257 (seeded change C19-11)
    import random as _random
    fr_notes, fr_total = _gen_full_range_melody(_random.Random(19), 0, 127, shuffle=False)
    out.append({'op': 'melody_e2e', 'input': {'notes': fr_notes, 'total': fr_total, 'k': 1, 'params': {}}})
    # MIDI pitch 0 as the only / the top voice (seeded change C19-4: `if note_pitch:` drops it), and pitch 127
    out.append({'op': 'melody_e2e', 'input': {'notes': [[0, 0, 64 * GRID, 0, 0, 0]], 'total': 64 * GRID, 'k': 3, 'params': {}}})
    out.append({'op': 'melody_e2e', 'input': {'notes': [[0, 0, 64 * GRID, 0, 0, 0], [1, 64 * GRID, 128 * GRID, 0, 0, 0],
                                                        [0, 128 * GRID, 160 * GRID, 0, 0, 0], [127, 160 * GRID, 192 * GRID, 1, 0, 0]],
                                               'total': 192 * GRID, 'k': 2, 'params': {}}})
    out.append({'op': 'melody_write', 'input': {'notes': [[0, 0, 64 * GRID, 0, 0, 0], [0, 64 * GRID, 128 * GRID, 0, 0, 0]],
                                                 'total': 128 * GRID, 'events': [[1, 0], [1, 0]]}})
    # one note set under two chord_pitch_out_of_key_prob values with equal change probabilities (seeded change C19-3)
    S2 = 2 ** 40
    chrom = {'mode': 'fixed', 'num': 4, 'den': 4, 'spq': 4, 'qpm': 120, 'cpb': 2, 'spc': S2, 'steps_per_chord': 8, 'total': 3 * S2,
             'notes': [[60, 0, S2], [61, 0, S2], [66, S2, 2 * S2], [60, 2 * S2, 3 * S2]], 'k': 4, 'addkeys': True}
    for oop in (0.5, 0.01):
        c = dict(chrom); c['params'] = {'chord_pitch_out_of_key_prob': oop}
        out.append({'op': 'chords_e2e', 'input': c})
    out.append({'op': 'melody_vit', 'input': {'pitches': [60], 'trans': [[0, 0, None], [0, 0, 0], [0, 0, 0]],
                                               'frames': [[None, None, None], [None, None, None]]}})
    return out


# ------------------------------------------------------------------ cases
def cases(rng, tier, n=None):
    out = []
    thorough = tier == 'thorough'
    for _ in range(6000 if thorough else 300):
        npitch = rng.randint(1, 4)
        m = 2 * npitch + 1
        T = rng.choice([1, 1, 2, 3, 4, 6, 9, 14]) if not thorough else rng.choice([1, 2, 3, 4, 6, 9, 14, 40])
        lo = rng.choice([-1, -2, -3, -10, -1000])
        pinf = rng.choice([0.0, 0.1, 0.3, 0.6])
        out.append({'op': 'melody_vit', 'input': {'pitches': sorted(rng.sample(range(128), npitch)),
                                                   'trans': _rand_mat(rng, m, m, lo, pinf),
                                                   'frames': _rand_mat(rng, T, m, lo, pinf * 0.5)}})
    for _ in range(500 if thorough else 60):        # plain-integer instance of the generic model
        npitch = rng.randint(1, 3)
        m = 2 * npitch + 1
        T = rng.choice([1, 2, 3, 5, 8])
        lo = rng.choice([-1, -2, -5, -100])
        out.append({'op': 'melody_vit_z', 'input': {'pitches': sorted(rng.sample(range(128), npitch)),
                                                     'trans': _rand_mat(rng, m, m, lo, 0.0),
                                                     'frames': _rand_mat(rng, T, m, lo, 0.0)}})
    for _ in range(1200 if thorough else 80):
        nc = rng.randint(1, 3)
        n_states = 12 * nc
        T = rng.choice([1, 2, 3, 5, 8])
        lo = rng.choice([-2, -5, -50, -100000])
        out.append({'op': 'chord_vit', 'input': {'nc': nc, 'kc': _rand_mat(rng, 12, nc, lo, 0.05),
                                                  'trans': _rand_mat(rng, n_states, n_states, lo, 0.1),
                                                  'frames': _rand_mat(rng, T, nc, lo, 0.05)}})
    for _ in range(8000 if thorough else 300):
        notes, total = _gen_melody_notes(rng, rng.randint(1, 40 if thorough else 9))
        out.append({'op': 'note_frames', 'input': {'notes': notes, 'total': total}})
    # writer loops
    for _ in range(5000 if thorough else 250):
        T = rng.randint(1, 64 if thorough else 12)
        figs, keys = _gen_path(rng, T, 97, 12)
        mode = rng.choice(['fixed', 'fixed', 'beats', 'beats_q'])
        if mode == 'fixed':
            g = _gen_grid(rng)
            g.update({'mode': mode, 'total': (T - 1) * g['spc'] + rng.choice([g['spc'], g['spc'] // 2, 1]),
                      'figs': figs, 'keys': keys, 'extras': rng.random() < 0.4})
            out.append({'op': 'chord_write', 'input': g})
        else:
            beats, total = _gen_beats(rng, T)
            out.append({'op': 'chord_write', 'input': {'mode': mode, 'beats': beats, 'total': total, 'figs': figs, 'keys': keys,
                                                        'extras': rng.random() < 0.4}})
    for _ in range(6000 if thorough else 250):
        notes, total = _gen_melody_notes(rng, rng.randint(1, 30 if thorough else 7))
        out.append({'op': 'melody_write', 'input': {'notes': notes, 'total': total, 'events': _gen_events(rng, notes, total)}})
    # end to end.  Every distinct (key_change_prob, chord_change_prob, chord_pitch_out_of_key_prob) costs 0.8 s (1164 x 1164
    # Python loop in the library): the fixed triples plus triples drawn INDEPENDENTLY per run (they change with VERIF_SEED),
    # some keeping one or two parameters at their default
    chord_tuples = list(CHORD_PARAMS[:4 if thorough else 3])
    for _ in range(6 if thorough else 2):
        t = {}
        for name, vals in (('key_change_prob', [0.0005, 0.005, 0.05, 0.2]), ('chord_change_prob', [0.1, 0.25, 0.75, 0.9]),
                           ('chord_pitch_out_of_key_prob', [0.02, 0.08, 0.15, 0.4])):
            if rng.random() < 0.7:
                t[name] = rng.choice(vals)
        chord_tuples.append(t)
    for i in range(400 if thorough else 24):
        T = rng.randint(1, 64 if thorough and i % 5 == 0 else 10)
        params = dict(chord_tuples[i % len(chord_tuples)] or {})     # every tuple of the run is used
        if rng.random() < 0.75:
            params['chord_note_concentration'] = rng.choice([100.0, 10.0, 37.5, 1.0, 250.0])
        inp = {'k': rng.randint(1, 11), 'params': params, 'addkeys': rng.random() < 0.5, 'extras': rng.random() < 0.4}
        if rng.random() < 0.6:
            g = _gen_grid(rng)
            total = (T - 1) * g['spc'] + rng.choice([g['spc'], g['spc'] // 2])
            inp.update(g)
            inp.update({'mode': 'fixed', 'total': total,
                        'notes': _gen_chord_notes(rng, [k * g['spc'] for k in range(T)], total)})
        else:
            beats, total = _gen_beats(rng, T)
            ft = [0] + sorted(set(b for b in beats if 0 < b < total))
            inp.update({'mode': rng.choice(['beats', 'beats_q']), 'beats': beats, 'total': total,
                        'notes': _gen_chord_notes(rng, ft, total)})
        out.append({'op': 'chords_e2e', 'input': inp})
    for _ in range(300 if thorough else 30):
        out.append(_gen_near_tie_first_frame(rng))
    for _ in range(2000 if thorough else 120):      # public helper sequence_note_pitch_vectors, both argument forms
        notes, total = _gen_melody_notes(rng, rng.randint(1, 12), end_note_prob=0.3)
        if rng.random() < 0.5:
            spf = rng.choice([16, 32, 48, 64, 100]) * GRID
        else:
            spf = [_gen_time(rng, 0, max(1, total // GRID + 8)) for _ in range(rng.randint(0, 6))]
            if spf and rng.random() < 0.3:
                spf.append(rng.choice(spf))
        if isinstance(spf, int) and total <= 0:
            continue        # zero frames: outside the quantifier ("1..64 chord frames"); the helper indexes row 0
        out.append({'op': 'pitch_vectors', 'input': {'notes': notes, 'total': total, 'spf': spf}})
    # maximal melody state space (all 128 pitches -> 257 states) with the optimum in the highest-numbered states, and the
    # 0..126 / 1..127 / smaller controls (seeded change C19-11: uint8 back-pointers wrap 256 -> 0)
    for lo, hi in ([(0, 127), (0, 126), (1, 127), (0, 127)] if not thorough else
                   [(0, 127)] * 6 + [(0, 126), (1, 127), (2, 127), (0, 125), (64, 127), (0, 63)]):
        notes, total = _gen_full_range_melody(rng, lo, hi, hold_from=rng.choice([0, 0, 3, 40]))
        out.append({'op': 'melody_e2e', 'input': {'notes': notes, 'total': total, 'k': 1, 'params': _gen_melody_params(rng)}})
    for npitch in ([128, 128, 127] if not thorough else [128] * 8 + [127, 126, 100]):
        out.append(_gen_top_state_viterbi(rng, npitch))
    for _ in range(300 if thorough else 30):         # two-step use: melody inference on its own output
        notes, total = _gen_melody_notes(rng, rng.randint(1, 8))
        out.append({'op': 'melody_twice', 'input': {'notes': notes, 'total': total}})
    for _ in range(40 if thorough else 5):
        out += _gen_out_of_key_sweep(rng)
    for i in range(4000 if thorough else 150):
        notes, total = _gen_melody_notes(rng, rng.randint(1, 100 if thorough and i % 10 == 0 else 12))
        out.append({'op': 'melody_e2e', 'input': {'notes': notes, 'total': total, 'k': rng.randint(1, 11),
                                                   'params': _gen_melody_params(rng)}})
    if thorough:
        for _ in range(2):
            out.append({'op': 'chord_vit_full', 'input': {'seed': rng.randrange(10 ** 6), 'T': 3}})
        # exhaustive small scopes for the writer loops: every event path of length 5 over {rest, onset/sustain of 2
        # pitches} on a fixed 5-frame sequence (5^5 = 3125), every chord path of length <= 6 over 3 figures (1092)
        fixed = [[60, 0, 64 * GRID, 0, 0, 0], [67, 32 * GRID, 96 * GRID, 1, 0, 0], [60, 96 * GRID, 128 * GRID, 0, 0, 0]]
        kinds = [[0, 0], [1, 60], [2, 60], [1, 67], [2, 67]]
        for evs in itertools.product(kinds, repeat=5):
            out.append({'op': 'melody_write', 'input': {'notes': fixed, 'total': 160 * GRID, 'events': [list(e) for e in evs]}})
        g = {'num': 4, 'den': 4, 'spq': 4, 'qpm': 120, 'cpb': None, 'spc': 2 ** 40, 'steps_per_chord': 8, 'mode': 'fixed'}
        for T in range(1, 7):
            for figs in itertools.product([0, 1, 50], repeat=T):
                c = dict(g); c.update({'total': T * 2 ** 40, 'figs': list(figs), 'keys': [(f + i) % 2 for i, f in enumerate(figs)]})
                out.append({'op': 'chord_write', 'input': c})
    if n is not None:
        rng.shuffle(out)
        out = out[:n]
    return out


# ------------------------------------------------------------------ building real sequences
def _melody_proto(notes, total, shift=0):
    from note_seq.protobuf import music_pb2
    ns = music_pb2.NoteSequence()
    for p, s, e, instr, drum, prog in notes:
        note = ns.notes.add()
        note.pitch = p + shift
        note.velocity = 80
        note.start_time = _sec(s)
        note.end_time = _sec(e)
        note.instrument = instr
        note.is_drum = bool(drum)
        note.program = prog
    ns.total_time = _sec(total)
    return ns


def _chord_proto(a, notes, shift=0):
    """The sequence of a chord_write / chords_e2e case (quantized as the mode says)."""
    from note_seq.protobuf import music_pb2
    from note_seq import sequences_lib
    ns = music_pb2.NoteSequence()
    for p, s, e in notes:
        note = ns.notes.add()
        note.pitch = p + shift
        note.velocity = 80
        note.start_time = _sec(s)
        note.end_time = _sec(e)
    ns.total_time = _sec(a['total'])
    if a.get('extras'):
        # things inference must leave alone: key signatures (replaced only with add_key_signatures=True), text annotations
        # that are neither chords nor beats, a control change, a second tempo-free field
        for t, key in ((0, 3), (a['total'] // 2, 10)):
            ks = ns.key_signatures.add(); ks.time = _sec(t); ks.key = key
        ta = ns.text_annotations.add(); ta.time = _sec(a['total'] // 4); ta.text = 'rit.'
        ta.annotation_type = music_pb2.NoteSequence.TextAnnotation.UNKNOWN
        cc = ns.control_changes.add(); cc.time = 0.0; cc.control_number = 64; cc.control_value = 100
        ns.filename = 'x.mid'
    if a['mode'] == 'fixed':
        ns.tempos.add().qpm = a['qpm']
        ts = ns.time_signatures.add()
        ts.numerator, ts.denominator = a['num'], a['den']
        return sequences_lib.quantize_note_sequence(ns, a['spq'])
    for b in a['beats']:
        ta = ns.text_annotations.add()
        ta.time = _sec(b)
        ta.annotation_type = music_pb2.NoteSequence.TextAnnotation.BEAT
    if a['mode'] == 'beats_q':
        return sequences_lib.quantize_note_sequence_absolute(ns, 64)
    return ns


def _chords_only_added(orig, seq, addkeys):
    """infer_chords_for_sequence may only APPEND chord-symbol annotations and, with add_key_signatures, replace the key
    signatures; everything else of the sequence must be byte-identical."""
    from note_seq.protobuf import music_pb2
    CH = music_pb2.NoteSequence.TextAnnotation.CHORD_SYMBOL
    n = len(orig.text_annotations)
    if any(ta.annotation_type != CH for ta in seq.text_annotations[n:]):
        return False
    exp = music_pb2.NoteSequence(); exp.CopyFrom(orig)
    got = music_pb2.NoteSequence(); got.CopyFrom(seq)
    del got.text_annotations[n:]
    if addkeys:
        del exp.key_signatures[:]
        del got.key_signatures[:]
    return exp.SerializeToString(deterministic=True) == got.SerializeToString(deterministic=True)


def _melody_only_added(orig, seq):
    from note_seq.protobuf import music_pb2
    got = music_pb2.NoteSequence(); got.CopyFrom(seq)
    del got.notes[len(orig.notes):]
    return orig.SerializeToString(deterministic=True) == got.SerializeToString(deterministic=True)


def _frame_times(a, T=None):
    """Frame start times the property speaks about, from the case description alone."""
    if a['mode'] == 'fixed':
        n = T if T is not None else -(-a['total'] // a['spc'])
        return [k * a['spc'] for k in range(n)]
    return [0] + sorted(set(b for b in a['beats'] if 0 < b < a['total']))


_TD_CACHE = {}
_WF_CACHE = {}
WF_TOL = 1e-9


def _wf_chord_model(dist, tr, key_change_prob, chord_change_prob):
    """"Their own hidden Markov model" presupposes that the tables ARE distributions with the documented meaning of the
    parameters.  Returns None or a reason string.  Memoised per parameter tuple (the tables are pure functions of it)."""
    import numpy as np
    k = (dist.tobytes(), key_change_prob, chord_change_prob)
    if k in _WF_CACHE:
        return _WF_CACHE[k]
    why = None
    nk, nc = dist.shape
    if not (np.all(dist >= 0) and np.all(dist <= 1)):
        why = 'key-chord prior has entries outside [0, 1]'
    elif np.abs(dist.sum(axis=1) - 1).max() > WF_TOL:
        why = 'key-chord prior of some key does not sum to 1'
    elif tr.shape != (nk * nc, nk * nc):
        why = 'transition table has the wrong shape'
    elif not (np.all(tr >= 0) and np.all(tr <= 1)):
        why = 'chord transition table has entries outside [0, 1]'
    elif np.abs(tr.sum(axis=1) - 1).max() > WF_TOL:
        why = 'some row of the chord transition table does not sum to 1 (max deviation %.3g)' % np.abs(tr.sum(axis=1) - 1).max()
    else:
        # documented meaning of the two change probabilities: P(key changes) = key_change_prob,
        # P(chord stays | key stays) = 1 - chord_change_prob  (so it decreases when chord_change_prob grows)
        same_key = np.array([tr[i, (i // nc) * nc:(i // nc + 1) * nc].sum() for i in range(nk * nc)])
        stay = np.diag(tr) / same_key
        if np.abs((1 - same_key) - key_change_prob).max() > WF_TOL:
            why = 'probability of leaving the key differs from key_change_prob'
        elif np.abs(stay - (1 - chord_change_prob)).max() > WF_TOL:
            why = 'probability of keeping the chord within a key differs from 1 - chord_change_prob'
    _WF_CACHE[k] = why
    return why


def _wf_melody_transition(mat, rest_prob):
    """Rows of _melody_transition_distribution: entries in [0, 1]; the EVENT part of each row (everything but the documented
    "non-event" of continuing a rest / sustaining the sounding note, which carries weight 1 on top) sums to 1; rest after a
    note has probability rest_prob.  (The full rows of the unchanged code sum to 2, not 1, because of the non-events.)"""
    import numpy as np
    n = (mat.shape[0] - 1) // 2
    if mat.shape != (2 * n + 1, 2 * n + 1):
        return 'melody transition table has the wrong shape'
    if not (np.all(mat >= 0) and np.all(mat <= 1)):
        return 'melody transition table has entries outside [0, 1]'
    ev = mat.copy()
    non_event = [mat[0, 0]]
    ev[0, 0] = 0
    for q in range(n):
        non_event += [mat[1 + q, 1 + n + q], mat[1 + n + q, 1 + n + q]]
        ev[1 + q, 1 + n + q] = 0
        ev[1 + n + q, 1 + n + q] = 0
    if np.abs(ev.sum(axis=1) - 1).max() > WF_TOL:
        return 'event part of some row of the melody transition table does not sum to 1'
    if np.abs(np.array(non_event) - 1).max() > WF_TOL:
        return 'a non-event (continuing a rest / sustaining) does not carry weight 1'
    if np.abs(mat[1:, 0] - rest_prob).max() > WF_TOL:
        return 'probability of a rest after a note differs from rest_prob'
    return None


class _memo_transition(object):
    """_key_chord_transition_distribution is a pure 1164 x 1164 Python double loop (0.8 s); the real function is called
    once per distinct argument tuple and its result re-used."""

    def __enter__(self):
        from note_seq import chord_inference as ci
        self.ci, self.orig = ci, ci._key_chord_transition_distribution
        orig = self.orig

        def memo(key_chord_distribution, key_change_prob, chord_change_prob):
            k = (key_chord_distribution.tobytes(), key_change_prob, chord_change_prob)
            if k not in _TD_CACHE:
                if len(_TD_CACHE) > 12:
                    _TD_CACHE.clear()
                _TD_CACHE[k] = orig(key_chord_distribution, key_change_prob=key_change_prob,
                                    chord_change_prob=chord_change_prob)
            return _TD_CACHE[k].copy()
        ci._key_chord_transition_distribution = memo
        return self

    def __exit__(self, *exc):
        self.ci._key_chord_transition_distribution = self.orig
        return False


def _fig_names():
    from note_seq import chord_inference as ci, constants
    names = {}
    for i, c in enumerate(ci._CHORDS):
        names[constants.NO_CHORD if c == constants.NO_CHORD else '%s%s' % (ci._PITCH_CLASS_NAMES[c[0]], c[1])] = i
    return names


# ------------------------------------------------------------------ implementation
def impl(case):
    return _impl(case)


def _events_to_path(ev, pitches, mi):
    path, evs = [], []
    for e in ev:
        if e == mi.REST:
            path.append(0); evs.append([0, 0])
        else:
            p, onset = e
            path.append(pitches.index(p) + 1 + (0 if onset else len(pitches)))
            evs.append([1 if onset else 2, int(p)])
    return path, evs


def _impl(case):
    op, a = case['op'], case['input']
    if op in ('melody_vit', 'melody_vit_z'):
        from note_seq import melody_inference as mi
        fr, tr, pl = _np(a['frames']), _np(a['trans']), list(a['pitches'])
        ev = mi._melody_viterbi(pl, fr, tr)
        path, evs = _events_to_path(ev, a['pitches'], mi)
        import numpy as np
        pure = bool(np.array_equal(fr, _np(a['frames'])) and np.array_equal(tr, _np(a['trans'])) and pl == a['pitches'])
        return ['OK', path, evs, pure]
    if op in ('chord_vit', 'chord_vit_full'):
        from note_seq import chord_inference as ci
        if op == 'chord_vit_full':
            a = _full_chord_input(a)
            chords = ci._CHORDS
            res = ci._key_chord_viterbi(_np(a['frames']), _np(a['kc']), _np(a['trans']))
            return ['OK', [int(k) * len(chords) + chords.index(c) for k, c in res]]
        old = (ci._CHORDS, ci._KEY_CHORDS)
        try:
            ci._CHORDS = list(range(a['nc']))
            ci._KEY_CHORDS = list(itertools.product(range(12), ci._CHORDS))
            fr, kc, tr = _np(a['frames']), _np(a['kc']), _np(a['trans'])
            res = ci._key_chord_viterbi(fr, kc, tr)
        finally:
            ci._CHORDS, ci._KEY_CHORDS = old
        import numpy as np
        pure = bool(np.array_equal(fr, _np(a['frames'])) and np.array_equal(kc, _np(a['kc'])) and
                    np.array_equal(tr, _np(a['trans'])))
        return ['OK', [int(k) * a['nc'] + int(c) for k, c in res], pure]
    if op == 'note_frames':
        return _impl_note_frames(a)
    if op == 'chord_write':
        return _impl_chord_write(a)
    if op == 'melody_write':
        return _impl_melody_write(a)
    if op == 'chords_e2e':
        return _impl_chords_e2e(a)
    if op == 'melody_e2e':
        return _impl_melody_e2e(a)
    if op == 'reject':
        return _impl_reject(a)
    if op == 'pitch_vectors':
        return _impl_pitch_vectors(a)
    if op == 'melody_twice':
        return _impl_melody_twice(a)
    raise ValueError(op)


_FULL_CACHE = {}


def _full_chord_input(a):
    key = (a['seed'], a['T'])
    if key not in _FULL_CACHE:
        import random
        from note_seq import chord_inference as ci
        r = random.Random(a['seed'])
        nc = len(ci._CHORDS)
        _FULL_CACHE.clear()
        _FULL_CACHE[key] = {'nc': nc, 'kc': _rand_mat(r, 12, nc, -50, 0.0),
                            'trans': _rand_mat(r, 12 * nc, 12 * nc, -100000, 0.02),
                            'frames': _rand_mat(r, a['T'], nc, -100000, 0.0)}
    return _FULL_CACHE[key]


def _impl_note_frames(a):
    from note_seq import melody_inference as mi
    ns = _melody_proto(a['notes'], a['total'])
    pitches, has_onsets, has_notes, event_times = mi.sequence_note_frames(ns)
    return ['OK', [int(p) for p in pitches], [_tk(t) for t in event_times],
            [[int(bool(x)) for x in row] for row in has_onsets], [[int(bool(x)) for x in row] for row in has_notes]]


def _impl_chord_write(a):
    """Drive the annotation-writing loop of infer_chords_for_sequence with a chosen key/chord path."""
    from note_seq import chord_inference as ci
    from note_seq.protobuf import music_pb2
    seq = _chord_proto(a, [[60, 0, a['total']]])
    before = music_pb2.NoteSequence(); before.CopyFrom(seq)
    path = [(k, ci._CHORDS[f]) for k, f in zip(a['keys'], a['figs'])]
    kw = {'add_key_signatures': True}
    if a['mode'] == 'fixed' and a['cpb'] is not None:
        kw['chords_per_bar'] = a['cpb']
    orig = ci._key_chord_viterbi
    got = {}
    with _memo_transition():
        try:
            def fake(chord_frame_loglik, *args, **kwargs):
                got['frames'] = int(chord_frame_loglik.shape[0])
                return list(path)
            ci._key_chord_viterbi = fake
            try:
                ci.infer_chords_for_sequence(seq, **kw)
            except Exception as e:
                return ['EXC', type(e).__name__]
        finally:
            ci._key_chord_viterbi = orig
    names = _fig_names()
    if len(names) != len(ci._CHORDS):
        return ['FIGURES-NOT-DISTINCT']
    CH = music_pb2.NoteSequence.TextAnnotation.CHORD_SYMBOL
    anns = [ta for ta in seq.text_annotations if ta.annotation_type == CH]
    written = [[_tk(ta.time), names.get(ta.text, ta.text)] for ta in anns]
    keys = [[_tk(k.time), int(k.key)] for k in seq.key_signatures]
    steps = [int(ta.quantized_step) for ta in anns]
    beat_steps = {}
    for ta in seq.text_annotations:
        if ta.annotation_type == music_pb2.NoteSequence.TextAnnotation.BEAT:
            beat_steps.setdefault(_tk(ta.time), int(ta.quantized_step))
    return ['OK', written, keys, steps, got.get('frames'), sorted(beat_steps.items()), _chords_only_added(before, seq, True)]


def _impl_melody_write(a):
    from note_seq import melody_inference as mi
    ns = _melody_proto(a['notes'], a['total'])
    n0 = len(ns.notes)
    before = _melody_proto(a['notes'], a['total'])
    path = [mi.REST if k == 0 else (p, k == 1) for k, p in a['events']]
    orig = mi._melody_viterbi
    try:
        mi._melody_viterbi = lambda *args, **kw: list(path)
        try:
            instr = mi.infer_melody_for_sequence(ns)
        except AssertionError:
            return ['ASSERT']
        except Exception as e:
            return ['EXC', type(e).__name__]
    finally:
        mi._melody_viterbi = orig
    notes = [[_tk(x.start_time), _tk(x.end_time), int(x.pitch)] for x in ns.notes[n0:]]
    ok_instr = all(x.instrument == instr and x.velocity == mi.MELODY_VELOCITY for x in ns.notes[n0:])
    used = sorted(set(x.instrument for x in ns.notes[:n0]))
    return ['OK', notes, bool(ok_instr), int(instr), used, _melody_only_added(before, ns)]


def _capture(module, name):
    store = {}
    orig = getattr(module, name)

    def wrapper(*args, **kw):
        store['args'] = args
        res = orig(*args, **kw)
        store['res'] = res
        return res
    return orig, wrapper, store


def _float_dp(init, trans, frames):
    """Independent DP (no back-pointers): the maximum over all paths of the left-nested float score."""
    import numpy as np
    v = np.array(init, dtype=float)
    for e in frames:
        v = (v[:, None] + trans).max(axis=0) + e
    return float(v.max())


def _float_path_score(init, trans, frames, path):
    s = init[path[0]]
    for t in range(len(frames)):
        s = (s + trans[path[t], path[t + 1]]) + frames[t][path[t + 1]]
    return float(s)


def _impl_chords_e2e(a):
    import numpy as np
    from note_seq import chord_inference as ci
    from note_seq.protobuf import music_pb2
    out = []
    names = _fig_names()
    kw = dict(a['params'])
    kw['add_key_signatures'] = a['addkeys']
    if a['mode'] == 'fixed' and a['cpb'] is not None:
        kw['chords_per_bar'] = a['cpb']
    for shift in (0, a['k']):
        seq = _chord_proto(a, a['notes'], shift=shift)
        before = music_pb2.NoteSequence(); before.CopyFrom(seq)
        orig, wrapper, store = _capture(ci, '_key_chord_viterbi')
        with _memo_transition():
            try:
                ci._key_chord_viterbi = wrapper
                try:
                    ci.infer_chords_for_sequence(seq, **kw)
                except Exception as e:
                    return ['EXC', type(e).__name__]
            finally:
                ci._key_chord_viterbi = orig
            # the same call again on an identical sequence must give the identical result (no state between calls)
            same = True
            if shift == 0 and a['total'] <= 4 * a.get('spc', a['total']):
                again = music_pb2.NoteSequence(); again.CopyFrom(before)
                try:
                    ci.infer_chords_for_sequence(again, **kw)
                    same = again.SerializeToString(deterministic=True) == seq.SerializeToString(deterministic=True)
                except Exception:
                    same = False
        frame_ll, kc_ll, trans_ll = store['args']
        nc = len(ci._CHORDS)
        path = [int(k) * nc + ci._CHORDS.index(c) for k, c in store['res']]
        init = np.array([-np.log(12) + kc_ll[i // nc, i % nc] + frame_ll[0, i % nc] for i in range(12 * nc)])
        frames = [np.tile(frame_ll[t], 12) for t in range(1, frame_ll.shape[0])]
        attained = _float_path_score(init, trans_ll, frames, path)
        best = _float_dp(init, trans_ll, frames)
        CH = music_pb2.NoteSequence.TextAnnotation.CHORD_SYMBOL
        anns = [[_tk(ta.time), names.get(ta.text, ta.text), int(ta.quantized_step)] for ta in seq.text_annotations
                if ta.annotation_type == CH]
        keys = [[_tk(k.time), int(k.key)] for k in seq.key_signatures]
        doc = _documented_chord_model(a, kw, shift)
        r = {'attained': attained, 'best': best, 'anns': anns, 'keys': keys, 'frames': int(frame_ll.shape[0]),
             'path': path, 'finite': bool(np.isfinite(best)), 'untouched': _chords_only_added(before, seq, a['addkeys']),
             'repeat_same': same}
        # the key/chord path the RETURNED annotations denote (keys from the key signatures when they were requested,
        # otherwise from the Viterbi result, whose chords the oracle checks against the annotations)
        times = _frame_times(a)
        r['wf'] = doc['wf'] if doc is not None else 'documented model could not be built'
        if doc is not None and len(times) == doc['frame_ll'].shape[0]:
            figs = [_in_force(anns, t) for t in times]
            ks = [_in_force(keys, t) for t in times] if a['addkeys'] else [s // nc for s in path]
            if len(ks) == len(figs) and all(isinstance(f, int) for f in figs) and all(isinstance(k, int) for k in ks):
                fl, lkc, ltr = doc['frame_ll'], doc['log_kc'], doc['log_trans']
                dinit = np.array([(-np.log(12) + lkc[i // nc, i % nc]) + fl[0, i % nc] for i in range(12 * nc)])
                dframes = [np.tile(fl[t], 12) for t in range(1, fl.shape[0])]
                r['attained_doc'] = _float_path_score(dinit, ltr, dframes, [k * nc + f for k, f in zip(ks, figs)])
                r['best_doc'] = _float_dp(dinit, ltr, dframes)
        out.append(r)
    return ['OK', out]


def _documented_chord_model(a, kw, shift):
    """The HMM as infer_chords_for_sequence documents it, rebuilt OUTSIDE that function from the library's own building
    blocks: frame log-likelihoods of the pitch vectors on the case's frame grid, LOG of the chord-given-key distribution
    (plus the uniform key prior) for the first frame, LOG of the key-chord transition distribution afterwards."""
    import inspect
    import numpy as np
    from note_seq import chord_inference as ci
    dflt = dict((k, v.default) for k, v in inspect.signature(ci.infer_chords_for_sequence).parameters.items()
                if v.default is not inspect.Parameter.empty)
    par = lambda name: kw.get(name, dflt[name])
    try:
        fresh = _chord_proto(a, a['notes'], shift=shift)
        grid = _sec(a['spc']) if a['mode'] == 'fixed' else [_sec(t) for t in _frame_times(a)[1:]]
        with np.errstate(divide='ignore'), _memo_transition():
            vec = ci.sequence_note_pitch_vectors(fresh, grid)
            fl = ci._chord_frame_log_likelihood(vec, par('chord_note_concentration'))
            dist = ci._key_chord_distribution(chord_pitch_out_of_key_prob=par('chord_pitch_out_of_key_prob'))
            tr = ci._key_chord_transition_distribution(dist, key_change_prob=par('key_change_prob'),
                                                       chord_change_prob=par('chord_change_prob'))
            return {'frame_ll': fl, 'log_kc': np.log(dist), 'log_trans': np.log(tr),
                    'wf': _wf_chord_model(dist, tr, par('key_change_prob'), par('chord_change_prob'))}
    except Exception:
        return None


_MTD_CACHE = {}


def _documented_melody_model(a, shift):
    """The melody HMM as infer_melody_for_sequence documents it, rebuilt OUTSIDE that function from the library's own
    model functions with the REQUESTED parameters (defaults from the signature): frames of sequence_note_frames, frame
    durations, _melody_frame_log_likelihood with the three instantaneous probabilities in their documented roles,
    _melody_transition_distribution with rest_prob and the Cauchy-like interval prior 1 / (1 + (d / scale)^2) restricted
    to the pitches present."""
    import inspect
    import numpy as np
    from note_seq import melody_inference as mi, constants
    dflt = dict((k, v.default) for k, v in inspect.signature(mi.infer_melody_for_sequence).parameters.items()
                if v.default is not inspect.Parameter.empty)
    par = lambda name: a['params'].get(name, dflt[name])
    try:
        fresh = _melody_proto(a['notes'], a['total'], shift=shift)
        pitches, has_onsets, has_notes, event_times = mi.sequence_note_frames(fresh)
        if not pitches:
            return None
        bounds = [0.0] + list(event_times) + [fresh.total_time]
        durations = np.array([b - x for x, b in zip(bounds, bounds[1:])])
        scale = par('melody_interval_scale')
        with np.errstate(divide='ignore', invalid='ignore'):
            ck = (par('rest_prob'), scale)
            if ck not in _MTD_CACHE:        # pure function of (rest_prob, scale); 25 combinations at most
                _MTD_CACHE[ck] = mi._melody_transition_distribution(
                    rest_prob=par('rest_prob'), interval_prob_fn=lambda d: 1 / (1 + (d / scale) ** 2))
            dist = _MTD_CACHE[ck]
            if ('wf',) + ck not in _MTD_CACHE:
                _MTD_CACHE[('wf',) + ck] = _wf_melody_transition(dist, par('rest_prob'))
            n_midi = constants.MAX_MIDI_PITCH - constants.MIN_MIDI_PITCH + 1
            idx = ([0] + [q - constants.MIN_MIDI_PITCH + 1 for q in pitches] +
                   [n_midi + q - constants.MIN_MIDI_PITCH + 1 for q in pitches])
            log_trans = np.log(dist[idx, :][:, idx])
            frame_ll = mi._melody_frame_log_likelihood(
                pitches, has_onsets, has_notes, durations,
                instantaneous_non_max_pitch_prob=par('instantaneous_non_max_pitch_prob'),
                instantaneous_non_empty_rest_prob=par('instantaneous_non_empty_rest_prob'),
                instantaneous_missing_pitch_prob=par('instantaneous_missing_pitch_prob'))
        return {'pitches': [int(q) for q in pitches], 'times': [_tk(t) for t in bounds[:-1]], 'frame_ll': frame_ll,
                'log_trans': log_trans, 'wf': _MTD_CACHE[('wf',) + ck]}
    except Exception:
        return None


def _path_of_notes(notes, times, pitches):
    """The state path the RETURNED melody notes denote: per frame start, onset of the note starting there, sustain of the
    note sounding through it, rest otherwise.  None if a note does not fit the frames."""
    np_ = len(pitches)
    path = []
    for t in times:
        st = 0
        for s0, e0, q in notes:
            if q not in pitches or not (isinstance(s0, int) and isinstance(e0, int)):
                return None
            if s0 == t:
                st = pitches.index(q) + 1
            elif s0 < t < e0:
                st = pitches.index(q) + 1 + np_
        path.append(st)
    if any(s0 not in times for s0, _, _ in notes):
        return None
    return path


def _impl_melody_e2e(a):
    import numpy as np
    from note_seq import melody_inference as mi
    out = []
    ps = [x[0] for x in a['notes']] or [60]
    k = a['k'] if max(ps) + a['k'] <= 127 else (-a['k'] if min(ps) - a['k'] >= 0 else 0)
    for shift in (0, k):
        ns = _melody_proto(a['notes'], a['total'], shift=shift)
        n0 = len(ns.notes)
        before = _melody_proto(a['notes'], a['total'], shift=shift)
        orig, wrapper, store = _capture(mi, '_melody_viterbi')
        try:
            mi._melody_viterbi = wrapper
            try:
                instr = mi.infer_melody_for_sequence(ns, **a['params'])
            except Exception as e:
                return ['EXC', type(e).__name__]
        finally:
            mi._melody_viterbi = orig
        notes = [[_tk(x.start_time), _tk(x.end_time), int(x.pitch) - shift] for x in ns.notes[n0:]]
        # returned instrument = instrument of every added note, and new; nothing else changed; an identical second call on an
        # identical sequence gives the identical result
        again = _melody_proto(a['notes'], a['total'], shift=shift)
        try:
            instr2 = mi.infer_melody_for_sequence(again, **a['params'])
            same = instr2 == instr and again.SerializeToString(deterministic=True) == ns.SerializeToString(deterministic=True)
        except Exception:
            same = False
        side = {'instr_ok': isinstance(instr, int) and all(x.instrument == instr for x in ns.notes[n0:]) and
                            instr not in set(x.instrument for x in ns.notes[:n0]),
                'untouched': _melody_only_added(before, ns), 'repeat_same': bool(same)}
        if 'args' not in store:
            r = {'attained': 0.0, 'best': 0.0, 'notes': notes, 'frames': 0, 'delta': 0.0, 'frame_ll': '', 'nan': False,
                 'events': [], 'struct_ok': True}
            r.update(side)
            out.append(r)
            continue
        pitches, frame_ll, trans_ll = store['args']
        path, evs = _events_to_path(store['res'], list(pitches), mi)
        # hypothesis of theorem C19_melody_notes_start_at_real_notes: an onset state has likelihood log 0 in a frame
        # without an onset of its pitch
        _, has_onsets, _, _ = mi.sequence_note_frames(_melody_proto(a['notes'], a['total'], shift=shift))
        struct_ok = bool(np.all(np.isneginf(frame_ll[:, 1:len(pitches) + 1][~has_onsets])))
        # hypothesis of theorem C19_melody_assertion_never_fires: a sustain state is entered with log-probability -inf
        # from every state other than the onset / sustain state of its own pitch
        npi = len(pitches)
        for j in range(npi + 1, 2 * npi + 1):
            for i in range(2 * npi + 1):
                if i != j and i + npi != j and not np.isneginf(trans_ll[i, j]):
                    struct_ok = False
        init = trans_ll[0, :] + frame_ll[0, :]
        frames = [frame_ll[t] for t in range(1, frame_ll.shape[0])]
        attained = _float_path_score(init, trans_ll, frames, path)
        best = _float_dp(init, trans_ll, frames)
        import hashlib
        r = {'attained': attained, 'best': best, 'notes': notes, 'frames': int(frame_ll.shape[0]),
             'events': [[kd, (p - shift) if kd else 0] for kd, p in evs], 'struct_ok': struct_ok,
             'trans': trans_ll, 'frame_ll': hashlib.sha1(frame_ll.tobytes()).hexdigest(),
             'nan': bool(np.isnan(frame_ll).any() or np.isnan(trans_ll).any())}
        # the requested model, rebuilt outside infer_melody_for_sequence, and the score under it of the path the returned
        # notes denote
        r.update(side)
        doc = _documented_melody_model(a, shift)
        r['wf'] = doc['wf'] if doc is not None else None
        if doc is not None and not (np.isnan(doc['frame_ll']).any() or np.isnan(doc['log_trans']).any()):
            dpath = _path_of_notes([[s0, e0, q + shift] for s0, e0, q in notes], doc['times'], doc['pitches'])
            if dpath is not None:
                dinit = doc['log_trans'][0, :] + doc['frame_ll'][0, :]
                dframes = [doc['frame_ll'][t] for t in range(1, doc['frame_ll'].shape[0])]
                r['attained_doc'] = _float_path_score(dinit, doc['log_trans'], dframes, dpath)
                r['best_doc'] = _float_dp(dinit, doc['log_trans'], dframes)
        out.append(r)
    # how far the two transition matrices are apart (the only part of the melody HMM that sees absolute pitch)
    if 'trans' in out[0] and 'trans' in out[1]:
        t0, t1 = out[0].pop('trans'), out[1].pop('trans')
        if t0.shape == t1.shape:
            fin = np.isfinite(t0) & np.isfinite(t1)
            same_inf = bool((np.isfinite(t0) == np.isfinite(t1)).all())
            delta = float(np.abs(t0[fin] - t1[fin]).max()) if fin.any() else 0.0
        else:
            same_inf, delta = False, float('inf')
        out[0]['delta'] = out[1]['delta'] = delta
        out[0]['same_inf'] = out[1]['same_inf'] = same_inf
    return ['OK', out]


def _impl_pitch_vectors(a):
    import numpy as np
    from note_seq import chord_inference as ci
    ns = _melody_proto(a['notes'], a['total'])
    before = ns.SerializeToString(deterministic=True)
    spf = a['spf']
    arg = _sec(spf) if isinstance(spf, int) else [_sec(t) for t in spf]
    arg_copy = list(arg) if isinstance(arg, list) else arg
    try:
        x = ci.sequence_note_pitch_vectors(ns, arg)
    except Exception as e:
        return ['EXC', type(e).__name__]
    pure = ns.SerializeToString(deterministic=True) == before and arg == arg_copy
    # documented meaning: row f = unit-normalised vector of the time each pitch class sounds in frame f (zero if silent);
    # frames are delimited by the sorted boundaries, the first / last one open-ended
    if isinstance(spf, int):
        n = -(-a['total'] // spf)
        bounds = [k * spf for k in range(1, n)]
    else:
        bounds = sorted(spf)
        n = len(bounds) + 1
    if x.shape != (n, 12):
        return ['OK', 'shape', list(x.shape), [n, 12], pure]
    exp = np.zeros([n, 12])
    for p0, s0, e0, _instr, drum, prog in a['notes']:
        if drum or prog in _UNPITCHED:
            continue
        for f in range(n):
            lo = bounds[f - 1] if f > 0 else min(s0, e0)
            hi = bounds[f] if f < n - 1 else max(s0, e0)
            ov = min(e0, hi) - max(s0, lo)
            if ov > 0:
                exp[f, p0 % 12] += _sec(ov)
    norm = np.sqrt((exp ** 2).sum(axis=1))
    exp[norm > 0] /= norm[norm > 0][:, None]
    bad = np.argwhere(~np.isclose(x, exp, rtol=1e-9, atol=1e-12))
    return ['OK', 'values', [int(v) for v in bad[0]] if len(bad) else None, int(n), pure]


def _impl_melody_twice(a):
    from note_seq import melody_inference as mi
    ns = _melody_proto(a['notes'], a['total'])
    try:
        i1 = mi.infer_melody_for_sequence(ns)
        n1 = len(ns.notes)
        mid = [[int(x.pitch), _tk(x.start_time), _tk(x.end_time), int(x.instrument), int(x.is_drum), int(x.program)]
               for x in ns.notes]
        i2 = mi.infer_melody_for_sequence(ns)
    except Exception as e:
        return ['EXC', type(e).__name__]
    added = [[_tk(x.start_time), _tk(x.end_time), int(x.pitch), int(x.instrument)] for x in ns.notes[n1:]]
    return ['OK', int(i1), int(i2), mid, added]


def _impl_reject(a):
    from note_seq import chord_inference as ci, melody_inference as mi, sequences_lib
    from note_seq.protobuf import music_pb2
    w = a['which']
    ns = music_pb2.NoteSequence()
    note = ns.notes.add(); note.pitch = 60; note.velocity = 80; note.start_time = 0.0; note.end_time = 2.0
    ns.total_time = 2.0
    ns.tempos.add().qpm = 120
    ts = ns.time_signatures.add(); ts.numerator = 4; ts.denominator = 4
    kw = {}
    fn = ci.infer_chords_for_sequence
    if w == 'chords-has-chords':
        seq = sequences_lib.quantize_note_sequence(ns, 4)
        ta = seq.text_annotations.add(); ta.text = 'C'
        ta.annotation_type = music_pb2.NoteSequence.TextAnnotation.CHORD_SYMBOL
    elif w == 'chords-unquantized-cpb':
        seq = ns; kw['chords_per_bar'] = 2
    elif w == 'chords-no-beats':
        seq = ns
    elif w == 'chords-uncommon-meter':
        ts.numerator = 5
        seq = sequences_lib.quantize_note_sequence(ns, 4)
    elif w == 'chords-non-integer-steps':
        ts.numerator = 3
        seq = sequences_lib.quantize_note_sequence(ns, 1); kw['chords_per_bar'] = 2
    elif w == 'chords-empty':
        del ns.notes[:]; ns.total_time = 0.0
        seq = sequences_lib.quantize_note_sequence(ns, 4)
    elif w == 'chords-too-long':
        note.end_time = 1000.5; ns.total_time = 1000.5
        seq = sequences_lib.quantize_note_sequence(ns, 1)      # 1 s per chord => 1001 chords
    elif w in ('chords-has-chords-late', 'chords-has-chords-unquantized'):
        # a chord symbol stored AFTER beats and other text, at a late time; quantized or not
        for i, t in enumerate([0.5, 1.0, 1.5]):
            ta = ns.text_annotations.add(); ta.time = t; ta.annotation_type = music_pb2.NoteSequence.TextAnnotation.BEAT
        ta = ns.text_annotations.add(); ta.time = 0.1; ta.text = 'dolce'
        ta = ns.text_annotations.add(); ta.time = 1.9; ta.text = 'G7'
        ta.annotation_type = music_pb2.NoteSequence.TextAnnotation.CHORD_SYMBOL
        seq = sequences_lib.quantize_note_sequence(ns, 4) if w == 'chords-has-chords-late' else ns
    elif w == 'chords-absolute-cpb':
        seq = sequences_lib.quantize_note_sequence_absolute(ns, 8); kw['chords_per_bar'] = 1
    elif w == 'chords-no-beats-other-text':
        ta = ns.text_annotations.add(); ta.time = 1.0; ta.text = 'beat'      # text says beat, type does not
        seq = ns
    elif w == 'chords-no-beats-absolute':
        seq = sequences_lib.quantize_note_sequence_absolute(ns, 8)
    elif w in ('chords-too-long-beats', 'chords-just-short-enough'):
        n_frames = ci._MAX_NUM_CHORDS + (1 if w == 'chords-too-long-beats' else 0)
        note.end_time = n_frames * 0.25; ns.total_time = n_frames * 0.25
        for i in range(1, n_frames):
            ta = ns.text_annotations.add(); ta.time = i * 0.25
            ta.annotation_type = music_pb2.NoteSequence.TextAnnotation.BEAT
        ta = ns.text_annotations.add(); ta.time = 0.25; ta.annotation_type = music_pb2.NoteSequence.TextAnnotation.BEAT
        seq = ns
    elif w == 'melody-quantized-absolute':
        seq = sequences_lib.quantize_note_sequence_absolute(ns, 8); fn = mi.infer_melody_for_sequence
    elif w == 'melody-just-few-enough-frames':
        del ns.notes[:]
        for i in range(mi.MAX_NUM_FRAMES):
            x = ns.notes.add(); x.pitch = 60; x.velocity = 80; x.start_time = i * 0.25; x.end_time = (i + 1) * 0.25
        ns.total_time = mi.MAX_NUM_FRAMES * 0.25
        seq = ns; fn = mi.infer_melody_for_sequence
    elif w == 'melody-quantized':
        seq = sequences_lib.quantize_note_sequence(ns, 4); fn = mi.infer_melody_for_sequence
    elif w == 'melody-too-many-frames':
        del ns.notes[:]
        for i in range(mi.MAX_NUM_FRAMES + 1):
            x = ns.notes.add(); x.pitch = 60; x.velocity = 80; x.start_time = i * 0.25; x.end_time = (i + 1) * 0.25
        ns.total_time = (mi.MAX_NUM_FRAMES + 1) * 0.25
        seq = ns; fn = mi.infer_melody_for_sequence
    elif w == 'melody-no-pitches':
        note.is_drum = True
        seq = ns; fn = mi.infer_melody_for_sequence
    else:
        raise ValueError(w)
    if fn is ci.infer_chords_for_sequence:
        # a key signature that a rejected call must not have removed, although removal was requested
        ks = seq.key_signatures.add(); ks.key = 5
        kw['add_key_signatures'] = True
    before = seq.SerializeToString(deterministic=True)
    with _memo_transition():
        try:
            fn(seq, **kw)
        except Exception as e:
            return ['EXC', type(e).__name__, seq.SerializeToString(deterministic=True) == before]
    return ['OK', None, seq.SerializeToString(deterministic=True) == before]


# ------------------------------------------------------------------ model
def _wire_notes(notes):
    return [[p, s, e, drum, prog] for p, s, e, instr, drum, prog in notes]


def model_input(case):
    op, a = case['op'], case['input']
    if op == 'melody_vit':
        return [1, _wire_mat(_cols(a['trans'])), _wire_mat([a['frames'][0]])[0], _wire_mat(a['frames'][1:]), a['pitches']]
    if op == 'melody_vit_z':
        init = [a['trans'][0][j] + a['frames'][0][j] for j in range(len(a['frames'][0]))]
        return [5, _cols(a['trans']), init, a['frames'][1:]]
    if op in ('chord_vit', 'chord_vit_full'):
        if op == 'chord_vit_full':
            a = _full_chord_input(a)
        init = [None if (a['kc'][i // a['nc']][i % a['nc']] is None or a['frames'][0][i % a['nc']] is None)
                else a['kc'][i // a['nc']][i % a['nc']] + a['frames'][0][i % a['nc']] for i in range(12 * a['nc'])]
        frames = [row * 12 for row in a['frames'][1:]]
        best, cnt = _dp_best(init, a['trans'], frames)
        if cnt != 1:
            return None         # ties could be broken differently by the rounding of -log 12 (see ASSUMPTIONS)
        return [2, 12, _wire_mat(a['kc']), _wire_mat(_cols(a['trans'])), _wire_mat(a['frames'])]
    if op == 'note_frames':
        return [6, _wire_notes(a['notes']), a['total']]
    if op == 'chord_write':
        if a['mode'] == 'fixed':
            return [3, 0, a['spc'], a['total'], a['figs'], a['keys']]
        return [3, 1, a['beats'], a['total'], a['figs'], a['keys']]
    if op == 'melody_write':
        return [4, a['events'], _wire_notes(a['notes']), a['total']]
    return None


def model_output(case, m):
    op = case['op']
    if op == 'melody_vit':
        return ['OK', m[0], m[2]]
    if op == 'melody_vit_z':
        return ['OK', m]
    if op in ('chord_vit', 'chord_vit_full'):
        return ['OK', m[0]]
    if op == 'note_frames':
        return ['OK', m[0], m[1], m[2], m[3]]
    if op == 'chord_write':
        return ['OK', m[0], m[1], m[2]]
    if op == 'melody_write':
        if m[0] == -1000:
            return ['ASSERT']
        return ['OK', m[1]]


def equal(case, io, mo):
    op = case['op']
    if op == 'melody_vit_z':
        return io[0] == 'OK' and io[1] == mo[1]
    if op == 'melody_vit':
        return io[:3] == mo
    if op in ('chord_vit', 'chord_vit_full'):
        return io[:2] == mo
    if op == 'chord_write':
        # chord annotations and key signatures; the model's frame grid must have as many frames as the implementation's
        return io[0] == 'OK' and io[1] == mo[1] and io[2] == mo[2] and io[4] == len(mo[3])
    if op == 'melody_write':
        if mo[0] == 'ASSERT':
            return io[0] == 'ASSERT'
        return io[0] == 'OK' and io[1] == mo[1]
    return io == mo


# ------------------------------------------------------------------ oracle
def _in_force(written, t):
    cur = None
    for w in written:
        if isinstance(w[0], int) and w[0] <= t:
            cur = w[1]
    return cur


def _check_annotations(prefix, written, times, path_figs):
    """The property's clauses about written chord annotations (or key signatures) against a frame grid and a path."""
    ts = [w[0] for w in written]
    if any(t not in times for t in ts):
        return {'kind': prefix + '-off-frame-boundary', 'times': [str(t) for t in ts if t not in times][:3]}
    if any(not (x < y) for x, y in zip(ts, ts[1:])):
        return {'kind': prefix + '-times-not-increasing'}
    if any(x[1] == y[1] for x, y in zip(written, written[1:])):
        return {'kind': prefix + '-consecutive-symbols-equal'}
    if len(written) > len(times):
        return {'kind': prefix + '-more-than-one-per-frame'}
    if path_figs is not None:
        for t, f in zip(times, path_figs):
            if _in_force(written, t) != f:
                return {'kind': prefix + '-in-force-differs-from-path', 'frame_time': t}
    return None


def _readback(prefix, notes, events, times):
    """At every frame start the written notes sound exactly the pitch of that frame's melody event."""
    for (k, p), t in zip(events, times):
        sounding = [q for s, e, q in notes if isinstance(s, int) and isinstance(e, int) and s <= t < e]
        if sounding != ([] if k == 0 else [p]):
            return {'kind': prefix + '-notes-do-not-read-back-as-the-path', 'frame_time': t, 'sounding': sounding,
                    'event': [k, p]}
    return None


def oracle(case, io):
    op, a = case['op'], case['input']
    if io[0] == 'HARNESS-EXC':
        return {'kind': 'harness-exception', 'detail': io[1:]}
    if op in ('melody_vit', 'melody_vit_z', 'chord_vit') and io[0] == 'OK' and io[-1] is False:
        return {'kind': 'viterbi-mutated-its-arguments'}
    if op in ('melody_vit', 'melody_vit_z'):
        m = 2 * len(a['pitches']) + 1
        init = [None if (a['trans'][0][j] is None or a['frames'][0][j] is None) else a['trans'][0][j] + a['frames'][0][j]
                for j in range(m)]
        best, _ = _dp_best(init, a['trans'], a['frames'][1:])
        path = io[1]
        if len(path) != len(a['frames']) or not all(0 <= s < m for s in path):
            return {'kind': 'melody-viterbi-path-shape', 'path': path}
        sc = _path_score(init, a['trans'], a['frames'][1:], path)
        if sc != best:
            return {'kind': 'melody-viterbi-path-not-optimal', 'attained': str(sc), 'best': str(best)}
        return None
    if op in ('chord_vit', 'chord_vit_full'):
        if op == 'chord_vit_full':
            a = _full_chord_input(a)
        nc = a['nc']
        init = [None if (a['kc'][i // nc][i % nc] is None or a['frames'][0][i % nc] is None)
                else a['kc'][i // nc][i % nc] + a['frames'][0][i % nc] for i in range(12 * nc)]
        frames = [row * 12 for row in a['frames'][1:]]
        best, _ = _dp_best(init, a['trans'], frames)
        path = io[1]
        if len(path) != len(a['frames']) or not all(0 <= s < 12 * nc for s in path):
            return {'kind': 'chord-viterbi-path-shape', 'path': path}
        sc = _path_score(init, a['trans'], frames, path)
        if sc != best:
            return {'kind': 'chord-viterbi-path-not-optimal', 'attained': str(sc), 'best': str(best)}
        return None
    if op == 'note_frames':
        # every onset mark sits in the frame that starts at the start time of a real note of that pitch
        pitches, et, on, no = io[1], io[2], io[3], io[4]
        starts = [0] + et
        mel = [x for x in a['notes'] if _melodic(x)]
        for f, row in enumerate(on):
            for j, v in enumerate(row):
                if v and not any(x[0] == pitches[j] and x[1] == starts[f] for x in mel):
                    return {'kind': 'onset-frame-does-not-start-at-a-note-of-that-pitch', 'frame': f, 'pitch': pitches[j]}
        return None
    if op == 'chord_write':
        if io[0] != 'OK':
            return {'kind': 'chord-write-raised', 'exc': io}
        written, keys, steps = io[1], io[2], io[3]
        times = _frame_times(a, len(a['figs']))
        if io[4] != len(a['figs']):
            return {'kind': 'chord-frame-count', 'frames': io[4], 'expected': len(a['figs'])}
        if not io[6]:
            return {'kind': 'chord-write-sequence-changed-elsewhere'}
        v = _check_annotations('chord-annotation', written, times, a['figs']) or \
            _check_annotations('key-signature', keys, times, a['keys'])
        if v:
            return v
        if a['mode'] == 'fixed':
            want = [times.index(t) * a['steps_per_chord'] for t, _ in written]
        elif a['mode'] == 'beats_q':
            bs = dict((t, s) for t, s in io[5])
            want = [0 if t == 0 else bs.get(t) for t, _ in written]
        else:
            want = steps
        if steps != want:
            return {'kind': 'chord-annotation-quantized-step', 'steps': steps, 'expected': want}
        return None
    if op == 'melody_write':
        if io[0] == 'ASSERT':
            return None
        if io[0] != 'OK':
            return {'kind': 'melody-write-raised', 'exc': io}
        notes = io[1]
        if not io[5]:
            return {'kind': 'melody-write-sequence-changed-elsewhere'}
        mel = [x for x in a['notes'] if _melodic(x)]
        total = a['total']
        times = [0] + sorted(set([x[1] for x in mel] + [x[2] for x in mel]) - {0, total})
        if not mel:
            return None if not notes else {'kind': 'melody-notes-without-pitches'}
        prev_end = 0
        for s, e, p in notes:
            if not (isinstance(s, int) and isinstance(e, int) and prev_end <= s < e <= total):
                return {'kind': 'melody-notes-overlap-or-out-of-range', 'note': [s, e, p]}
            prev_end = e
            if [1, p] not in [ev for ev, t in zip(a['events'], times) if t == s]:
                return {'kind': 'melody-note-not-at-onset-event', 'note': [s, e, p]}
        if not io[2] or io[3] in io[4]:
            return {'kind': 'melody-notes-wrong-instrument'}
        if not any(x[1] < total for x in mel):
            return None         # no pitched note occupies a frame: nothing to read back
        return _readback('melody', notes, a['events'], times)
    if op == 'chords_e2e':
        if io[0] != 'OK':
            return {'kind': 'chords-e2e-raised', 'exc': io}
        r0, r1 = io[1]
        times = _frame_times(a)
        from note_seq import chord_inference as ci
        nc = len(ci._CHORDS)
        for r in (r0, r1):
            if r['frames'] != len(times):
                return {'kind': 'chords-e2e-frame-count', 'frames': r['frames'], 'expected': len(times)}
            if not r['attained'] == r['best']:
                return {'kind': 'chords-e2e-path-not-maximum-likelihood', 'attained': r['attained'], 'best': r['best']}
            if r.get('wf'):
                return {'kind': 'transition-distribution-not-stochastic', 'model': 'chords', 'why': r['wf'],
                        'params': a['params']}
            if not r['untouched']:
                return {'kind': 'chords-e2e-sequence-changed-elsewhere', 'addkeys': a['addkeys']}
            if not r['repeat_same']:
                return {'kind': 'chords-e2e-second-identical-call-differs'}
            if not a['addkeys'] and a.get('extras') and len(r['keys']) != 2:
                return {'kind': 'chords-e2e-key-signatures-changed-without-request'}
            if 'best_doc' not in r:
                return {'kind': 'chords-e2e-documented-model-not-evaluable'}
            if not r['attained_doc'] >= r['best_doc'] - 1e-9 * max(1.0, abs(r['best_doc'])):
                return {'kind': 'chords-e2e-annotations-not-maximum-likelihood-of-documented-model',
                        'attained': r['attained_doc'], 'best': r['best_doc']}
            v = _check_annotations('chords-e2e-annotation', r['anns'], times, [s % nc for s in r['path']])
            if not v and a['addkeys']:
                v = _check_annotations('chords-e2e-key-signature', r['keys'], times, [s // nc for s in r['path']])
            if v:
                return v
        if abs(r0['attained'] - r1['attained']) > 1e-9 * max(1.0, abs(r0['attained'])):
            return {'kind': 'chords-e2e-likelihood-not-transposition-invariant', 'a': r0['attained'], 'b': r1['attained']}
        return None
    if op == 'melody_e2e':
        if io[0] != 'OK':
            return {'kind': 'melody-e2e-raised', 'exc': io}
        r0, r1 = io[1]
        mel = [x for x in a['notes'] if _melodic(x)]
        onsets = set((x[0], x[1]) for x in mel)
        for r in (r0, r1):
            if r['nan']:
                return {'kind': 'melody-e2e-nan-likelihood'}
            if not r['attained'] == r['best']:
                return {'kind': 'melody-e2e-path-not-maximum-likelihood', 'attained': r['attained'], 'best': r['best']}
            prev_end = 0
            for s, e, p in r['notes']:
                if not (isinstance(s, int) and isinstance(e, int) and prev_end <= s < e <= a['total']):
                    return {'kind': 'melody-e2e-notes-overlap-or-out-of-range', 'note': [s, e, p]}
                prev_end = e
                if (p, s) not in onsets:
                    return {'kind': 'melody-e2e-note-not-at-real-onset', 'note': [s, e, p],
                            'at_sequence_end': any(x[0] == p and x[1] == a['total'] for x in mel)}
            if r.get('wf'):
                return {'kind': 'transition-distribution-not-stochastic', 'model': 'melody', 'why': r['wf'],
                        'params': a['params']}
            if not r['untouched']:
                return {'kind': 'melody-e2e-sequence-changed-elsewhere'}
            if not r['instr_ok']:
                return {'kind': 'melody-e2e-wrong-instrument'}
            if not r['repeat_same']:
                return {'kind': 'melody-e2e-second-identical-call-differs'}
            if r['frames']:
                if 'best_doc' not in r:
                    return {'kind': 'melody-e2e-documented-model-not-evaluable'}
                if not r['attained_doc'] >= r['best_doc'] - 1e-9 * max(1.0, abs(r['best_doc'])):
                    return {'kind': 'melody-e2e-notes-not-maximum-likelihood-of-requested-model',
                            'attained': r['attained_doc'], 'best': r['best_doc']}
            if not r['struct_ok']:
                return {'kind': 'melody-e2e-zero-probability-structure-missing'}
            if r['frames']:
                times = [0] + sorted(set([x[1] for x in mel] + [x[2] for x in mel]) - {0, a['total']})
                v = _readback('melody-e2e', r['notes'], r['events'], times)
                if v:
                    return v
        if r0['frame_ll'] != r1['frame_ll']:
            return {'kind': 'melody-e2e-frame-likelihoods-not-transposition-invariant'}
        d = abs(r0['attained'] - r1['attained'])
        if d > 1e-9 * max(1.0, abs(r0['attained'])):
            # the transition prior is normalised over the MIDI range 0..127, so its rows depend on absolute pitch;
            # 'explained' = the shift of the optimum is within frames x (largest entry-wise difference of the two matrices)
            bound = r0['frames'] * r0.get('delta', 0.0) * (1 + 1e-9) + 1e-9
            return {'kind': 'melody-e2e-likelihood-not-transposition-invariant',
                    'cause': 'midi-range-normalisation' if (d <= bound and r0.get('same_inf')) else 'unexplained',
                    'a': r0['attained'], 'b': r1['attained'], 'bound': bound}
        return None
    if op == 'pitch_vectors':
        if io[0] != 'OK':
            return {'kind': 'pitch-vectors-raised', 'exc': io}
        if not io[4]:
            return {'kind': 'pitch-vectors-modified-its-arguments'}
        if io[1] == 'shape':
            return {'kind': 'pitch-vectors-frame-count', 'shape': io[2], 'expected': io[3]}
        if io[2] is not None:
            return {'kind': 'pitch-vector-is-not-the-normalised-sounding-time', 'frame_and_pitch_class': io[2]}
        return None
    if op == 'melody_twice':
        if io[0] != 'OK':
            return {'kind': 'melody-twice-raised', 'exc': io}
        i1, i2, mid, added = io[1], io[2], io[3], io[4]
        mel = [x for x in mid if _melodic(x)]
        if i2 in set(x[3] for x in mid) or any(x[3] != i2 for x in added):
            return {'kind': 'melody-twice-instrument-not-new', 'first': i1, 'second': i2}
        onsets = set((x[0], x[1]) for x in mel)
        prev_end = 0
        for s0, e0, q, _i in added:
            if not (isinstance(s0, int) and isinstance(e0, int) and prev_end <= s0 < e0 <= a['total']):
                return {'kind': 'melody-twice-notes-overlap-or-out-of-range', 'note': [s0, e0, q]}
            prev_end = e0
            if (q, s0) not in onsets:
                return {'kind': 'melody-twice-note-not-at-real-onset', 'note': [s0, e0, q]}
        return None
    if op == 'reject':
        want = EXPECTED_REJECTION[a['which']]
        got = io[1] if io[0] == 'EXC' else None
        if want == 'ACCEPTED':      # exactly at the documented limit: must NOT be rejected (and then it does add something)
            if got is not None or io[2]:
                return {'kind': 'input-at-the-limit-rejected-or-ignored', 'which': a['which'], 'got': got}
            return None
        if got != want:
            return {'kind': 'rejection-differs-from-documentation', 'which': a['which'], 'got': got, 'expected': want}
        if not io[2]:
            return {'kind': 'rejected-sequence-was-modified', 'which': a['which']}
        return None
    return None


def nontrivial(case, io):
    op, a = case['op'], case['input']
    if io[0] != 'OK':
        return op == 'reject'
    if op in ('melody_vit', 'melody_vit_z', 'chord_vit', 'chord_vit_full'):
        return len(a.get('frames', [0, 0])) >= 2
    if op == 'note_frames':
        return len(io[2]) >= 1
    if op == 'pitch_vectors':
        return io[1] == 'values' and io[3] >= 2
    if op == 'melody_twice':
        return len(io[4]) >= 1
    if op in ('chord_write', 'melody_write'):
        return len(io[1]) >= 1
    if op == 'chords_e2e':
        return len(io[1][0]['anns']) >= 1
    if op == 'melody_e2e':
        return len(io[1][0]['notes']) >= 1
    return True


def shrink(case):
    op, a = case['op'], dict(case['input'])
    if 'notes' in a and op in ('note_frames', 'melody_e2e', 'melody_write', 'chords_e2e', 'pitch_vectors', 'melody_twice'):
        for i in range(len(a['notes'])):
            b = dict(a); b['notes'] = a['notes'][:i] + a['notes'][i + 1:]
            if b['notes']:
                yield {'op': op, 'input': b}
    if op == 'melody_e2e' and a.get('params'):
        b = dict(a); b['params'] = {}
        yield {'op': op, 'input': b}
    if op in ('melody_vit', 'melody_vit_z', 'chord_vit') and len(a['frames']) > 1:
        b = dict(a); b['frames'] = a['frames'][:-1]
        yield {'op': op, 'input': b}


META = {
    'level_text': ('Theorem (any number of states and frames, any score type with a total order and left-monotone addition, '
                   'instantiated at integers and at integers with -inf): the Viterbi recursion both inference functions '
                   'implement returns a valid path whose score, accumulated in the code\'s own left-nested order, is >= that of '
                   'every path of the same length; first-index argmax tie-breaking is part of the model. Theorems for the '
                   'writer loops over modelled frame grids (k x seconds_per_chord; sorted distinct interior beats; sorted '
                   'distinct interior note on/offsets): chord annotations and key signatures are a subsequence of the frame '
                   'list (at most one per frame, on frame boundaries), times strictly increase, consecutive symbols differ, the '
                   'chord in force at every frame is the inferred one; melody notes are ordered, non-overlapping, non-empty, '
                   'inside [0,total_time] and start at onset events of their own pitch; an onset mark of the frame summary '
                   'always sits in the frame that starts at the start time of a real note of that pitch. Tied to the code by '
                   'running the real _melody_viterbi/_key_chord_viterbi on integer matrices with ties and -inf, the real '
                   'sequence_note_frames, and the real infer_* writer loops on chosen paths.'),
    'level_note': ('PARTIAL: the numpy code that builds likelihood and transition matrices (log, dot, norm, tiling) is not '
                   'modelled; end-to-end optimality (exact equality of the attained float score with an independent DP over the '
                   'captured matrices), transposition invariance and "melody notes start at real onsets" are checked on the '
                   'implementation (a test, not a theorem). Float optimality rests on monotonicity of IEEE addition (hypothesis '
                   'of the generic theorem; proved for the integer instances only). Chord path equality is compared only when '
                   'the optimum is unique (the code adds -log 12).'),
}
