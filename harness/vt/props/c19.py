"""C19 — chord and melody inference return a maximum-likelihood path of their model."""
import itertools
import math

ID = 'C19'
NEG = None          # -inf on the wire / in JSON

RULE = ('integer-valued (hence float-exact) log-likelihood matrices incl. -inf with many exact ties, fed to the real '
        '_melody_viterbi / _key_chord_viterbi and to the extracted Gallina Viterbi; paths compared for equality '
        '(chord cases only when the optimum is unique, because the code adds the irrational constant -log 12); '
        'writer loops driven through the real infer_* functions with the Viterbi call replaced by a chosen path; '
        'end-to-end runs where an independent DP recomputes the optimum from the matrices the implementation built. '
        'non-trivial = at least 2 frames and 2 states, or a writer case that writes at least one note/annotation')
ASSUMPTIONS = ['numpy log/dot/norm that build the likelihood matrices are not modelled (captured and re-used by the oracle)',
               'IEEE addition is monotone on non-NaN values (instance of the generic theorem cited, not re-proved for floats)',
               'chord path equality is compared only for cases whose optimum is unique (margin >= 1 in integer scores)']
TRUSTED = ['independent dynamic program in harness/vt/props/c19.py (oracle for attained score)']


# ------------------------------------------------------------------ helpers
def _f(x):
    return float('-inf') if x is None else float(x)


def _np(mat):
    import numpy as np
    return np.array([[_f(x) for x in row] for row in mat], dtype=float)


def _rand_mat(rng, r, c, lo, p_inf):
    return [[None if rng.random() < p_inf else rng.randint(lo, 0) for _ in range(c)] for _ in range(r)]


def _dp_best(init, trans, frames):
    """Independent DP over exact values (ints / -inf): best total score and number of optimal paths (capped)."""
    NEGINF = float('-inf')
    n = len(init)
    best = [(_f(v), 1 if v is not None else 0) for v in init]
    for e in frames:
        new = []
        for j in range(n):
            m, cnt = NEGINF, 0
            for i in range(n):
                if best[i][0] == NEGINF or trans[i][j] is None:
                    continue
                s = best[i][0] + trans[i][j]
                if s > m:
                    m, cnt = s, best[i][1]
                elif s == m:
                    cnt = min(cnt + best[i][1], 10)
            if e[j] is None or m == NEGINF:
                new.append((NEGINF, 0))
            else:
                new.append((m + e[j], cnt))
        best = new
    top = max(b[0] for b in best)
    cnt = sum(b[1] for b in best if b[0] == top) if top != NEGINF else 0
    return top, cnt


def _path_score(init, trans, frames, path):
    s = _f(init[path[0]])
    for t, e in enumerate(frames):
        s = (s + _f(trans[path[t]][path[t + 1]])) + _f(e[path[t + 1]])
    return s


def _wire_mat(mat):
    return [[[] if x is None else [x] for x in row] for row in mat]


def _cols(trans):
    n = len(trans)
    return [[trans[i][j] for i in range(n)] for j in range(n)]


# ------------------------------------------------------------------ cases
def cases(rng, tier, n=None):
    out = []
    thorough = tier == 'thorough'
    nm = 2500 if thorough else 250
    for _ in range(nm):
        npitch = rng.randint(1, 4)
        m = 2 * npitch + 1
        T = rng.choice([1, 1, 2, 3, 4, 6, 9, 14])
        lo = rng.choice([-1, -2, -3, -10, -1000])
        pinf = rng.choice([0.0, 0.1, 0.3])
        out.append({'op': 'melody_vit', 'input': {'np': npitch, 'trans': _rand_mat(rng, m, m, lo, pinf),
                                                   'frames': _rand_mat(rng, T, m, lo, pinf * 0.5)}})
    nc_cases = 600 if thorough else 80
    for _ in range(nc_cases):
        nc = rng.randint(1, 3)
        n_states = 12 * nc
        T = rng.choice([1, 2, 3, 5, 8])
        lo = rng.choice([-2, -5, -50, -100000])
        out.append({'op': 'chord_vit', 'input': {'nc': nc, 'kc': _rand_mat(rng, 12, nc, lo, 0.05),
                                                  'trans': _rand_mat(rng, n_states, n_states, lo, 0.1),
                                                  'frames': _rand_mat(rng, T, nc, lo, 0.05)}})
    # writer loops
    for _ in range(1500 if thorough else 200):
        T = rng.randint(1, 12)
        figs = [rng.randrange(0, 4) for _ in range(T)]
        keys = [rng.randrange(0, 3) for _ in range(T)]
        out.append({'op': 'chord_write', 'input': {'figs': figs, 'keys': keys, 'beats': rng.random() < 0.5,
                                                    'seed': rng.randrange(10 ** 6)}})
    for _ in range(1500 if thorough else 200):
        out.append({'op': 'melody_write', 'input': {'seed': rng.randrange(10 ** 6), 'n': rng.randint(1, 7)}})
    # end to end
    for _ in range(200 if thorough else 25):
        out.append({'op': 'chords_e2e', 'input': {'seed': rng.randrange(10 ** 6), 'n': rng.randint(1, 14),
                                                   'k': rng.randint(1, 11)}})
    for _ in range(300 if thorough else 40):
        out.append({'op': 'melody_e2e', 'input': {'seed': rng.randrange(10 ** 6), 'n': rng.randint(1, 12),
                                                   'k': rng.randint(1, 11)}})
    if thorough:
        for _ in range(2):
            out.append({'op': 'chord_vit_full', 'input': {'seed': rng.randrange(10 ** 6), 'T': 3}})
    if n is not None:
        out = out[:n]
    return out


# ------------------------------------------------------------------ sequences for writer / e2e cases
def _melody_seq(seed, n, shift=0):
    import random
    from note_seq.protobuf import music_pb2
    r = random.Random(seed)
    ns = music_pb2.NoteSequence()
    pitches = r.sample(range(50, 80), min(4, n))
    t = 0.0
    for _ in range(n):
        t += r.choice([0, 0.25, 0.5, 1.0])
        d = r.choice([0.25, 0.5, 1.0, 2.0])
        note = ns.notes.add()
        note.pitch = r.choice(pitches) + shift
        note.velocity = 80
        note.start_time = t
        note.end_time = t + d
        note.instrument = r.randrange(2)
    ns.total_time = max(x.end_time for x in ns.notes) + r.choice([0, 0.5])
    return ns


def _chord_seq(seed, n, shift=0, beats=False):
    import random
    from note_seq.protobuf import music_pb2
    from note_seq import sequences_lib
    r = random.Random(seed)
    ns = music_pb2.NoteSequence()
    ns.tempos.add().qpm = 120
    ts = ns.time_signatures.add(); ts.numerator = 4; ts.denominator = 4
    roots = [r.randrange(12) for _ in range(4)]
    t = 0.0
    for _ in range(n):
        root = r.choice(roots)
        for iv in r.choice([[0, 4, 7], [0, 3, 7], [0, 4, 7, 10], [0], [0, 7]]):
            note = ns.notes.add()
            note.pitch = 48 + (root + iv + shift) % 12 + 12 * r.randrange(2)
            note.velocity = 80
            note.start_time = t
            note.end_time = t + r.choice([0.5, 1.0, 2.0])
        t += r.choice([0.5, 1.0, 2.0])
    ns.total_time = max(x.end_time for x in ns.notes)
    if beats:
        b = 0.5
        while b < ns.total_time:
            ta = ns.text_annotations.add()
            ta.time = b
            ta.annotation_type = music_pb2.NoteSequence.TextAnnotation.BEAT
            b += r.choice([0.5, 1.0])
        return ns
    return sequences_lib.quantize_note_sequence(ns, 4)


# ------------------------------------------------------------------ implementation
def impl(case):
    import numpy as np
    op, a = case['op'], case['input']
    if op == 'melody_vit':
        from note_seq import melody_inference as mi
        pitches = list(range(60, 60 + a['np']))
        ev = mi._melody_viterbi(pitches, _np(a['frames']), _np(a['trans']))
        path = []
        for e in ev:
            if e == mi.REST:
                path.append(0)
            else:
                p, onset = e
                path.append((p - 60 + 1) if onset else (p - 60 + 1 + a['np']))
        return ['OK', path]
    if op in ('chord_vit', 'chord_vit_full'):
        from note_seq import chord_inference as ci
        if op == 'chord_vit_full':
            a = _full_chord_input(a)
            chords = ci._CHORDS
            res = ci._key_chord_viterbi(_np(a['frames']), _np(a['kc']), _np(a['trans']))
            return ['OK', [k * len(chords) + chords.index(c) for k, c in res]]
        old = (ci._CHORDS, ci._KEY_CHORDS)
        try:
            ci._CHORDS = list(range(a['nc']))
            ci._KEY_CHORDS = list(itertools.product(range(12), ci._CHORDS))
            res = ci._key_chord_viterbi(_np(a['frames']), _np(a['kc']), _np(a['trans']))
        finally:
            ci._CHORDS, ci._KEY_CHORDS = old
        return ['OK', [int(k) * a['nc'] + int(c) for k, c in res]]
    if op == 'chord_write':
        return _impl_chord_write(a)
    if op == 'melody_write':
        return _impl_melody_write(a)
    if op == 'chords_e2e':
        return _impl_chords_e2e(a)
    if op == 'melody_e2e':
        return _impl_melody_e2e(a)
    raise ValueError(op)


_FULL_CACHE = {}


def _full_chord_input(a):
    key = (a['seed'], a['T'])
    if key not in _FULL_CACHE:
        import random
        from note_seq import chord_inference as ci
        r = random.Random(a['seed'])
        nc = len(ci._CHORDS)
        _FULL_CACHE.clear()
        _FULL_CACHE[key] = {'nc': nc, 'kc': _rand_mat(r, 12, nc, -50, 0.0),
                            'trans': _rand_mat(r, 12 * nc, 12 * nc, -100000, 0.02),
                            'frames': _rand_mat(r, a['T'], nc, -100000, 0.0)}
    return _FULL_CACHE[key]


FIGS = [None, (0, ''), (7, 'm'), (2, '7')]     # None = NO_CHORD


def _impl_chord_write(a):
    """Drive the annotation-writing loop of infer_chords_for_sequence with a chosen key/chord path."""
    from note_seq import chord_inference as ci, constants
    from note_seq.protobuf import music_pb2
    T = len(a['figs'])
    # a sequence with exactly T chord frames
    ns = music_pb2.NoteSequence()
    ns.tempos.add().qpm = 120
    ts = ns.time_signatures.add(); ts.numerator = 4; ts.denominator = 4
    note = ns.notes.add(); note.pitch = 60; note.velocity = 80; note.start_time = 0.0
    if a['beats']:
        import random
        r = random.Random(a['seed'])
        t = 0.0
        for _ in range(T - 1):
            t += r.choice([0.25, 0.5, 1.0])
            ta = ns.text_annotations.add(); ta.time = t
            ta.annotation_type = music_pb2.NoteSequence.TextAnnotation.BEAT
        note.end_time = t + 0.5
        ns.total_time = t + 0.5
        seq = ns
        times = [0.0] + [x.time for x in ns.text_annotations]
    else:
        from note_seq import sequences_lib
        note.end_time = T * 1.0          # 2 chords per 4/4 bar at 120 qpm => 1 s per chord frame
        ns.total_time = T * 1.0
        seq = sequences_lib.quantize_note_sequence(ns, 4)
        times = [float(i) for i in range(T)]
    path = [(k, constants.NO_CHORD if FIGS[f] is None else FIGS[f]) for k, f in zip(a['keys'], a['figs'])]
    orig = ci._key_chord_viterbi
    try:
        ci._key_chord_viterbi = lambda *args, **kw: list(path)
        try:
            ci.infer_chords_for_sequence(seq, add_key_signatures=True)
        except Exception as e:
            return ['EXC', type(e).__name__]
    finally:
        ci._key_chord_viterbi = orig
    names = {}
    for i, f in enumerate(FIGS):
        names[constants.NO_CHORD if f is None else '%s%s' % (ci._PITCH_CLASS_NAMES[f[0]], f[1])] = i
    written = [[int(round(ta.time * 1024)), names[ta.text]] for ta in seq.text_annotations
               if ta.annotation_type == music_pb2.NoteSequence.TextAnnotation.CHORD_SYMBOL]
    keys = [[int(round(k.time * 1024)), k.key] for k in seq.key_signatures]
    return ['OK', written, keys, [int(round(t * 1024)) for t in times]]


def _melody_events(a):
    """A melody-event path consistent with the frames of a generated sequence (random but assert-safe or not)."""
    import random
    from note_seq import melody_inference as mi
    ns = _melody_seq(a['seed'], a['n'])
    pitches, has_onsets, has_notes, event_times = mi.sequence_note_frames(ns)
    r = random.Random(a['seed'] + 1)
    T = len(event_times) + 1
    evs = []
    cur = None
    for _ in range(T):
        c = r.random()
        if c < 0.25:
            evs.append([0, 0]); cur = None
        elif c < 0.65 or cur is None:
            if r.random() < 0.08 and cur is None:
                p = r.choice(pitches); evs.append([2, p])       # a sustain after a rest: trips the code's assert
            else:
                cur = r.choice(pitches); evs.append([1, cur])
        else:
            evs.append([2, cur if r.random() < 0.95 else r.choice(pitches)])
    return ns, event_times, evs


def _impl_melody_write(a):
    from note_seq import melody_inference as mi
    ns, event_times, evs = _melody_events(a)
    n0 = len(ns.notes)
    path = [mi.REST if k == 0 else (p, k == 1) for k, p in evs]
    orig = mi._melody_viterbi
    try:
        mi._melody_viterbi = lambda *args, **kw: list(path)
        try:
            instr = mi.infer_melody_for_sequence(ns)
        except AssertionError:
            return ['ASSERT']
        except Exception as e:
            return ['EXC', type(e).__name__]
    finally:
        mi._melody_viterbi = orig
    notes = [[int(round(x.start_time * 1024)), int(round(x.end_time * 1024)), x.pitch] for x in ns.notes[n0:]]
    ok_instr = all(x.instrument == instr for x in ns.notes[n0:])
    return ['OK', notes, ok_instr]


def _capture(module, name):
    store = {}
    orig = getattr(module, name)

    def wrapper(*args, **kw):
        store['args'] = args
        res = orig(*args, **kw)
        store['res'] = res
        return res
    return orig, wrapper, store


def _float_dp(init, trans, frames):
    import numpy as np
    v = np.array(init, dtype=float)
    for e in frames:
        v = (v[:, None] + trans).max(axis=0) + e
    return float(v.max())


def _float_path_score(init, trans, frames, path):
    s = init[path[0]]
    for t in range(len(frames)):
        s = (s + trans[path[t], path[t + 1]]) + frames[t][path[t + 1]]
    return float(s)


def _impl_chords_e2e(a):
    import numpy as np
    from note_seq import chord_inference as ci
    from note_seq.protobuf import music_pb2
    out = []
    for shift in (0, a['k']):
        seq = _chord_seq(a['seed'], a['n'], shift=shift, beats=(a['seed'] % 3 == 0))
        orig, wrapper, store = _capture(ci, '_key_chord_viterbi')
        try:
            ci._key_chord_viterbi = wrapper
            try:
                ci.infer_chords_for_sequence(seq)
            except ci.ChordInferenceError as e:
                return ['EXC', type(e).__name__]
        finally:
            ci._key_chord_viterbi = orig
        frame_ll, kc_ll, trans_ll = store['args']
        nc = len(ci._CHORDS)
        path = [k * nc + ci._CHORDS.index(c) for k, c in store['res']]
        init = np.array([-np.log(12) + kc_ll[i // nc, i % nc] + frame_ll[0, i % nc] for i in range(12 * nc)])
        frames = [np.tile(frame_ll[t], 12) for t in range(1, frame_ll.shape[0])]
        attained = _float_path_score(init, trans_ll, frames, path)
        best = _float_dp(init, trans_ll, frames)
        anns = [(ta.time, ta.text) for ta in seq.text_annotations
                if ta.annotation_type == music_pb2.NoteSequence.TextAnnotation.CHORD_SYMBOL]
        out.append({'attained': attained, 'best': best, 'anns': anns, 'frames': int(frame_ll.shape[0]),
                    'total': seq.total_time})
    return ['OK', out]


def _impl_melody_e2e(a):
    import numpy as np
    from note_seq import melody_inference as mi
    out = []
    for shift in (0, a['k']):
        ns = _melody_seq(a['seed'], a['n'], shift=shift)
        n0 = len(ns.notes)
        orig_notes = [(x.pitch, x.start_time) for x in ns.notes]
        orig, wrapper, store = _capture(mi, '_melody_viterbi')
        try:
            mi._melody_viterbi = wrapper
            try:
                mi.infer_melody_for_sequence(ns)
            except mi.MelodyInferenceError as e:
                return ['EXC', type(e).__name__]
        finally:
            mi._melody_viterbi = orig
        pitches, frame_ll, trans_ll = store['args']
        path = []
        for e in store['res']:
            if e == mi.REST:
                path.append(0)
            else:
                p, onset = e
                path.append(pitches.index(p) + 1 + (0 if onset else len(pitches)))
        init = trans_ll[0, :] + frame_ll[0, :]
        frames = [frame_ll[t] for t in range(1, frame_ll.shape[0])]
        attained = _float_path_score(init, trans_ll, frames, path)
        best = _float_dp(init, trans_ll, frames)
        notes = [(x.start_time, x.end_time, x.pitch) for x in ns.notes[n0:]]
        out.append({'attained': attained, 'best': best, 'notes': notes, 'orig': orig_notes, 'total': ns.total_time})
    return ['OK', out]


# ------------------------------------------------------------------ model
def model_input(case):
    op, a = case['op'], case['input']
    if op == 'melody_vit':
        return [1, _wire_mat(_cols(a['trans'])), _wire_mat([a['frames'][0]])[0], _wire_mat(a['frames'][1:])]
    if op in ('chord_vit', 'chord_vit_full'):
        if op == 'chord_vit_full':
            a = _full_chord_input(a)
        init = [None if (a['kc'][i // a['nc']][i % a['nc']] is None or a['frames'][0][i % a['nc']] is None)
                else a['kc'][i // a['nc']][i % a['nc']] + a['frames'][0][i % a['nc']] for i in range(12 * a['nc'])]
        frames = [row * 12 for row in a['frames'][1:]]
        best, cnt = _dp_best(init, a['trans'], frames)
        if cnt != 1:
            return None         # ties could be broken differently by the rounding of -log 12 (see ASSUMPTIONS)
        return [2, 12, _wire_mat(a['kc']), _wire_mat(_cols(a['trans'])), _wire_mat(a['frames'])]
    if op == 'chord_write':
        io = _impl_chord_write(a)
        if io[0] != 'OK':
            return None
        times = io[3]
        return [3, [[t, f] for t, f in zip(times, a['figs'])]]
    if op == 'melody_write':
        ns, event_times, evs = _melody_events(a)
        times = [0] + [int(round(t * 1024)) for t in event_times]
        return [4, [[k, p, t] for (k, p), t in zip(evs, times)], int(round(ns.total_time * 1024))]
    return None


def model_output(case, m):
    op = case['op']
    if op in ('melody_vit', 'chord_vit', 'chord_vit_full'):
        return ['OK', m[0]]
    if op == 'chord_write':
        return ['OK', m]
    if op == 'melody_write':
        if m[0] == -1000:
            return ['ASSERT']
        return ['OK', m[1]]


def equal(case, io, mo):
    op = case['op']
    if op == 'chord_write':
        return io[0] == 'OK' and io[1] == mo[1]
    if op == 'melody_write':
        if mo[0] == 'ASSERT':
            return io[0] == 'ASSERT'
        return io[0] == 'OK' and io[1] == mo[1]
    return io == mo


# ------------------------------------------------------------------ oracle
def oracle(case, io):
    op, a = case['op'], case['input']
    if io[0] == 'EXC' and op in ('chords_e2e', 'melody_e2e'):
        return None
    if op == 'melody_vit':
        m = 2 * a['np'] + 1
        init = [None if (a['trans'][0][j] is None or a['frames'][0][j] is None) else a['trans'][0][j] + a['frames'][0][j]
                for j in range(m)]
        best, _ = _dp_best(init, a['trans'], a['frames'][1:])
        path = io[1]
        if len(path) != len(a['frames']) or not all(0 <= s < m for s in path):
            return {'kind': 'melody-viterbi-path-shape', 'path': path}
        sc = _path_score(init, a['trans'], a['frames'][1:], path)
        if sc != best:
            return {'kind': 'melody-viterbi-path-not-optimal', 'attained': str(sc), 'best': str(best)}
        return None
    if op in ('chord_vit', 'chord_vit_full'):
        if op == 'chord_vit_full':
            a = _full_chord_input(a)
        nc = a['nc']
        init = [None if (a['kc'][i // nc][i % nc] is None or a['frames'][0][i % nc] is None)
                else a['kc'][i // nc][i % nc] + a['frames'][0][i % nc] for i in range(12 * nc)]
        frames = [row * 12 for row in a['frames'][1:]]
        best, _ = _dp_best(init, a['trans'], frames)
        path = io[1]
        if len(path) != len(a['frames']) or not all(0 <= s < 12 * nc for s in path):
            return {'kind': 'chord-viterbi-path-shape', 'path': path}
        sc = _path_score(init, a['trans'], frames, path)
        if sc != best:
            return {'kind': 'chord-viterbi-path-not-optimal', 'attained': str(sc), 'best': str(best)}
        return None
    if op == 'chord_write':
        if io[0] != 'OK':
            return {'kind': 'chord-write-raised', 'exc': io}
        written, keys, times = io[1], io[2], io[3]
        figs = a['figs']
        # one change per frame boundary at most, on frame boundaries, non-decreasing, consecutive differ
        if any(t not in times for t, _ in written):
            return {'kind': 'chord-annotation-off-frame-boundary'}
        ts = [t for t, _ in written]
        if ts != sorted(ts) or len(set(ts)) != len(ts):
            return {'kind': 'chord-annotations-not-increasing'}
        if any(x[1] == y[1] for x, y in zip(written, written[1:])):
            return {'kind': 'chord-consecutive-symbols-equal'}
        # chord in force at each frame = inferred chord
        for t, f in zip(times, figs):
            cur = None
            for u, g in written:
                if u <= t:
                    cur = g
            if cur != f:
                return {'kind': 'chord-in-force-differs-from-path', 'frame_time': t}
        for t, k in zip(times, a['keys']):
            cur = None
            for u, g in keys:
                if u <= t:
                    cur = g
            if cur != k:
                return {'kind': 'key-in-force-differs-from-path', 'frame_time': t}
        return None
    if op == 'melody_write':
        if io[0] == 'ASSERT':
            return None
        if io[0] != 'OK':
            return {'kind': 'melody-write-raised', 'exc': io}
        notes = io[1]
        ns, event_times, evs = _melody_events(a)
        total = int(round(ns.total_time * 1024))
        times = [0] + [int(round(t * 1024)) for t in event_times]
        prev_end = 0
        for s, e, p in notes:
            if not (prev_end <= s < e <= total):
                return {'kind': 'melody-notes-overlap-or-out-of-range', 'note': [s, e, p]}
            prev_end = e
            if [1, p] not in [ev for ev, t in zip(evs, times) if t == s]:
                return {'kind': 'melody-note-not-at-onset-event', 'note': [s, e, p]}
        if not io[2]:
            return {'kind': 'melody-notes-wrong-instrument'}
        return None
    if op == 'chords_e2e':
        r0, r1 = io[1]
        for r in (r0, r1):
            if not (r['attained'] >= r['best'] - 1e-9 * max(1.0, abs(r['best']))):
                return {'kind': 'chords-e2e-path-not-maximum-likelihood', 'attained': r['attained'], 'best': r['best']}
            ts = [t for t, _ in r['anns']]
            if ts != sorted(ts) or len(set(ts)) != len(ts):
                return {'kind': 'chords-e2e-annotation-times-not-increasing'}
            if any(x[1] == y[1] for x, y in zip(r['anns'], r['anns'][1:])):
                return {'kind': 'chords-e2e-consecutive-symbols-equal'}
            if len(r['anns']) > r['frames']:
                return {'kind': 'chords-e2e-more-annotations-than-frames'}
            if any(t < 0 or t > r['total'] for t in ts):
                return {'kind': 'chords-e2e-annotation-outside-sequence'}
        if abs(r0['attained'] - r1['attained']) > 1e-6 * max(1.0, abs(r0['attained'])):
            return {'kind': 'chords-e2e-likelihood-not-transposition-invariant', 'a': r0['attained'], 'b': r1['attained']}
        return None
    if op == 'melody_e2e':
        r0, r1 = io[1]
        for r in (r0, r1):
            if not (r['attained'] >= r['best'] - 1e-9 * max(1.0, abs(r['best']))):
                return {'kind': 'melody-e2e-path-not-maximum-likelihood', 'attained': r['attained'], 'best': r['best']}
            prev_end = 0.0
            for s, e, p in r['notes']:
                if not (prev_end <= s <= e <= r['total'] + 1e-12):
                    return {'kind': 'melody-e2e-notes-overlap-or-out-of-range', 'note': [s, e, p]}
                prev_end = e
                if (p, s) not in r['orig']:
                    return {'kind': 'melody-e2e-note-not-at-real-onset', 'note': [s, e, p]}
        if abs(r0['attained'] - r1['attained']) > 1e-6 * max(1.0, abs(r0['attained'])):
            return {'kind': 'melody-e2e-likelihood-not-transposition-invariant', 'a': r0['attained'], 'b': r1['attained']}
        return None
    return None


def nontrivial(case, io):
    op, a = case['op'], case['input']
    if io[0] != 'OK':
        return False
    if op in ('melody_vit', 'chord_vit'):
        return len(a['frames']) >= 2
    if op in ('chord_write', 'melody_write'):
        return len(io[1]) >= 1
    return True


META = {
    'level_text': ('Theorem (any number of states and frames, any score type with a total order and left-monotone addition, '
                   'instantiated at integers with -inf): the Viterbi recursion both inference functions implement returns a '
                   'valid path whose score, accumulated in the code\'s own left-nested order, is >= that of every path of the '
                   'same length; first-index argmax tie-breaking is part of the model. Theorems for the writer loops: chord '
                   'annotations are a subsequence of the frame list (at most one per frame, in order, on frame boundaries), '
                   'consecutive symbols differ, the chord in force at every frame is the inferred one; melody notes are ordered, '
                   'non-overlapping, non-empty, inside the sequence and start at onset events of their own pitch. Tied to the '
                   'code by running the real _melody_viterbi/_key_chord_viterbi on integer matrices with ties and -inf and the '
                   'real infer_* writer loops on chosen paths.'),
    'level_note': ('PARTIAL: the numpy code that builds likelihood and transition matrices (log, dot, norm, tiling) is not '
                   'modelled; end-to-end optimality, transposition invariance and "melody notes start at real onsets" are checked '
                   'on the implementation by an independent DP over the captured matrices (a test, not a theorem). Float optimality '
                   'rests on monotonicity of IEEE addition (hypothesis of the generic theorem; proved for the integer instances only). '
                   'Chord path equality is compared only when the optimum is unique (the code adds -log 12).'),
}
