"""C17 — event sequences keep length, step range and indexing consistent under any edit history.

A case is one edit history applied to one freshly built EventSequence object.  The
implementation side applies the ops one at a time to the real object and records, after every
op, what `len()`, iteration, indexing, `start_step`, `end_step`, `steps` (and `num_steps`)
report; the model side (coq/Run/C17.v) returns the same trace from the Gallina state machines in
coq/Model/Events.v and coq/Model/EventsPoly.v.  The oracle evaluates the statement of the
property on the implementation's trace.
"""
import copy
import itertools

from vt import coqgen as G

ID = 'C17'
USE_VM = False
EXHAUSTIVE = {'thorough': True}

CLS = {1: 'SimpleEventSequence', 2: 'Melody', 3: 'DrumTrack', 4: 'ChordProgression', 5: 'LeadSheet',
       6: 'PianorollSequence', 7: 'Performance'}
NO_EVENT, NOTE_OFF = -2, -1           # constants.MELODY_NO_EVENT, MELODY_NOTE_OFF (checked in gen_coq)
MEL_LO, MEL_HI = -2, 127
# opcodes shared with coq/Run/C17.v
APPEND, SETLEN, SLICE, INCRES, DEEPCOPY, REINIT, RESET, TRUNCATE = 1, 2, 3, 4, 5, 6, 7, 8
NOT_A_SET = -7      # drum event wire marker: a list instead of a frozenset
NOT_AN_EVENT = -7   # performance event type marker: append a bare tuple instead of a PerformanceEvent

RULE = ('one case = one edit history (append / set_length from either end / slice / increase_resolution / deepcopy / '
        'truncate / re-initialisation / _reset) applied to one of the seven EventSequence classes, observed after every '
        'op; every constructor parameter is drawn at several non-default values independently; quick = seeded random histories of 24 ops per class (classes interleaved) plus a fixed corpus of boundary histories; thorough = ALL '
        'histories of length 5 over a 9-10 op alphabet per class from a non-empty object (every shorter history is a '
        'prefix and is observed as such) plus 10x the random ones; non-trivial = the history reaches at least 3 different '
        'lengths with at least one non-empty state; distinct by canonical input')
ASSUMPTIONS = [
    'the observation schedule is part of a history (input.obs, default: observe after every op): after an unobserved '
    'op no read-only observer is called on any object and only the outcome is compared; the last op is always '
    'observed in full; relational oracle clauses apply where the previous state was observed',
    'the expected outcome of every op (success / ValueError / MelodyChordsMismatchError / NotImplementedError) and the '
    'reported resolution, max_shift_steps, program, is_drum, steps_per_second|quarter are derived by the oracle from '
    'the REQUESTED arguments; wire conventions: a drum event starting with -7 is a Python list instead of a frozenset, a '
    'performance event of type -7 is a bare tuple (both must be rejected; the model rejects them as out-of-range values), '
    'a one-sided LeadSheet(melody, None) call is sent to the model as a pair that differs in start_step',
    'the original of every deepcopy / slice and a second object built from the same Python list on every '
    're-initialisation stay alive (the last 3 of them) and are re-observed after every later op; the model side of that '
    'observation is empty by construction (Gallina values are immutable), a change is the oracle failure '
    'copy-shares-state-with-original',
    'set_length(n) is claimed for n >= 0, increase_resolution(k) for k >= 1, Performance for max_shift_steps >= 1, slices '
    'for unit step; a history is judged by the oracle up to its first op outside these (the model is still compared on '
    'the whole history)',
    'ValueError from Melody/DrumTrack/PerformanceEvent validation, MelodyChordsMismatchError from an explicitly '
    'mismatched LeadSheet constructor call and NotImplementedError from set_length(from_left=True) on '
    'PianorollSequence/Performance are accepted outcomes that must leave the object unchanged',
    'chord figures are opaque to this property: the harness numbers a fixed list of figures, NO_CHORD is number 0',
    'deepcopy of PianorollSequence/Performance is Python\'s generic deep copy (identity in the model)',
    'NotePerformance (whose set_length is a documented no-op stub) is outside the property\'s class list',
]
TRUSTED = ['harness/vt/props/c17.py: object construction, op application and observation of the real objects']


def _chords():
    from note_seq import constants
    return [constants.NO_CHORD, 'C', 'Am', 'G7', 'F#m7b5', 'Bb']


# ---------------------------------------------------------------- regenerated constants
def gen_coq():
    from note_seq import constants, events_lib, melodies_lib, drums_lib, performance_lib, lead_sheets_lib
    PE = performance_lib.PerformanceEvent
    s = G.HEADER
    s += G.defz('DEFAULT_STEPS_PER_BAR', events_lib.DEFAULT_STEPS_PER_BAR)
    s += G.defz('DEFAULT_STEPS_PER_QUARTER', events_lib.DEFAULT_STEPS_PER_QUARTER)
    if (lead_sheets_lib.DEFAULT_STEPS_PER_BAR, lead_sheets_lib.DEFAULT_STEPS_PER_QUARTER) != \
            (events_lib.DEFAULT_STEPS_PER_BAR, events_lib.DEFAULT_STEPS_PER_QUARTER):
        raise ValueError('lead_sheets_lib and events_lib disagree on the default resolution')
    s += G.defz('MIN_MELODY_EVENT', melodies_lib.MIN_MELODY_EVENT)
    s += G.defz('MAX_MELODY_EVENT', melodies_lib.MAX_MELODY_EVENT)
    s += G.defz('MELODY_NO_EVENT', melodies_lib.MELODY_NO_EVENT)
    s += G.defz('MELODY_NOTE_OFF', melodies_lib.MELODY_NOTE_OFF)
    if (melodies_lib.MELODY_NO_EVENT, melodies_lib.MELODY_NOTE_OFF) != (NO_EVENT, NOTE_OFF):
        raise ValueError('the oracle\'s NO_EVENT / NOTE_OFF differ from melodies_lib')
    s += G.defz('MIN_MIDI_PITCH', drums_lib.MIN_MIDI_PITCH)
    s += G.defz('MAX_MIDI_PITCH', drums_lib.MAX_MIDI_PITCH)
    s += G.defz('PERF_MIN_PITCH', performance_lib.MIN_MIDI_PITCH)
    s += G.defz('PERF_MAX_PITCH', performance_lib.MAX_MIDI_PITCH)
    s += G.defz('MAX_NUM_VELOCITY_BINS', performance_lib.MAX_NUM_VELOCITY_BINS)
    s += G.defz('EV_NOTE_ON', PE.NOTE_ON)
    s += G.defz('EV_NOTE_OFF', PE.NOTE_OFF)
    s += G.defz('EV_TIME_SHIFT', PE.TIME_SHIFT)
    s += G.defz('EV_VELOCITY', PE.VELOCITY)
    s += G.defz('EV_DURATION', PE.DURATION)
    if len({PE.NOTE_ON, PE.NOTE_OFF, PE.TIME_SHIFT, PE.VELOCITY, PE.DURATION}) != 5:
        raise ValueError('PerformanceEvent type codes are not distinct')
    s += '(* the harness numbers chord figures; constants.NO_CHORD (%r) is number 0 *)\n' % constants.NO_CHORD
    s += G.defz('NO_CHORD_CODE', _chords().index(constants.NO_CHORD))
    return s


# ---------------------------------------------------------------- real objects
_RATES = [100, 1, 31, 4, 12]


def _perf_rate(m, kind, rate):
    """steps_per_second (kind 0) / steps_per_quarter (kind 1) requested for selector `rate`."""
    if kind:
        cands = [d for d in (1, 2, 3, 4, 12) if m % d == 0]
        return cands[rate % len(cands)]
    return _RATES[rate % len(_RATES)]


def _perf(start, m, kind, nvb=0, rate=0, program=-1, is_drum=-1):
    """Performance / MetricPerformance with EVERY constructor parameter requested explicitly
    (program / is_drum: -1 = None)."""
    from note_seq import performance_lib as pl
    prog = None if program < 0 else program
    drum = None if is_drum < 0 else bool(is_drum)
    r = _perf_rate(m, kind, rate)
    if kind:
        return pl.MetricPerformance(steps_per_quarter=r, start_step=start, num_velocity_bins=nvb,
                                    max_shift_quarters=m // r, program=prog, is_drum=drum)
    return pl.Performance(steps_per_second=r, start_step=start, num_velocity_bins=nvb, max_shift_steps=m,
                          program=prog, is_drum=drum)


def _build(cls, init):
    from note_seq import events_lib, melodies_lib, drums_lib, chords_lib, lead_sheets_lib, pianoroll_lib
    if cls == 1:
        return events_lib.SimpleEventSequence(pad_event=init[0])
    if cls == 2:
        return melodies_lib.Melody()
    if cls == 3:
        return drums_lib.DrumTrack()
    if cls == 4:
        return chords_lib.ChordProgression()
    if cls == 5:
        return lead_sheets_lib.LeadSheet()
    if cls == 6:
        return pianoroll_lib.PianorollSequence(steps_per_quarter=(init[3] if len(init) > 3 else 4),
                                               start_step=init[0], min_pitch=init[1], max_pitch=init[2])
    if cls == 7:
        return _perf(*init)
    raise ValueError(cls)


def _dec(cls, x, ch):
    if cls in (1, 2):
        return x
    if cls == 3:
        # wire convention: a leading NOT_A_SET marks "a Python list, not a frozenset" (DrumTrack must reject it;
        # the model rejects it as well because NOT_A_SET is not a MIDI pitch)
        return list(x[1:]) if x[:1] == [NOT_A_SET] else frozenset(x)
    if cls == 4:
        return ch[x]
    if cls == 6:
        return tuple(x)
    raise ValueError(cls)


def _int(x):
    if isinstance(x, bool) or not isinstance(x, int):
        raise TypeError('not an int: %r' % (x,))
    return int(x)


def _enc(cls, e, ch):
    if cls in (1, 2):
        return _int(e)
    if cls == 3:
        return sorted(_int(p) for p in e)
    if cls == 4:
        return ch.index(e)
    if cls == 5:
        m, c = e
        return [_int(m), ch.index(c)]
    if cls == 6:
        return [_int(p) for p in e]
    if cls == 7:
        return [_int(e.event_type), _int(e.event_value)]
    raise ValueError(cls)


def _sl(a, b):
    return slice(a[0] if a else None, b[0] if b else None)


def _apply(cls, obj, op, ch, sibs=None):
    """Apply one op to the real object; returns the object to continue with (raises on error).

    On a re-initialisation from an event list a SECOND object is built from the very same Python list and
    appended to `sibs`: the two must not alias each other (or the caller's list)."""
    from note_seq import events_lib, melodies_lib, drums_lib, chords_lib, lead_sheets_lib, pianoroll_lib
    from note_seq import performance_lib as pl
    code = op[0]
    if cls in (1, 2, 3, 4):
        if code == APPEND:
            obj.append(_dec(cls, op[1], ch))
        elif code == SETLEN:
            obj.set_length(op[1], from_left=bool(op[2]))
        elif code == SLICE:
            new = obj[_sl(op[1], op[2])]
            if type(new) is not type(obj):
                raise TypeError('slice-returned-' + type(new).__name__)
            return new
        elif code == INCRES:
            if len(op) > 2 and op[2]:          # (INCRES k (f)): public fill_event of the base method
                obj.increase_resolution(op[1], fill_event=_dec(cls, op[2][0], ch))
            else:
                obj.increase_resolution(op[1])
        elif code == DEEPCOPY:
            return copy.deepcopy(obj)
        elif code == REINIT:
            p, es, s0, sb, sq = op[1:6]
            evs = [_dec(cls, e, ch) for e in es[1]] if es else None
            kw = dict(events=evs, start_step=s0, steps_per_bar=sb, steps_per_quarter=sq)
            if cls == 1:
                mk = lambda: events_lib.SimpleEventSequence(pad_event=p, **kw)
            else:
                if p % 2:                  # the subclasses must ignore a caller's pad_event
                    kw['pad_event'] = p
                mk = lambda: {2: melodies_lib.Melody, 3: drums_lib.DrumTrack, 4: chords_lib.ChordProgression}[cls](**kw)
            new = mk()
            if evs is not None:
                if sibs is not None:
                    sibs.append(mk())      # same `evs` list object
                # the caller goes on using its list: neither object may notice
                evs.append({1: 99, 2: 60, 3: frozenset([36]), 4: ch[1]}[cls])
            return new
        elif code == RESET:
            obj._reset()
        else:
            raise ValueError(op)
        return obj
    if cls == 5:
        if code == APPEND:
            obj.append((op[1], ch[op[2]]))
        elif code == SETLEN:
            obj.set_length(op[1])
        elif code == SLICE:
            new = obj[_sl(op[1], op[2])]
            if not isinstance(new, lead_sheets_lib.LeadSheet):
                raise TypeError('slice-returned-' + type(new).__name__)
            return new
        elif code == INCRES:
            obj.increase_resolution(op[1])
        elif code == DEEPCOPY:
            return copy.deepcopy(obj)
        elif code == REINIT:
            mes, ms, msb, msq, ces, cs, csb, csq = op[1:9]
            one_sided = op[9] if len(op) > 9 else 0      # 1: chords=None, 2: melody=None
            mes = list(mes)
            cev = [ch[x] for x in ces]

            def mk():
                m = melodies_lib.Melody(events=mes, start_step=ms, steps_per_bar=msb, steps_per_quarter=msq)
                c = chords_lib.ChordProgression(events=cev, start_step=cs, steps_per_bar=csb, steps_per_quarter=csq)
                return lead_sheets_lib.LeadSheet(None if one_sided == 2 else m, None if one_sided == 1 else c)
            new = mk()
            if sibs is not None:
                sibs.append(mk())          # same `mes` / `cev` list objects
            mes.append(60)
            cev.append(ch[1])
            return new
        elif code == RESET:
            obj._reset()
        else:
            raise ValueError(op)
        return obj
    if cls == 6:
        if code == APPEND:
            obj.append(tuple(op[1]), shift_range=bool(op[2]))
        elif code == SETLEN:
            obj.set_length(op[1], from_left=bool(op[2]))
        elif code == REINIT:
            es, s0, mn, mx, sh = op[1:6]
            evs = [tuple(e) for e in es]
            new = pianoroll_lib.PianorollSequence(events_list=(evs or None) if s0 % 2 else evs,
                                                  steps_per_quarter=(op[6] if len(op) > 6 else 4),
                                                  start_step=s0, min_pitch=mn, max_pitch=mx, shift_range=bool(sh))
            evs.append((60,))
            return new
        elif code == DEEPCOPY:
            return copy.deepcopy(obj)
        else:
            raise ValueError(op)
        return obj
    if cls == 7:
        if code == APPEND:
            if op[1] == NOT_AN_EVENT:
                obj.append((op[2],))       # not a PerformanceEvent: documented ValueError
            else:
                obj.append(pl.PerformanceEvent(op[1], op[2]))
        elif code == SETLEN:
            obj.set_length(op[1], from_left=bool(op[2]))
        elif code == TRUNCATE:
            obj.truncate(op[1])
        elif code == REINIT:
            return _perf(*op[1:])
        elif code == DEEPCOPY:
            return copy.deepcopy(obj)
        else:
            raise ValueError(op)
        return obj
    raise ValueError(cls)


_EXC_CODE = {'ValueError': 1, 'MelodyChordsMismatchError': 2, 'NotImplementedError': 3, 'AssertionError': 4}


def _t(f):
    try:
        return f()
    except Exception as e:  # noqa
        return ['EXC', type(e).__name__]


def _is_exc(x):
    return isinstance(x, list) and len(x) == 2 and x[0] == 'EXC'


def _probe(cls, obj, n, ch):
    out = []
    for i in range(-n - 1, n + 1):
        try:
            out.append([_enc(cls, obj[i], ch)])
        except IndexError:
            out.append([])
    return out


def _observe(cls, obj, outcome, ch):
    n = _t(lambda: _int(len(obj)))
    ob = [outcome,
          _t(lambda: [_enc(cls, e, ch) for e in obj]),
          _t(lambda: _int(obj.start_step)),
          _t(lambda: _int(obj.end_step)),
          n,
          _t(lambda: _steps(obj)),
          _t(lambda: _probe(cls, obj, n, ch)) if isinstance(n, int) else ['EXC', 'len']]
    if cls in (1, 2, 3, 4, 5):
        ob.append(_t(lambda: [_int(obj.steps_per_bar), _int(obj.steps_per_quarter)]))
    if cls == 5:
        ob.append(_t(lambda: [_int(e) for e in obj.melody]))
        ob.append(_t(lambda: [ch.index(c) for c in obj.chords]))
        ob.append(_t(lambda: [_int(obj.chords.start_step), _int(obj.chords.end_step)]))
    if cls in (6, 7):
        ob.append(_t(lambda: _int(obj.num_steps)))
    if cls == 6:
        ob.append(_t(lambda: [_int(obj.steps_per_quarter)]))
    if cls == 7:
        ob.append(_t(lambda: _perf_cfg(obj)))
    return ob


def _steps(obj):
    st = obj.steps
    out = [_int(x) for x in st]
    st.append(-12345)                      # the caller owns the returned list
    if [_int(x) for x in obj.steps] != out:
        raise RuntimeError('steps-buffer-shared')
    return out


def _perf_cfg(obj):
    rate = obj.steps_per_quarter if hasattr(obj, 'steps_per_quarter') else obj.steps_per_second
    return [_int(obj.max_shift_steps), -1 if obj.program is None else _int(obj.program),
            -1 if obj.is_drum is None else int(bool(obj.is_drum)), _int(rate),
            1 if hasattr(obj, 'steps_per_quarter') else 0]


RETAIN = 3          # how many earlier objects (originals of copies / slices, siblings) stay under observation
_SNAP_FIELDS = ['iter', 'start_step', 'end_step', 'len', 'steps', 'melody', 'chords']


def _snap(cls, obj, ch):
    """What must not change on an object that no later op is applied to."""
    out = [_t(lambda: [_enc(cls, e, ch) for e in obj]),
           _t(lambda: _int(obj.start_step)),
           _t(lambda: _int(obj.end_step)),
           _t(lambda: _int(len(obj))),
           _t(lambda: [_int(x) for x in obj.steps])]
    if cls == 5:
        out.append(_t(lambda: [_int(e) for e in obj.melody]))
        out.append(_t(lambda: [ch.index(c) for c in obj.chords]))
    return out


def _schedule(inp):
    """inp['obs'][i] = 1 iff the read-only observers are called after op i (default: after every op).  The last
    op is always observed."""
    n = len(inp['ops'])
    sched = [1] * n
    for i, b in enumerate(inp.get('obs') or []):
        if i < n:
            sched[i] = 1 if b else 0
    if n:
        sched[-1] = 1
    return sched


def impl(case):
    inp = case['input']
    cls = inp['cls']
    ch = _chords()
    obj = _build(cls, inp['init'])
    trace = []
    retained = []        # [object, snapshot, step it was set aside at, opcode]
    sched = _schedule(inp)
    for i, op in enumerate(inp['ops']):
        old = obj
        sibs = []
        try:
            obj = _apply(cls, obj, op, ch, sibs)
            outcome = 0
        except Exception as e:  # noqa
            name = type(e).__name__
            outcome = _EXC_CODE.get(name, ['EXC', name if not str(e).startswith('slice-returned-') else str(e)])
        if not sched[i]:
            # not an observation point of this history: NO read-only observer (len, iteration, indexing,
            # start_step, end_step, steps, num_steps) is called on any object, only the outcome is recorded
            trace.append([outcome])
            continue
        if outcome == 0:
            # the original of a copy / slice stays alive, and so does a second object built from the same list:
            # nothing is applied to them any more, so nothing about them may change
            if op[0] in (DEEPCOPY, SLICE) and obj is not old:
                retained.append([old, _snap(cls, old, ch), i, op[0]])
            for sb in sibs:
                retained.append([sb, _snap(cls, sb, ch), i, op[0]])
            retained = retained[-RETAIN:]
        ob = _observe(cls, obj, outcome, ch)
        moved = []
        for r, snap, at, code in retained:
            now = _snap(cls, r, ch)
            if now != snap:
                moved.append([at, code, [k for k in range(len(snap)) if now[k] != snap[k]][0]])
        ob.append(moved)
        trace.append(ob)
    return trace


# ---------------------------------------------------------------- model side
def model_input(case):
    inp = case['input']
    ops = inp['ops']
    if inp['cls'] == 5:
        # LeadSheet(melody, None) / LeadSheet(None, chords): MelodyChordsMismatchError.  The model's constructor
        # always gets both parts; a one-sided call is sent as a pair that differs in start_step.
        ops = [op[:6] + [op[2] + 1] + op[7:9] if op[0] == REINIT and len(op) > 9 and op[9] else op for op in ops]
    return [inp['cls'], inp['init'], ops]


def model_output(case, m):
    # Gallina values are immutable: an object no op is applied to cannot change.  The last field of every
    # observation (retained objects that changed) is therefore empty on the model side by construction.
    inp = case['input']
    cls = inp['cls']
    out = []
    cfg = _requested_cfg(cls, inp['init'])
    sched = _schedule(inp)
    for i, (op, ob) in enumerate(zip(inp['ops'], m)):
        if op[0] == REINIT and ob[0] == 0:
            cfg = _requested_cfg(cls, op[2:5] + op[6:7] if cls == 6 else op[1:])
        out.append(ob + ([cfg] if cfg is not None else []) + [[]] if sched[i] else [ob[0]])
    return out


def _requested_cfg(cls, a):
    """Pass-through constructor parameters as the public properties must report them."""
    if cls == 6:        # (start minp maxp [spq])
        return [a[3] if len(a) > 3 else 4]
    if cls == 7:        # (start max_shift kind [nvb rate program is_drum])
        a = list(a) + [0, 0, -1, -1][max(0, len(a) - 3):]
        return [a[1], a[5], a[6], _perf_rate(a[1], a[2], a[4]), int(bool(a[2]))]
    return None


# ---------------------------------------------------------------- the property on the implementation
def _in_claim(cls, op):
    code = op[0]
    if code == SETLEN:
        return op[1] >= 0
    if code == INCRES:
        return op[1] >= 1
    if code == REINIT and cls == 7:
        return op[2] >= 1
    return True


def _mel_ok(e):
    return MEL_LO <= e <= MEL_HI


def _drum_ok(ev):
    return ev[:1] != [NOT_A_SET] and all(0 <= p <= 127 for p in ev)


def _perf_ok(t, v):
    """PerformanceEvent's documented value ranges."""
    if t in (1, 2):
        return 0 <= v <= 127
    if t == 3:
        return v >= 0
    if t == 4:
        return 1 <= v <= 127
    if t == 5:
        return v >= 1
    return False


def _expected_outcome(cls, op):
    """0 = must succeed, 1 = ValueError, 2 = MelodyChordsMismatchError, 3 = NotImplementedError: what the
    documented contracts say for the REQUESTED arguments (ops inside the claim only)."""
    code = op[0]
    if code == APPEND:
        if cls == 2:
            return 0 if _mel_ok(op[1]) else 1
        if cls == 3:
            return 0 if _drum_ok(op[1]) else 1
        if cls == 5:
            return 0 if _mel_ok(op[1]) else 1
        if cls == 7:
            return 0 if _perf_ok(op[1], op[2]) else 1
        return 0
    if code == SETLEN and cls in (6, 7) and op[2]:
        return 3
    if code == REINIT:
        if cls == 2 and op[2]:
            return 0 if all(_mel_ok(e) for e in op[2][1]) else 1
        if cls == 3 and op[2]:
            return 0 if all(_drum_ok(e) for e in op[2][1]) else 1
        if cls == 5:
            mes, ms, msb, msq, ces, cs, csb, csq = op[1:9]
            if not all(_mel_ok(e) for e in mes):
                return 1
            if (len(op) > 9 and op[9]) or len(mes) != len(ces) or (ms, msb, msq) != (cs, csb, csq):
                return 2
            return 0
        if cls == 7:
            return 1 if len(op) > 4 and op[4] > 127 else 0
    return 0


def _mel_same(new, old):
    """Melody construction rewrites NOTE_OFF before the first note to NO_EVENT."""
    return new == old or (new == NO_EVENT and old == NOTE_OFF)


def _same(cls, new, old):
    if cls == 2:
        return _mel_same(new, old)
    if cls == 5:
        return _mel_same(new[0], old[0]) and new[1] == old[1]
    return new == old


def _all_same(cls, news, olds):
    return len(news) == len(olds) and all(_same(cls, a, b) for a, b in zip(news, olds))


def _sustained(mel):
    for e in reversed(mel):
        if e == NOTE_OFF:
            return False
        if e != NO_EVENT:
            return True
    return False


def _check_exc(ob):
    names = ['outcome', 'iter', 'start_step', 'end_step', 'len', 'steps', 'index', 'x1', 'x2', 'x3', 'x4', 'x5']
    for k, v in enumerate(ob[1:], 1):
        if _is_exc(v):
            return {'kind': 'observation-raises', 'what': names[k], 'exc': v[1]}
    return None


def _check_state(cls, ob):
    _, evs, start, end, n, steps, probe = ob[:7]
    if n != len(evs):
        return {'kind': 'len-iter-disagree', 'len': n, 'iterated': len(evs)}
    want = [[]] + [[e] for e in evs] + [[e] for e in evs] + [[]]
    if probe != want:
        return {'kind': 'index-iter-disagree'}
    if cls != 7:
        if end - start != n:
            return {'kind': 'length-range-mismatch', 'len': n, 'start': start, 'end': end}
        if steps != list(range(start, end)):
            return {'kind': 'steps-mismatch'}
    else:
        shifts = [v if t == 3 else 0 for t, v in evs]
        if end - start != sum(shifts) or ob[7] != sum(shifts):
            return {'kind': 'perf-range-not-sum-of-shifts', 'start': start, 'end': end, 'sum': sum(shifts)}
        if len(steps) != n:
            return {'kind': 'steps-not-one-per-event', 'len': n, 'steps': len(steps)}
        acc = start
        for j in range(n):
            if steps[j] != acc:
                return {'kind': 'steps-mismatch', 'at': j}
            acc += shifts[j]
    if cls == 6 and ob[7] != n:
        return {'kind': 'length-range-mismatch', 'len': n, 'num_steps': ob[7]}
    if cls == 2 and not all(MEL_LO <= e <= MEL_HI for e in evs):
        return {'kind': 'melody-event-out-of-range'}
    if cls == 5:
        mel, chd, crange = ob[8], ob[9], ob[10]
        if not all(MEL_LO <= e <= MEL_HI for e in mel):
            return {'kind': 'melody-event-out-of-range'}
        if len(mel) != len(chd) or crange != [start, end] or evs != [[m, c] for m, c in zip(mel, chd)]:
            return {'kind': 'leadsheet-out-of-lockstep'}
    return None


def _check_op(cls, op, prev, ob, pad):
    """Relational part of the property: what the op must have done to the previous state."""
    code = op[0]
    pe, ps, pend, pn = prev[1], prev[2], prev[3], prev[4]
    evs, start, end, n = ob[1], ob[2], ob[3], ob[4]
    if code == SETLEN:
        want = op[1]
        fl = bool(op[2]) if len(op) > 2 else False
        info = {'n': want, 'from_left': fl, 'old_len': pn}
        if end - start != want or (cls != 7 and n != want):
            return dict(kind='set-length-not-exact', got_len=n, got_range=end - start, **info)
        if cls == 7:
            if start != ps:
                return dict(kind='set-length-moved-anchor', **info)
            old_steps = pend - ps
            if want > old_steps:
                # all events but a possibly extended last time shift are kept
                keep = pe[:-1] if pe and pe[-1][0] == 3 else pe
                if evs[:len(keep)] != keep or any(t != 3 for t, _ in evs[len(keep):]):
                    return dict(kind='set-length-lost-retained-events', **info)
            elif want < old_steps:
                body, last = evs[:-1], evs[-1:]
                if body != pe[:len(body)]:
                    return dict(kind='set-length-lost-retained-events', **info)
                if last and last[0] != pe[len(body)] and not (
                        last[0][0] == 3 and pe[len(body)][0] == 3 and 0 < last[0][1] < pe[len(body)][1]):
                    return dict(kind='set-length-lost-retained-events', **info)
            elif evs != pe:
                return dict(kind='set-length-lost-retained-events', **info)
            return None
        keep = min(want, pn)
        if not fl:
            if start != ps:
                return dict(kind='set-length-moved-anchor', **info)
            if evs[:keep] != pe[:keep]:
                return dict(kind='set-length-lost-retained-events', **info)
            new = evs[keep:]
        else:
            if end != pend:
                return dict(kind='set-length-moved-anchor', **info)
            if keep and evs[-keep:] != pe[-keep:]:
                return dict(kind='set-length-lost-retained-events', **info)
            new = evs[:n - keep]
        padv = {2: NO_EVENT, 3: [], 4: 0, 5: [NO_EVENT, 0], 6: []}.get(cls, pad)
        if cls in (2, 5) and not fl and want > pn:
            mel = pe if cls == 2 else [m for m, _ in pe]
            first = NOTE_OFF if _sustained(mel) else NO_EVENT
            if (new[0] if cls == 2 else new[0][0]) != first:
                return dict(kind='melody-padding-does-not-end-note', **info)
            new = new[1:]
        if padv is not None and any(e != padv for e in new):
            return dict(kind='set-length-padding-wrong', **info)
        return None
    if code == SLICE:
        a, b = op[1], op[2]
        info = {'a': a[0] if a else None, 'b': b[0] if b else None, 'old_len': pn,
                'negative_start': bool(a) and a[0] < 0}
        expect = pe[_sl(a, b)]
        if not _all_same(cls, evs, expect):
            return dict(kind='slice-elements-wrong', **info)
        for j in range(n):
            k = start + j - ps
            if not (0 <= k < pn) or not _same(cls, evs[j], pe[k]):
                return dict(kind='slice-offset-wrong', new_start=start, old_start=ps, **info)
        # (an empty slice contains no element: the property does not constrain its offset)
        return None
    if code == DEEPCOPY:
        if (start, end, n) != (ps, pend, pn) or not _all_same(cls, evs, pe):
            return {'kind': 'deepcopy-differs'}
        return None
    if code == INCRES:
        k = op[1]
        if n != k * pn or start != k * ps or end != k * pend or evs[::k] != pe:
            return {'kind': 'increase-resolution-wrong', 'k': k}
        return None
    if code == APPEND:
        if n != pn + 1 or evs[:-1] != pe or start != ps:
            return {'kind': 'append-wrong'}
        if cls in (1, 2, 3, 4) and evs[-1] != (sorted(set(op[1])) if cls == 3 else op[1]):
            return {'kind': 'append-wrong'}
        if cls == 5 and evs[-1] != [op[1], op[2]]:
            return {'kind': 'append-wrong'}
        if cls == 7 and evs[-1] != [op[1], op[2]]:
            return {'kind': 'append-wrong'}
        return None
    if code == TRUNCATE:
        if evs != pe[:op[1]] or start != ps:
            return {'kind': 'truncate-wrong', 'k': op[1]}
        return None
    if code == REINIT:
        if cls in (1, 2, 3, 4):
            es = op[2][1] if op[2] else []
            if cls == 3:
                es = [sorted(set(e)) for e in es]
            if start != op[3] or not _all_same(cls, evs, es):
                return {'kind': 'reinit-wrong'}
        elif cls == 5:
            if start != op[2] or not _all_same(cls, evs, [[m, c] for m, c in zip(op[1], op[5])]):
                return {'kind': 'reinit-wrong'}
        elif cls == 6:
            if start != op[2] or n != len(op[1]):
                return {'kind': 'reinit-wrong'}
        elif cls == 7:
            if start != op[1] or n != 0:
                return {'kind': 'reinit-wrong'}
        return None
    if code == RESET:
        if (start, end, n) != (0, 0, 0):
            return {'kind': 'reset-wrong'}
    return None


def _shifted(e, rng6):
    return [p - rng6[0] for p in e if rng6[0] <= p <= rng6[1]]


def _check_cfg(cls, op, prev, ob, rng6):
    """Resolution bookkeeping (classes 1-5) and pitch-range handling (pianoroll), from the requested values."""
    code = op[0]
    if cls in (1, 2, 3, 4, 5):
        res, pres = ob[7], prev[7]
        if code == REINIT:
            want = [op[4], op[5]] if cls != 5 else [op[3], op[4]]
        elif code == INCRES:
            want = [pres[0] * op[1], pres[1] * op[1]]
        elif code == RESET:
            want = [16, 4]
        else:
            want = pres
        if res != want:
            return {'kind': 'resolution-wrong', 'got': res, 'want': want}
        if code == INCRES and cls != 5:
            k = op[1]
            fill = op[2][0] if len(op) > 2 and op[2] else {2: NO_EVENT, 3: []}.get(cls)
            pe, evs = prev[1], ob[1]
            want_evs = []
            for e in pe:
                want_evs += [e] * k if fill is None else [e] + [fill] * (k - 1)
            if evs != want_evs:
                return {'kind': 'increase-resolution-wrong', 'k': k}
    if cls == 6:
        if code == APPEND and ob[1][-1:] != [_shifted(op[1], rng6) if op[2] else op[1]]:
            return {'kind': 'append-wrong', 'shift_range': bool(op[2]), 'range': rng6}
        if code == REINIT:
            new = [op[3], op[4]]
            if ob[1] != [_shifted(e, new) if op[5] else e for e in op[1]]:
                return {'kind': 'reinit-wrong', 'shift_range': bool(op[5]), 'range': new}
    return None


def oracle(case, io):
    inp = case['input']
    cls, ops = inp['cls'], inp['ops']
    if not isinstance(io, list) or len(io) != len(ops) or (io and io[0] == 'HARNESS-EXC'):
        return {'kind': 'harness-exception', 'detail': str(io)[:200]}
    ch = _chords()
    prev = _observe(cls, _build(cls, inp['init']), 0, ch) + [[]]
    pad = inp['init'][0] if cls == 1 else None
    rng6 = list(inp['init'][1:3]) if cls == 6 else None      # requested (min_pitch, max_pitch)
    cfg = _requested_cfg(cls, inp['init'])
    sched = _schedule(inp)
    for i, (op, ob) in enumerate(zip(ops, io)):
        seen = bool(sched[i])
        if seen and ob[-1]:
            # an object set aside earlier (the original of a deepcopy / slice, or a second object built from the
            # same Python list) changed although no op was applied to it
            at, code, k = ob[-1][0]
            return {'kind': 'copy-shares-state-with-original', 'cls': CLS[cls], 'step': i, 'opcode': op[0],
                    'set_aside_at_step': at, 'set_aside_by_opcode': code, 'changed': _SNAP_FIELDS[k]}
        if not _in_claim(cls, op):
            return None          # the property makes no claim about the rest of this history
        where = {'cls': CLS[cls], 'step': i, 'opcode': op[0], 'observed_since': sched[:i + 1]}
        if all(sched[:i + 1]):
            del where['observed_since']
        out = ob[0]
        want = _expected_outcome(cls, op)
        if out != want:
            if out == 4:
                return dict(kind='set-length-assert-fired', **where)
            if out == 0:
                return dict(kind='invalid-input-accepted', expected=want, **where)
            if want == 0:
                return dict(kind='unexpected-exception', exc=out[1] if isinstance(out, list) else out, **where)
            return dict(kind='wrong-exception-class', expected=want,
                        exc=out[1] if isinstance(out, list) else out, **where)
        if out != 0:
            if seen and prev is not None and ob[1:] != prev[1:]:
                return dict(kind='rejected-op-changed-the-object', **where)
            if not seen:
                prev = None
            continue
        # requested configuration in force from here on (also when this step is not observed)
        if cls == 1 and op[0] == REINIT:
            newpad = op[1]
        else:
            newpad = pad
        if cls in (6, 7) and op[0] == REINIT:
            cfg = _requested_cfg(cls, op[2:5] + op[6:7] if cls == 6 else op[1:])
        if not seen:
            # nothing was read after this op: the state is unknown until the next observation point
            prev = None
            pad = newpad
            if cls == 6 and op[0] == REINIT:
                rng6 = [op[3], op[4]]
            continue
        bad = _check_exc(ob)
        if prev is not None:
            if not bad and op[0] == SETLEN and ob[4] == len(ob[1]) and (cls != 5 or len(ob[8]) == len(ob[9])):
                # name the set_length defect before the invariant it breaks
                bad = _check_op(cls, op, prev, ob, pad)
            bad = bad or _check_state(cls, ob) or _check_op(cls, op, prev, ob, pad) or \
                _check_cfg(cls, op, prev, ob, rng6)
        else:
            # first observation after unobserved edits: the state invariants (and the model, by correspondence)
            bad = bad or _check_state(cls, ob)
        if bad:
            bad.update(where)
            return bad
        pad = newpad
        if cls == 6 and op[0] == REINIT:
            rng6 = [op[3], op[4]]
        if cls in (6, 7) and ob[-2] != cfg:
            return dict(kind='constructor-parameter-not-honoured', got=ob[-2], requested=cfg, **where)
        prev = ob
    return None


def nontrivial(case, io):
    lens = set(ob[4] for ob in io if isinstance(ob, list) and len(ob) > 4 and ob[0] == 0 and isinstance(ob[4], int))
    return len(lens) >= 3


# ---------------------------------------------------------------- generators
def _opt(rng, lo, hi, p_none=0.3):
    return [] if rng.random() < p_none else [rng.randint(lo, hi)]


def _n(rng, wild, hi=12):
    if wild and rng.random() < 0.15:
        return rng.choice([-1, -3])
    return rng.choice([0, 0, 1, 2, 3, 5, 8, hi, rng.randint(0, hi)])


def _k(rng, wild):
    if wild and rng.random() < 0.3:
        return rng.choice([0, -1])
    return rng.choice([1, 2, 2, 3])


def _event(cls, rng):
    if cls == 1:
        return rng.randint(-3, 9)
    if cls == 2:
        return rng.choice([-1, -2, -2, 60, 62, 0, 127, 64]) if rng.random() < 0.93 else rng.choice([-3, 128, 200])
    if cls == 3:
        r = rng.random()
        if r < 0.02:
            return [NOT_A_SET, 36, 38]       # a list, not a frozenset
        if r < 0.06:
            return sorted(set([rng.choice([-1, 128]), 36]))
        return sorted(set(rng.choice([36, 38, 42, 0, 127, 51]) for _ in range(rng.choice([0, 0, 1, 1, 2, 3]))))
    if cls == 4:
        return rng.randint(0, 5)
    raise ValueError(cls)


def _simple_op(cls, rng, wild, budget):
    r = rng.random()
    if r < 0.30:
        return [APPEND, _event(cls, rng)]
    if r < 0.52:
        return [SETLEN, _n(rng, wild), int(rng.random() < 0.5)]
    if r < 0.70:
        return [SLICE, _opt(rng, -8, 14), _opt(rng, -8, 14)]
    if r < 0.78 and budget[0] > 0:
        budget[0] -= 1
        if cls in (1, 4) and rng.random() < 0.5:     # base-class method: explicit fill_event
            return [INCRES, _k(rng, wild), [_event(cls, rng)]]
        return [INCRES, _k(rng, wild)]
    if r < 0.86:
        return [DEEPCOPY]
    if r < 0.97:
        es = [] if rng.random() < 0.15 else [1, [_event(cls, rng) for _ in range(rng.choice([0, 1, 1, 2, 3, 4, 6]))]]
        # start_step, steps_per_bar, steps_per_quarter drawn independently of each other
        return [REINIT, rng.randint(-2, 5), es, rng.choice([0, 0, 1, 4, 16, 17, -3]),
                rng.choice([16, 3, 12, 17, 48, 1]), rng.choice([4, 1, 12, 5])]
    return [RESET]


def _ls_op(rng, wild, budget):
    r = rng.random()
    if r < 0.32:
        return [APPEND, _event(2, rng), _event(4, rng)]
    if r < 0.52:
        return [SETLEN, _n(rng, wild)]
    if r < 0.70:
        return [SLICE, _opt(rng, -8, 14), _opt(rng, -8, 14)]
    if r < 0.78 and budget[0] > 0:
        budget[0] -= 1
        return [INCRES, _k(rng, wild)]
    if r < 0.86:
        return [DEEPCOPY]
    if r < 0.97:
        k = rng.choice([0, 1, 1, 2, 3, 4, 6])
        mes = [_event(2, rng) for _ in range(k)]
        s0 = rng.choice([0, 1, 4, 16, -2])
        sq = rng.choice([1, 4, 4, 12, 5])
        sb = rng.choice([16, 3, 12, 17, 48])
        ces = [_event(4, rng) for _ in range(k)]
        cs, csb, csq = s0, sb, sq
        m = rng.random()
        if m < 0.07:
            ces = ces + [1]
        elif m < 0.10:
            ces = ces[:-1]
        elif m < 0.15:
            cs = s0 + rng.choice([1, -1])
        elif m < 0.19:
            csb = sb + 1
        elif m < 0.23:
            csq = sq + 1
        elif m < 0.27:
            return [REINIT, mes, s0, sb, sq, ces, cs, csb, csq, rng.choice([1, 2])]   # only one part given
        return [REINIT, mes, s0, sb, sq, ces, cs, csb, csq]
    return [RESET]


def _pr_event(rng):
    return [rng.choice([0, 21, 59, 60, 64, 72, 73, 108, 127]) for _ in range(rng.choice([0, 1, 1, 2, 3]))]


def _pr_op(rng, wild):
    r = rng.random()
    if r < 0.40:
        return [APPEND, _pr_event(rng), int(rng.random() < 0.5)]
    if r < 0.75:
        return [SETLEN, _n(rng, wild), int(rng.random() < 0.12)]
    if r < 0.85:
        return [DEEPCOPY]
    mn, mx = rng.choice([(0, 127), (21, 108), (60, 72), (64, 64), (60, 61), (0, 59), (73, 127)])
    return [REINIT, [_pr_event(rng) for _ in range(rng.choice([0, 1, 2, 3, 5]))], rng.choice([0, 3, 16, 7]), mn, mx,
            int(rng.random() < 0.5), rng.choice([4, 1, 12, 24])]


def _pf_event(rng, m):
    r = rng.random()
    if r < 0.05:
        return rng.choice([[0, 5], [6, 5], [1, 128], [2, -1], [3, -1], [4, 0], [4, 128], [5, 0], [1, -1], [2, 128],
                           [NOT_AN_EVENT, 3]])
    if r < 0.35:
        return [1, rng.choice([0, 60, 64, 127])]
    if r < 0.55:
        return [2, rng.choice([0, 60, 64, 127])]
    if r < 0.88:
        return [3, rng.choice([0, 1, 2, m - 1, m, m, m + 3, rng.randint(0, m + 5)]) if m > 1 else rng.choice([0, 1, 1, 4])]
    if r < 0.95:
        return [4, rng.choice([1, 64, 127])]
    return [5, rng.choice([1, 7])]


def _pf_op(rng, wild, st):
    r = rng.random()
    m = st['m']
    if r < 0.45:
        return [APPEND] + _pf_event(rng, m)
    if r < 0.78:
        return [SETLEN, _n(rng, wild, hi=rng.choice([12, 40, 3 * m + 1])), int(rng.random() < 0.1)]
    if r < 0.86:
        return [TRUNCATE, rng.choice([0, 1, 2, 3, 5, 8, -1, -2, 30])]
    if r < 0.93:
        return [DEEPCOPY]
    m = rng.choice([1, 2, 3, 4, 5, 8, 10, 12, 100])
    nvb = rng.choice([0, 0, 1, 32, 127, 127, 128, 200])
    if nvb <= 127:
        st['m'] = m                      # (a rejected constructor call leaves the old object in place)
    return [REINIT, rng.choice([0, 7, 100, -4]), m, int(rng.random() < 0.4), nvb, rng.randint(0, 4),
            rng.choice([-1, -1, 0, 17, 127]), rng.choice([-1, 0, 1])]


def _random_history(cls, rng, length):
    wild = rng.random() < 0.06
    budget = [2]
    if cls == 1:
        init = [rng.randint(-2, 3)]
    elif cls == 6:
        mn, mx = rng.choice([(0, 127), (21, 108), (60, 72), (60, 61)])
        init = [rng.choice([0, 2, 16]), mn, mx, rng.choice([4, 1, 12])]
    elif cls == 7:
        init = [rng.choice([0, 5, 100]), rng.choice([1, 2, 3, 5, 10, 12, 100]), int(rng.random() < 0.4),
                rng.choice([0, 1, 32, 127]), rng.randint(0, 4), rng.choice([-1, 0, 17]), rng.choice([-1, 0, 1])]
    else:
        init = []
    st = {'m': init[1]} if cls == 7 else None
    ops = []
    for _ in range(length):
        if ops and ops[-1][0] in (SETLEN, SLICE, DEEPCOPY, TRUNCATE, REINIT) and rng.random() < 0.08:
            ops.append(list(ops[-1]))        # the same call twice
            continue
        if cls in (1, 2, 3, 4):
            ops.append(_simple_op(cls, rng, wild, budget))
        elif cls == 5:
            ops.append(_ls_op(rng, wild, budget))
        elif cls == 6:
            ops.append(_pr_op(rng, wild))
        else:
            ops.append(_pf_op(rng, wild, st))
    return {'op': CLS[cls], 'input': {'cls': cls, 'init': init, 'ops': ops}}


def _scheduled_history(cls, rng, length):
    """A random history whose OBSERVATION SCHEDULE is random too: the read-only observers run only after a random
    subset of the ops (always after the last), so state memoised by one read and invalidated by later edits is
    seen stale.  Performances additionally get a `truncate / append back to the same number of events` episode."""
    case = _random_history(cls, rng, length)
    ops = case['input']['ops']
    p = rng.choice([0.0, 0.1, 0.25, 0.5])
    obs = [int(rng.random() < p) for _ in ops]
    if cls == 7 and rng.random() < 0.5:
        j = rng.randint(1, 4)
        i = rng.randint(0, j - 1)
        m = case['input']['init'][1]
        ep = [[APPEND] + rng.choice([[3, rng.randint(1, m + 2)], [1, 60], [2, 60]]) for _ in range(j)]
        eo = [int(rng.random() < 0.3) for _ in range(j)]
        ep += [[TRUNCATE, j], [TRUNCATE, i]]
        eo += [1, 0]
        ep += [[APPEND, 3, rng.randint(1, 2 * m + 3)] for _ in range(j - i)]
        eo += [0] * (j - i)
        tail = rng.choice([[], [[SETLEN, rng.choice([0, 3, 30, 3 * m + 1]), 0]], [[DEEPCOPY]], [[TRUNCATE, 30]]])
        ep += tail
        eo += [int(rng.random() < 0.5) for _ in tail]
        if not tail or rng.random() < 0.5:
            eo[-1] = 1
        at = rng.randint(0, len(ops))
        # keep the episode inside one object: no re-initialisation may change max_shift in between (it does not)
        ops[at:at] = ep
        obs[at:at] = eo
    obs[-1] = 1
    case['input']['obs'] = obs
    return case


def _end_only(case):
    case['input']['obs'] = [0] * (len(case['input']['ops']) - 1) + [1]
    return case


def _alphabet(cls):
    """Small op alphabets for the exhaustive sweep, and the fixed first op that makes the object non-empty."""
    common = [[SETLEN, 4, 0], [SETLEN, 1, 0], [SETLEN, 0, 1], [SETLEN, 4, 1],
              [SLICE, [-2], []], [SLICE, [1], [-1]], [INCRES, 2]]
    if cls == 1:
        return [3], [REINIT, 0, [1, [5, 6, 7]], 2, 16, 4], [[APPEND, 8], [APPEND, 9]] + common + [[DEEPCOPY]]
    if cls == 2:
        return [], [REINIT, 0, [1, [-2, 60, -2]], 2, 16, 4], [[APPEND, 62], [APPEND, -1]] + common + [[DEEPCOPY]]
    if cls == 3:
        return [], [REINIT, 0, [1, [[36], [], [38, 42]]], 2, 16, 4], [[APPEND, [36]], [APPEND, []]] + common + [[DEEPCOPY]]
    if cls == 4:
        return [], [REINIT, 0, [1, [1, 0, 2]], 2, 16, 4], [[APPEND, 3], [APPEND, 0]] + common + [[DEEPCOPY]]
    if cls == 5:
        return [], [REINIT, [-2, 60, -2], 2, 16, 4, [1, 0, 2], 2, 16, 4], \
            [[APPEND, 62, 3], [APPEND, -1, 0], [SETLEN, 4], [SETLEN, 1], [SETLEN, 0],
             [SLICE, [-2], []], [SLICE, [1], [-1]], [SLICE, [], [2]], [INCRES, 2], [DEEPCOPY]]
    if cls == 6:
        return [2, 60, 72], [REINIT, [[60], [], [64, 72]], 2, 60, 72, 1], \
            [[APPEND, [60, 64], 1], [APPEND, [59, 60, 73], 1], [APPEND, [0], 0], [SETLEN, 5, 0], [SETLEN, 2, 0],
             [SETLEN, 0, 0], [SETLEN, 3, 1], [DEEPCOPY]]
    if cls == 7:
        return [2, 3, 0], [APPEND, 1, 60], \
            [[APPEND, 3, 2], [APPEND, 3, 3], [APPEND, 3, 5], [APPEND, 2, 60], [APPEND, 3, 0], [SETLEN, 7, 0],
             [SETLEN, 4, 0], [SETLEN, 1, 0], [SETLEN, 0, 0], [TRUNCATE, 2]]
    raise ValueError(cls)


def _exhaustive(cls, depth):
    init, first, alpha = _alphabet(cls)
    for combo in itertools.product(alpha, repeat=depth):
        yield {'op': CLS[cls], 'input': {'cls': cls, 'init': init, 'ops': [first] + [list(o) for o in combo]}}


QUICK_PER_CLASS = 260
QUICK_LEN = 24
SCHEDULED_PER_CLASS = 60


def cases(rng, tier, n=None):
    out = []
    per = QUICK_PER_CLASS * (10 if tier == 'thorough' else 1)
    if n is not None:
        per = max(0, n // 7)
    for cls in range(1, 8):
        for _ in range(per):
            out.append(_random_history(cls, rng, QUICK_LEN))
    sper = SCHEDULED_PER_CLASS * (10 if tier == 'thorough' else 1) if n is None else per // 3
    for cls in range(1, 8):
        for _ in range(sper * (3 if cls == 7 else 1)):
            out.append(_scheduled_history(cls, rng, QUICK_LEN))
    rng.shuffle(out)                          # classes and configurations interleaved in one process
    if tier == 'thorough' and n is None:
        for cls in range(1, 8):
            out.extend(_exhaustive(cls, 5))
        # the same sweep for performances (whose length is computed, not stored) observed only at the end,
        # and at depth 4 for every class
        out.extend(_end_only(c) for c in _exhaustive(7, 5))
        for cls in range(1, 7):
            out.extend(_end_only(c) for c in _exhaustive(cls, 4))
    elif n is None:
        # a slice of the exhaustive sweep in every quick run: all histories of length 3
        for cls in range(1, 8):
            out.extend(_exhaustive(cls, 3))
        out.extend(_end_only(c) for c in _exhaustive(7, 3))
    return out


def corpus():
    def c(cls, init, ops):
        return {'op': CLS[cls], 'input': {'cls': cls, 'init': init, 'ops': ops}}

    def cs(cls, init, ops, obs):
        return {'op': CLS[cls], 'input': {'cls': cls, 'init': init, 'ops': ops, 'obs': obs}}
    R4 = [REINIT, 0, [1, [1, 2, 3, 4]], 4, 16, 4]
    out = [
        # F3: set_length(0, from_left=True) on a non-empty sequence
        c(1, [0], [R4, [SETLEN, 0, 1]]),
        c(2, [], [[REINIT, 0, [1, [60, -1, 62, -2]], 4, 16, 4], [SETLEN, 0, 1], [APPEND, 60]]),
        c(3, [], [[APPEND, [36]], [APPEND, [38]], [SETLEN, 0, 1]]),
        c(4, [], [[APPEND, 1], [SETLEN, 0, 1], [SETLEN, 2, 1]]),
        # F4: slice with a negative start
        c(1, [0], [R4, [SLICE, [-2], []]]),
        c(1, [0], [R4, [SLICE, [-9], [3]]]),
        c(1, [0], [R4, [SLICE, [10], []]]),
        c(1, [0], [R4, [SLICE, [3], [1]]]),
        c(2, [], [[REINIT, 0, [1, [60, -2, -1, 62]], 8, 16, 4], [SLICE, [-3], [-1]]]),
        # F5: LeadSheet iteration and slicing
        c(5, [], [[APPEND, 60, 1]]),
        c(5, [], [[REINIT, [60, -1, -2, 62], 4, 16, 4, [1, 1, 2, 0], 4, 16, 4], [SLICE, [1], [3]], [SLICE, [-1], []]]),
        c(5, [], [[REINIT, [60, -1], 0, 16, 4, [1, 1, 2], 0, 16, 4], [REINIT, [60, 130], 0, 16, 4, [1, 1], 0, 16, 4],
                  [APPEND, 128, 1], [APPEND, 5, 5], [SETLEN, 4], [INCRES, 3], [DEEPCOPY], [RESET]]),
        # copies, slices and objects built from one list must not share state (seeded C17-5)
        c(4, [], [[REINIT, 0, [1, [1, 1, 3, 3]], 16, 16, 4], [DEEPCOPY], [APPEND, 2], [SETLEN, 2, 0], [SETLEN, 5, 1]]),
        c(1, [0], [[REINIT, 0, [1, [1, 2, 3]], 8, 16, 4], [DEEPCOPY], [SETLEN, 5, 1], [SLICE, [1], []], [APPEND, 7]]),
        c(1, [0], [[REINIT, 0, [1, [1, 2, 3]], 8, 16, 4], [APPEND, 4], [SETLEN, 1, 0]]),
        c(3, [], [[REINIT, 0, [1, [[36], [], [38]]], 0, 16, 4], [APPEND, [42]], [DEEPCOPY], [SETLEN, 0, 1]]),
        c(5, [], [[REINIT, [60, -2, 62], 0, 16, 4, [1, 1, 2], 0, 16, 4], [DEEPCOPY], [APPEND, 64, 3], [SETLEN, 2],
                  [SLICE, [], [1]], [SETLEN, 3]]),
        # an invalid value AFTER valid ones is rejected and nothing changes (seeded C17-6, C17-2)
        c(2, [], [[REINIT, 0, [1, [60, -1, 62]], 4, 16, 4], [REINIT, 0, [1, [60, 62, 200]], 0, 16, 4],
                  [REINIT, 0, [1, [-2, -1, -3]], 0, 16, 4], [APPEND, 128], [APPEND, -3], [SETLEN, 4, 0]]),
        c(3, [], [[REINIT, 0, [1, [[36], [38, 42]]], 4, 16, 4], [REINIT, 0, [1, [[36], [], [36, 128]]], 0, 16, 4],
                  [REINIT, 0, [1, [[36], [NOT_A_SET, 36]]], 0, 16, 4], [APPEND, [NOT_A_SET, 38]], [APPEND, [-1]],
                  [APPEND, [0, 127]]]),
        c(5, [], [[REINIT, [60, -2, 62], 4, 12, 4, [1, 1, 2], 4, 12, 4], [REINIT, [60, 62, 128], 0, 16, 4, [1, 1, 2], 0, 16, 4],
                  [REINIT, [60], 0, 16, 4, [1], 0, 16, 4, 1], [REINIT, [60], 0, 16, 4, [1], 0, 16, 4, 2],
                  [REINIT, [60, 300], 0, 16, 4, [1], 0, 16, 4, 2], [REINIT, [60], 0, 16, 4, [1], 0, 17, 4],
                  [REINIT, [60], 0, 16, 4, [1], 0, 16, 5], [APPEND, 200, 1], [APPEND, 64, 2]]),
        c(7, [3, 4, 0, 32, 2, 17, 1], [[APPEND, 1, 60], [APPEND, NOT_AN_EVENT, 3], [APPEND, 4, 128], [APPEND, 5, 0],
                                       [REINIT, 9, 8, 1, 128, 1, 0, 0], [SETLEN, 9, 0], [REINIT, 9, 8, 1, 127, 3, -1, 1],
                                       [SETLEN, 17, 0], [REINIT, 0, 12, 1, 0, 2, 5, -1], [SETLEN, 30, 0]]),
        # constructor parameters at non-default, mutually different values
        c(1, [5], [[REINIT, 3, [1, [1, 2]], -3, 17, 5], [SETLEN, 4, 1], [INCRES, 2, [7]], [INCRES, 3], [RESET],
                   [REINIT, 4, [1, []], 2, 3, 12], [SETLEN, 2, 0], [REINIT, 5, [], 9, 48, 1], [SETLEN, 1, 1]]),
        c(4, [], [[REINIT, 3, [1, [1, 2]], 5, 12, 1], [INCRES, 2, [4]], [SETLEN, 6, 1]]),
        c(2, [], [[REINIT, 3, [1, [60, -2]], 5, 12, 1], [SETLEN, 4, 0], [INCRES, 2], [SETLEN, 9, 1]]),
        c(6, [1, 60, 61, 12], [[APPEND, [59, 60, 61, 62], 1], [APPEND, [59, 62], 0],
                               [REINIT, [[0, 59], [60], []], 7, 0, 59, 1, 24], [APPEND, [59, 60], 1],
                               [REINIT, [], 3, 73, 127, 1, 1], [APPEND, [72, 73, 127], 1], [SETLEN, 3, 0]]),
        # read, then edit back to the same number of events without a read in between (seeded C17-8)
        cs(7, [0, 100, 0], [[APPEND, 3, 10], [SETLEN, 10, 0], [TRUNCATE, 0], [APPEND, 3, 30]], [0, 0, 0, 1]),
        cs(7, [0, 100, 0], [[APPEND, 3, 10], [SETLEN, 10, 0], [TRUNCATE, 0], [APPEND, 3, 30], [SETLEN, 30, 0]],
           [0, 0, 0, 0, 1]),
        cs(7, [5, 3, 1], [[APPEND, 1, 60], [APPEND, 3, 2], [TRUNCATE, 1], [APPEND, 3, 7], [SETLEN, 7, 0], [TRUNCATE, 1],
                          [APPEND, 2, 60], [APPEND, 3, 1]], [0, 1, 0, 0, 0, 0, 0, 1]),
        cs(6, [2, 60, 72], [[APPEND, [60], 0], [SETLEN, 3, 0], [SETLEN, 0, 0], [APPEND, [61], 0], [APPEND, [62], 0],
                            [APPEND, [63], 0]], [0, 1, 0, 0, 0, 1]),
        cs(2, [], [[APPEND, 60], [SETLEN, 3, 0], [SETLEN, 0, 1], [APPEND, 62], [APPEND, 64], [APPEND, -1]],
           [0, 1, 0, 0, 0, 1]),
        # melody padding ends a sustained note / does not add a second NOTE_OFF
        c(2, [], [[APPEND, 60], [SETLEN, 3, 0], [SETLEN, 5, 0], [APPEND, 62], [APPEND, -1], [SETLEN, 9, 0],
                  [SETLEN, 12, 1], [INCRES, 2], [SLICE, [2], [-3]], [DEEPCOPY]]),
        c(2, [], [[APPEND, -2], [APPEND, 60], [DEEPCOPY], [SETLEN, 1, 0], [SETLEN, 2, 0]]),
        # outside the claim (negative n, k <= 0): model correspondence only
        c(1, [7], [R4, [SETLEN, -1, 0], [SETLEN, 2, 0]]),
        c(1, [7], [R4, [SETLEN, -2, 1], [APPEND, 3]]),
        c(2, [], [[APPEND, 60], [APPEND, 62], [INCRES, 0]]),
        c(4, [], [[APPEND, 1], [APPEND, 2], [INCRES, 0], [INCRES, -1]]),
        # pianoroll
        c(6, [3, 60, 72], [[APPEND, [59, 60, 72, 73], 1], [APPEND, [1, 2], 0], [SETLEN, 5, 0], [SETLEN, 1, 0],
                           [SETLEN, 4, 1], [SETLEN, 0, 0], [SETLEN, -1, 0], [DEEPCOPY]]),
        # performance: boundaries of _append_steps / _trim_steps
        c(7, [0, 100, 0], [[SETLEN, 250, 0], [SETLEN, 100, 0], [SETLEN, 99, 0], [SETLEN, 101, 0], [SETLEN, 0, 0]]),
        c(7, [5, 3, 0], [[APPEND, 1, 60], [APPEND, 3, 2], [SETLEN, 3, 0], [SETLEN, 10, 0], [APPEND, 2, 60],
                         [SETLEN, 9, 0], [SETLEN, 4, 0], [SETLEN, 4, 0], [TRUNCATE, 2], [SETLEN, 0, 0], [SETLEN, 1, 1]]),
        c(7, [0, 4, 1], [[APPEND, 3, 9], [APPEND, 3, 0], [SETLEN, 12, 0], [SETLEN, 3, 0], [APPEND, 3, -1],
                         [APPEND, 9, 1], [SETLEN, -2, 0], [REINIT, 2, 8, 1], [SETLEN, 17, 0], [DEEPCOPY]]),
        c(7, [0, 1, 0], [[SETLEN, 5, 0], [SETLEN, 2, 0], [TRUNCATE, -1]]),
    ]
    return out


def shrink(case):
    inp = case['input']
    ops = inp['ops']
    obs = _schedule(inp)

    def mk(o, b):
        d = {'cls': inp['cls'], 'init': inp['init'], 'ops': o}
        if 'obs' in inp:
            d['obs'] = b
        return {'op': case['op'], 'input': d}
    for k in range(len(ops) - 1, -1, -1):
        yield mk(ops[:k] + ops[k + 1:], obs[:k] + obs[k + 1:])
    if len(ops) > 1:
        yield mk(ops[:len(ops) // 2], obs[:len(ops) // 2])


META = {
    'level_text': ('Theorems by induction over ARBITRARY operation histories (fold_left step) for the state-machine models '
                   'of SimpleEventSequence, Melody, DrumTrack, ChordProgression, LeadSheet, PianorollSequence and '
                   'Performance: the length/step-range invariant, iteration/index/len agreement, one step per event, '
                   'set_length exactness and retention from either end (for Performance: _append_steps/_trim_steps are '
                   'exact, so the assert in set_length cannot fire), slice offsets, Melody range -2..127 with padding '
                   'ending a sustained note, LeadSheet lock step.  The models follow note_seq with notes/C17-fix-1..3 '
                   'applied and are tied to the real objects by lock-step histories.'),
    'level_note': ('Trusted: Coq kernel; the hand-written models Model/Events.v and Model/EventsPoly.v (tied to the code by '
                   'correspondence only); the harness adapters.  Python aliasing (objects shared between a sequence and '
                   'its slice/deepcopy) is exercised but not modelled.'),
}
