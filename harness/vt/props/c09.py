"""C09 — every one-hot event encoding is a bijection onto its class range."""
import itertools

from vt import coqgen as G

ID = 'C09'
RULE = ('exhaustive or seeded enumeration of (configuration, index/event) pairs for each OneHotEncoding; '
        'non-trivial = the implementation returned a value (not an error) for at least one of encode/decode; '
        'distinct by canonical input')
ASSUMPTIONS = ['float math.ceil(127/nb) equals the integer ceiling for nb in 1..127 (checked for every nb each run)',
               'note-density boundaries are compared as integers in the model (any strict total order); '
               'the harness feeds integer-valued floats']


def gen_coq():
    from note_seq import constants, performance_lib, drums_encoder_decoder
    PE = performance_lib.PerformanceEvent
    s = G.HEADER
    s += G.defz('NUM_SPECIAL_MELODY_EVENTS', constants.NUM_SPECIAL_MELODY_EVENTS)
    s += G.defz('MELODY_NOTE_OFF', constants.MELODY_NOTE_OFF)
    s += G.defz('MELODY_NO_EVENT', constants.MELODY_NO_EVENT)
    s += G.defz('MIN_MIDI_PITCH', constants.MIN_MIDI_PITCH)
    s += G.defz('MAX_MIDI_PITCH', constants.MAX_MIDI_PITCH)
    s += G.defz('MIN_MIDI_VELOCITY', performance_lib.MIN_MIDI_VELOCITY)
    s += G.defz('MAX_MIDI_VELOCITY', performance_lib.MAX_MIDI_VELOCITY)
    s += G.defz('EV_NOTE_ON', PE.NOTE_ON)
    s += G.defz('EV_NOTE_OFF', PE.NOTE_OFF)
    s += G.defz('EV_TIME_SHIFT', PE.TIME_SHIFT)
    s += G.defz('EV_VELOCITY', PE.VELOCITY)
    s += G.defz('EV_DURATION', PE.DURATION)
    s += G.defzlistlist('DEFAULT_DRUM_TYPE_PITCHES', drums_encoder_decoder.DEFAULT_DRUM_TYPE_PITCHES)
    # chord one-hot encodings: what each decodable name MEANS to the library's own parser
    from note_seq import chords_encoder_decoder as ced, chord_symbols_lib as csl
    s += G.defz('NOTES_PER_OCTAVE', ced.NOTES_PER_OCTAVE)
    for nm in ('MAJOR', 'MINOR', 'AUGMENTED', 'DIMINISHED', 'OTHER'):
        s += G.defz('CHORD_QUALITY_' + nm, getattr(csl, 'CHORD_QUALITY_' + nm))
    rows = []
    for sfx in CHORD_SUFFIXES:
        rows.append('[' + '; '.join(G.zlist([csl.chord_symbol_root(n + sfx), csl.chord_symbol_quality(n + sfx)])
                                    for n in ced._PITCH_CLASS_MAPPING) + ']')
    s += 'Definition DECODED_NAME_MEANING : list (list (list Z)) :=\n  [' + ';\n   '.join(rows) + '].\n'
    return s


CHORD_SUFFIXES = ['', 'm', 'aug', 'dim']
CHORD_FIGS = ['C', 'Am', 'G7', 'F#m7b5', 'Bb', 'Cmaj7', 'Absus4', 'Edim', 'Caug', 'B', 'Cb', 'B7', 'Bm', 'B#', 'Bmaj7',
              'Bm7', 'Baug', 'Bdim', 'Bdim7', 'Dbm', 'C#', 'Ebm7', 'F#', 'Gb', 'Abm', 'A#m', 'Bbm', 'D7', 'E+', 'Eo',
              'G5', 'Asus2', 'Fm6', 'D9', 'Gm(b5)', 'C/E', 'Am/C', 'Bb/D', 'B/D#', 'Cbm', 'Fb', 'E#m']


CHORD_MODS = ['', '', '', '(b5)', '(#5)', '(add9)', '(no3)', '(b9)', '(#11)', 'add2', '(no5)']
CHORD_BASSES = ['', '', '/E', '/Bb', '/C#', '/G', '/D', '/Ab']


def _grammar_figs(rng, n):
    """figures over the whole chord-symbol grammar: root (letter, 0-2 accidentals) x EVERY kind abbreviation the
    library's parser knows (some contain a slash themselves: '/o', '/o7', '6/9') x a modification x a bass.  Every
    abbreviation appears at least once with and once without a bass; the rest is sampled."""
    from note_seq import chord_symbols_lib as csl
    kinds = [ab for abbrevs, _ in csl._CHORD_KINDS for ab in abbrevs]
    roots = [l + acc for l in 'CDEFGAB' for acc in ('', '#', 'b', '##', 'bb')]
    figs = []
    for k in kinds:
        figs.append(rng.choice(roots) + k)
        figs.append(rng.choice(roots) + k + rng.choice(CHORD_BASSES[2:]))
    while len(figs) < n:
        figs.append(rng.choice(roots) + rng.choice(kinds) + rng.choice(CHORD_MODS) + rng.choice(CHORD_BASSES))
    # keep figures that denote a chord by the C15 model (the rest are C15's rejection paths)
    return [f for f, m in zip(figs, _meaning_indep(figs)) if m is not None]


_INDEP = {}


def _meaning_indep(figs):
    """(root, triad quality) of chord figures by the Coq model of property C15 (extracted runner), i.e. independently of
    note_seq.chord_symbols_lib's interpreter -- only the library's lexical split of the figure is used.  Batched and
    memoised.  None for a figure outside the grammar or without a root/quality."""
    from vt import engine
    from vt.props import c15
    todo = [f for f in dict.fromkeys(figs) if f not in _INDEP]
    ins, keep = [], []
    for f in todo:
        if f == 'N.C.':
            _INDEP[f] = []
            continue
        try:
            mi = c15.model_input({'op': 'parse', 'input': f})
        except Exception:   # noqa
            mi = None
        if mi is None:
            _INDEP[f] = None
        else:
            ins.append(mi)
            keep.append(f)
    if ins:
        for f, o in zip(keep, engine.run_model_ocaml('C15', ins)):
            r = c15._minterp(o)
            _INDEP[f] = [r[0][1], r[3][1]] if r[0][0] == 'OK' and r[3][0] == 'OK' else None
    return [_INDEP[f] for f in figs]


def _meaning(fig):
    from note_seq import chord_symbols_lib as csl
    if fig == 'N.C.':
        return []
    return [csl.chord_symbol_root(fig), csl.chord_symbol_quality(fig)]


def _exc(e):
    return ['EXC', type(e).__name__]


def _try(f):
    try:
        return ['OK', f()]
    except Exception as e:  # noqa
        return _exc(e)


# ---------------------------------------------------------------- cases
def cases(rng, tier, n=None):
    out = []
    thorough = tier == 'thorough'
    # melody: all 8256 ranges in thorough; sample in quick; all indices + events around the edges
    ranges = [(a, b) for a in range(0, 128) for b in range(a + 1, 129)]
    if not thorough:
        ranges = rng.sample(ranges, 60) + [(0, 128), (0, 1), (127, 128), (48, 84)]
    for (mn, mx) in ranges:
        xs = set([-3, -2, -1, 0, 1, 2, mn - 1, mn, mn + 1, mx - 1, mx, mx + 1, mx - mn, mx - mn + 1, mx - mn + 2])
        if thorough or True:
            xs |= set(range(0, mx - mn + 2)) if not thorough and rng.random() < 0.2 or thorough else set()
        for x in sorted(xs):
            out.append({'op': 'melody', 'input': [mn, mx, x]})
    # illegal melody configs
    for (mn, mx) in [(-1, 10), (0, 129), (5, 5), (6, 5)]:
        out.append({'op': 'melody', 'input': [mn, mx, 0]})
    # performance
    nbs = list(range(0, 128)) if thorough else [0, 1, 2, 16, 32, 100, 127] + rng.sample(range(0, 128), 4)
    mss = list(range(1, 129)) if thorough else [1, 2, 100, 128] + rng.sample(range(1, 129), 3)
    prs = [(0, 127), (21, 108), (60, 60), (0, 0), (127, 127), (36, 84)]
    for nb in nbs:
        for ms in (mss if thorough else mss):
            for (lo, hi) in (prs if not thorough else prs[:3] if (nb % 8 or ms % 8) else prs):
                total = 2 * (hi - lo + 1) + ms + max(nb, 0)
                idxs = set([-1, 0, hi - lo, hi - lo + 1, 2 * (hi - lo + 1) - 1, 2 * (hi - lo + 1),
                            2 * (hi - lo + 1) + ms - 1, 2 * (hi - lo + 1) + ms, total - 1, total])
                if not thorough:
                    idxs |= set(rng.sample(range(0, total), min(total, 6)))
                evs = [(1, lo), (1, hi), (2, lo), (2, hi), (3, 1), (3, ms), (4, 1), (4, max(nb, 1)), (5, 1),
                       (1, rng.randint(lo, hi)), (3, rng.randint(1, ms))]
                for i, (ty, v) in itertools.zip_longest(sorted(idxs), evs, fillvalue=None) if False else \
                        [(i, evs[k % len(evs)]) for k, i in enumerate(sorted(idxs))]:
                    out.append({'op': 'perf', 'input': [nb, ms, lo, hi, ty, v, i]})
    # velocity bins: all nb x all v (exhaustive: 127*127) in both tiers (cheap)
    for nb in range(1, 128):
        for v in (range(1, 128) if thorough else [1, 2, 63, 64, 65, 126, 127] + [rng.randint(1, 127) for _ in range(6)]):
            out.append({'op': 'vel', 'input': [nb, v, rng.randint(1, nb) if not thorough else ((v - 1) % nb) + 1]})
    # drums: all 512 classes, events = decoded sets plus random pitch sets
    from note_seq import drums_encoder_decoder as ded
    flat = [p for ps in ded.DEFAULT_DRUM_TYPE_PITCHES for p in ps]
    for idx in range(512):
        k = rng.randint(0, 5)
        ev = sorted(set(rng.choice(flat) if rng.random() < 0.85 else rng.randint(0, 127) for _ in range(k)))
        out.append({'op': 'drums', 'input': [rng.random() < 0.7, ev, idx]})
    for _ in range(60 if not thorough else 1500):
        nt = rng.randint(1, 6)
        types = [[rng.randint(20, 60) for _ in range(rng.randint(1, 4))] for _ in range(nt)]
        fl = [p for ps in types for p in ps]
        ev = sorted(set(rng.choice(fl) if rng.random() < 0.8 else rng.randint(0, 127) for _ in range(rng.randint(0, 5))))
        out.append({'op': 'drums_custom', 'input': [types, rng.random() < 0.6, ev, rng.randint(0, 2 ** nt - 1)]})
    # density
    for _ in range(80 if not thorough else 3000):
        k = rng.randint(0, 8)
        bs = sorted(rng.sample(range(1, 60), k))
        out.append({'op': 'density', 'input': [bs, rng.randint(0, 64), rng.randint(0, k)]})
    # chord one-hot encodings: every index (and a margin outside the range), every figure of a fixed list
    for op, nc in (('chord_mm', 25), ('chord_triad', 49)):
        for i in range(-2, nc + 2):
            out.append({'op': op, 'input': [i, CHORD_FIGS[(i + 2) % len(CHORD_FIGS)]]})
        for fig in CHORD_FIGS + ['N.C.'] + _grammar_figs(rng, 1500 if thorough else 260):
            out.append({'op': op, 'input': [rng.randrange(nc), fig]})
    if n is not None:
        out = out[:n]
    _meaning_indep([c['input'][1] for c in out if c['op'] in ('chord_mm', 'chord_triad')])   # one batch
    return out


# ---------------------------------------------------------------- implementation
def impl(case):
    op, a = case['op'], case['input']
    if op == 'melody':
        from note_seq import melody_encoder_decoder as med
        mn, mx, x = a
        try:
            enc = med.MelodyOneHotEncoding(mn, mx)
        except ValueError:
            return ['CFG-REJECTED']
        return ['OK', enc.num_classes, _try(lambda: enc.encode_event(x)), _try(lambda: enc.decode_event(x))]
    if op == 'perf':
        from note_seq import performance_encoder_decoder as ped, performance_lib as pl
        nb, ms, lo, hi, ty, v, i = a
        enc = ped.PerformanceOneHotEncoding(num_velocity_bins=nb, max_shift_steps=ms, min_pitch=lo, max_pitch=hi)

        def e():
            import types
            return enc.encode_event(types.SimpleNamespace(event_type=ty, event_value=v))

        def d():
            ev = enc.decode_event(i)
            return [ev.event_type, ev.event_value]
        return ['OK', enc.num_classes, _try(e), _try(d)]
    if op == 'vel':
        from note_seq import performance_lib as pl
        nb, v, b = a
        return ['OK', pl._velocity_bin_size(nb), pl.velocity_to_bin(v, nb), pl.velocity_bin_to_velocity(b, nb)]
    if op in ('drums', 'drums_custom'):
        from note_seq import drums_encoder_decoder as ded
        if op == 'drums':
            ign, ev, idx = a
            enc = ded.MultiDrumOneHotEncoding(ignore_unknown_drums=ign)
        else:
            types, ign, ev, idx = a
            enc = ded.MultiDrumOneHotEncoding(drum_type_pitches=types, ignore_unknown_drums=ign)
        return ['OK', enc.num_classes, _try(lambda: enc.encode_event(frozenset(ev))),
                _try(lambda: sorted(enc.decode_event(idx)))]
    if op == 'density':
        from note_seq import performance_controls as pc
        bs, e, i = a
        enc = pc.NoteDensityPerformanceControlSignal.NoteDensityOneHotEncoding([float(b) for b in bs])
        dv = enc.decode_event(i)
        assert dv == int(dv)
        return ['OK', enc.num_classes, enc.encode_event(float(e)), int(dv)]
    if op in ('chord_mm', 'chord_triad'):
        from note_seq import chords_encoder_decoder as ced
        i, fig = a
        enc = ced.MajorMinorChordOneHotEncoding() if op == 'chord_mm' else ced.TriadChordOneHotEncoding()
        return ['OK', enc.num_classes, _try(lambda: enc.encode_event(fig)),
                _try(lambda: _meaning_indep([enc.decode_event(i)])[0])]
    raise ValueError(op)


# ---------------------------------------------------------------- model
def model_input(case):
    op, a = case['op'], case['input']
    if op == 'melody':
        return [1] + a
    if op == 'perf':
        return [2] + a
    if op == 'vel':
        return [3] + a
    if op == 'drums':
        return [4, a[0], a[1], a[2]]
    if op == 'drums_custom':
        return [5, a[0], a[1], a[2], a[3]]
    if op == 'density':
        return [6] + a
    if op in ('chord_mm', 'chord_triad'):
        m = _meaning_indep([a[1]])[0]     # what the figure denotes by the C15 model, not by the library under test
        if m is None:                      # outside the grammar: no model side for encode
            return None
        return [7 if op == 'chord_mm' else 8, a[0], m]


def _opt(o):
    return ['OK', o[0]] if o else ['EXC', 'ValueError']


def model_output(case, m):
    op = case['op']
    if op == 'melody':
        ok, nc, enc, dec = m
        if not ok:
            return ['CFG-REJECTED']
        return ['OK', nc, _opt(enc), ['OK', dec]]
    if op == 'perf':
        nc, enc, dec = m
        return ['OK', nc, _opt(enc), ['OK', dec] if dec else ['EXC', 'ValueError']]
    if op == 'vel':
        return ['OK'] + m
    if op in ('drums', 'drums_custom'):
        nc, enc, dec = m
        return ['OK', nc, ['OK', enc[0]] if enc else ['EXC', 'DrumsEncodingError'], ['OK', sorted(set(dec))]]
    if op == 'density':
        return ['OK'] + m
    if op in ('chord_mm', 'chord_triad'):
        nc, enc, dec = m
        return ['OK', nc, ['OK', enc[0]] if enc else ['EXC', 'ChordEncodingError'],
                ['OK', dec[0]] if dec else ['EXC', 'IndexError']]


# ---------------------------------------------------------------- oracle: the property on the implementation
def oracle(case, io):
    """Evaluate C09's statement on the implementation's own outputs (plus extra calls)."""
    op, a = case['op'], case['input']
    if io[0] != 'OK':
        return None
    if op == 'melody':
        from note_seq import melody_encoder_decoder as med
        mn, mx, x = a
        enc = med.MelodyOneHotEncoding(mn, mx)
        nc = enc.num_classes
        if 0 <= x < nc:
            ev = enc.decode_event(x)
            try:
                back = enc.encode_event(ev)
            except Exception as e:
                return {'kind': 'melody-encode-of-decode-raises', 'cfg': [mn, mx], 'index': x}
            if back != x:
                return {'kind': 'melody-decode-encode-not-identity', 'cfg': [mn, mx], 'index': x, 'got': back}
        if io[2][0] == 'OK':
            c = io[2][1]
            if not (0 <= c < nc):
                return {'kind': 'melody-encode-out-of-range', 'cfg': [mn, mx], 'event': x, 'got': c}
            if enc.decode_event(c) != x:
                return {'kind': 'melody-encode-decode-not-canonical', 'cfg': [mn, mx], 'event': x}
        elif (-2 <= x < 0) or (mn <= x < mx):
            return {'kind': 'melody-valid-event-rejected', 'cfg': [mn, mx], 'event': x}
        return None
    if op == 'perf':
        from note_seq import performance_encoder_decoder as ped
        nb, ms, lo, hi, ty, v, i = a
        enc = ped.PerformanceOneHotEncoding(num_velocity_bins=nb, max_shift_steps=ms, min_pitch=lo, max_pitch=hi)
        nc = enc.num_classes
        if 0 <= i < nc:
            try:
                ev = enc.decode_event(i)
                back = enc.encode_event(ev)
            except Exception as e:
                return {'kind': 'perf-decode-or-encode-raises', 'cfg': [nb, ms, lo, hi], 'index': i}
            if back != i:
                return {'kind': 'perf-decode-encode-not-identity', 'cfg': [nb, ms, lo, hi], 'index': i, 'got': back}
        valid = (ty in (1, 2) and lo <= v <= hi) or (ty == 3 and 1 <= v <= ms) or (ty == 4 and nb > 0 and 1 <= v <= nb)
        if valid:
            if io[2][0] != 'OK':
                return {'kind': 'perf-valid-event-rejected', 'cfg': [nb, ms, lo, hi], 'event': [ty, v]}
            c = io[2][1]
            if not (0 <= c < nc):
                return {'kind': 'perf-encode-out-of-range', 'cfg': [nb, ms, lo, hi], 'event': [ty, v], 'got': c}
            ev = enc.decode_event(c)
            if [ev.event_type, ev.event_value] != [ty, v]:
                return {'kind': 'perf-encode-decode-not-identity', 'cfg': [nb, ms, lo, hi], 'event': [ty, v]}
        return None
    if op == 'vel':
        from note_seq import performance_lib as pl
        nb, v, b = a
        bn = pl.velocity_to_bin(v, nb)
        if not (1 <= bn <= nb):
            return {'kind': 'velocity-bin-out-of-range', 'nb': nb, 'v': v, 'bin': bn}
        if v < 127 and pl.velocity_to_bin(v + 1, nb) < bn:
            return {'kind': 'velocity-bin-not-monotone', 'nb': nb, 'v': v}
        if pl.velocity_to_bin(pl.velocity_bin_to_velocity(b, nb), nb) != b:
            return {'kind': 'bin-to-velocity-not-right-inverse', 'nb': nb, 'bin': b}
        lo = pl.velocity_bin_to_velocity(bn, nb)
        if not (lo <= v):
            return {'kind': 'velocity-bin-lower-bound', 'nb': nb, 'v': v}
        return None
    if op in ('drums', 'drums_custom'):
        from note_seq import drums_encoder_decoder as ded
        if op == 'drums':
            ign, ev, idx = a
            enc = ded.MultiDrumOneHotEncoding(ignore_unknown_drums=ign)
            types = ded.DEFAULT_DRUM_TYPE_PITCHES
        else:
            types, ign, ev, idx = a
            enc = ded.MultiDrumOneHotEncoding(drum_type_pitches=types, ignore_unknown_drums=ign)
        nc = enc.num_classes
        firsts = [ps[0] for ps in types]
        distinct_firsts = all(enc._inverse_drum_map.get(f) == i for i, f in enumerate(firsts))
        if 0 <= idx < nc and distinct_firsts:
            back = enc.encode_event(enc.decode_event(idx))
            if back != idx:
                return {'kind': 'drums-decode-encode-not-identity', 'index': idx, 'got': back, 'op': op}
        if io[2][0] == 'OK':
            c = io[2][1]
            if not (0 <= c < nc):
                return {'kind': 'drums-encode-out-of-range', 'event': ev, 'op': op}
            if distinct_firsts:
                classes = set(enc._inverse_drum_map[p] for p in ev if p in enc._inverse_drum_map)
                dec = enc.decode_event(c)
                if set(enc._inverse_drum_map[p] for p in dec) != classes:
                    return {'kind': 'drums-encode-decode-classes-differ', 'event': ev, 'op': op}
        return None
    if op == 'density':
        bs, e, i = a
        nc, en, dv = io[1], io[2], io[3]
        from note_seq import performance_controls as pc
        enc = pc.NoteDensityPerformanceControlSignal.NoteDensityOneHotEncoding([float(b) for b in bs])
        if not (0 <= en < nc):
            return {'kind': 'density-encode-out-of-range', 'bs': bs, 'e': e}
        if enc.encode_event(enc.decode_event(i)) != i:
            return {'kind': 'density-decode-encode-not-identity', 'bs': bs, 'i': i}
        if not (enc.decode_event(en) <= e):
            return {'kind': 'density-bin-lower-bound', 'bs': bs, 'e': e}
        return None


    if op in ('chord_mm', 'chord_triad'):
        from note_seq import chords_encoder_decoder as ced
        i, fig = a
        enc = ced.MajorMinorChordOneHotEncoding() if op == 'chord_mm' else ced.TriadChordOneHotEncoding()
        nc = enc.num_classes
        if 0 <= i < nc:
            try:
                ev = enc.decode_event(i)
                back = enc.encode_event(ev)
            except Exception as e:  # noqa
                return {'kind': 'chord-decode-or-encode-raises', 'op': op, 'index': i, 'exc': type(e).__name__}
            if back != i:
                return {'kind': 'chord-decode-encode-not-identity', 'op': op, 'index': i, 'decoded': ev, 'got': back}
            names = [enc.decode_event(k) for k in range(nc)]
            if len(set(names)) != nc:
                return {'kind': 'chord-decode-not-injective', 'op': op}
        if io[2][0] == 'OK':
            c = io[2][1]
            if not (0 <= c < nc):
                return {'kind': 'chord-encode-out-of-range', 'op': op, 'figure': fig, 'got': c}
            want, got = _meaning_indep([fig, enc.decode_event(c)])
            if want is not None and got != want:
                return {'kind': 'chord-encode-decode-changes-root-or-quality', 'op': op, 'figure': fig,
                        'decoded': enc.decode_event(c), 'figure_means': want, 'decoded_means': got}
        return None


def nontrivial(case, io):
    return io[0] == 'OK'

META = {
    'level_text': ('Theorems for ALL configurations (not a sample): melody bijection for every 0<=min<max<=128; '
                   'performance / generic event-range bijection for every bin count, max shift and pitch range; velocity '
                   'binning range, monotonicity, right inverse and lower bound for every 1<=nb<=127; multi-drum by complete '
                   'in-kernel enumeration of the 512 classes of the table regenerated from the code plus a range lemma for any '
                   'table; note density for any strictly increasing boundary list. The models are tied to the code by a '
                   'differential run over ~10k (quick) / exhaustive grids (thorough) of (configuration, index, event) triples.'),
    'level_note': ('Trusted: Coq kernel + vm_compute; the hand-written model Model/OneHot.v (tied by correspondence only); '
                   'integer ceiling vs math.ceil checked for all 127 bin counts; density boundaries modelled as integers. '
                   'Chord one-hot encodings (major/minor 25 classes, triads 49): complete in-kernel enumeration over the '
                   'table of (root, quality) meanings the library parser assigns to every decodable name, regenerated on every '
                   'run, plus a general encode-range/inverse lemma for every (root 0..11, quality); parsing figure strings to '
                   '(root, quality) inside the encoders is chord_symbols_lib (its semantics is property C15); the correspondence and the '
                   'oracle take the meaning of a figure from the extracted Coq model of C15 (only the library\'s lexical split '
                   'of the figure is reused), so an encoder that disagrees with the documented triad quality is seen even '
                   'when the library is consistent with itself.'),
}
