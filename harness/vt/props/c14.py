"""C14 — apply_sustain_control_changes holds exactly the notes the pedal holds."""
import copy
import inspect
import itertools

from vt import coqgen as G
from vt import nsio

ID = 'C14'
RULE = ('seeded structured NoteSequences on the exact tick grid (<= 4 instruments, 1-3 pitches per instrument so that '
        'same-pitch interactions are frequent, pedal timelines with repeated ons, offs without on, press+release at one '
        'instant in either storage order, control changes stored out of time order, values 0..127, pedals of instruments '
        'without notes, drum notes after the last pitched event, events coinciding with note starts/ends and with each '
        'other to the tick and +-1 tick).  The sustain control number is drawn first and independently (64 in ~45% of the '
        'cases, else 66/67/1/0/127/7, passed by default / keyword / position); when it is not 64, CC64 timelines are still '
        'present as "another controller".  Mode "clean" satisfies the property\'s quantifier (no two same-pitch notes of '
        'an instrument overlap or start together), mode "free" does not (model correspondence + the unconditional clauses '
        'only); "quant" covers the rejection path and its near misses (both step counts, negative counts, empty '
        'quantization_info present); some cases are the OUTPUT of an earlier application; thorough adds exhaustive sweeps '
        'of small timelines.  Every accepted case is called twice and the second result is wrecked to expose aliasing.  '
        'Non-trivial = the implementation changed at least one note end, removed a note, or rejected the input; distinct '
        'by canonical input.')
ASSUMPTIONS = [
    'times are multiples of 2^-40 s below 2^12 s, on which the float comparisons and assignments of the code are exact',
    'protobuf value equality of Note messages = equality of all fields carried in the model record (pitch, velocity, '
    'start, end, instrument, program, is_drum, quantized steps, voice/part/numerator/denominator/pitch_name token)',
    'copy.deepcopy / protobuf container mechanics are exercised, not modelled; non-mutation of the argument and "every '
    'other field is copied unchanged" are checked on every case by the oracle, not proved',
]
USE_VM = False

QS = nsio.QUARTER_SEC


# ---------------------------------------------------------------- regenerated constants
def gen_coq():
    from note_seq import sequences_lib as sl
    s = G.HEADER
    s += G.defz('SUSTAIN_ON', sl._SUSTAIN_ON)
    s += G.defz('SUSTAIN_OFF', sl._SUSTAIN_OFF)
    s += G.defz('NOTE_ON', sl._NOTE_ON)
    s += G.defz('NOTE_OFF', sl._NOTE_OFF)
    dflt = inspect.signature(sl.apply_sustain_control_changes).parameters['sustain_control_number'].default
    s += G.defz('SUSTAIN_CONTROL_NUMBER', dflt)
    return s


# ---------------------------------------------------------------- generator
VALUES = [0, 1, 63, 64, 65, 100, 127]
PROGRAMS = (0, 1, 33)
CTLS = [64] * 5 + [66, 67, 1, 0, 127, 7]


def _time(rng, hi, pool, p_reuse, p_jit):
    if pool and rng.random() < p_reuse:
        t = rng.choice(pool)
        if rng.random() < 0.2:
            t = max(0, t + rng.choice([-1, 1]))
    else:
        t = rng.randint(0, hi) * QS
        if rng.random() < p_jit:
            t = max(0, t + rng.choice([-2, -1, 1, 2, 1 << 20]))
    pool.append(t)
    return t


def _clash(a, b):
    return (not a[6] and not b[6] and a[4] == b[4] and a[0] == b[0] and
            ((a[2] < b[3] and b[2] < a[3]) or a[2] == b[2]))


def gen_desc(rng, mode):
    pool = []
    ninstr = rng.randint(1, 4)
    hi = rng.choice([4, 8, 8, 16, 40])
    p_reuse = rng.choice([0.2, 0.4, 0.6])
    p_jit = rng.choice([0.0, 0.15, 0.3])
    pitches = {i: rng.sample(range(36, 84), rng.randint(1, 3)) for i in range(ninstr)}
    notes = []
    max_notes = rng.choice([2, 4, 8, 12])
    for _ in range(rng.randint(0, max_notes)):
        s = _time(rng, hi, pool, p_reuse, p_jit)
        if rng.random() < 0.08:
            e = s
        else:
            e = _time(rng, hi, pool, p_reuse, p_jit)
            if e < s:
                s, e = e, s
        instr = rng.randrange(ninstr)
        drum = rng.random() < 0.15
        vel = rng.choice([64, 64, 100, rng.randint(1, 127)])
        rest = rng.choice([0, 0, 0, rng.randrange(0, 65536 * 4, 4099)])
        notes.append([rng.choice(pitches[instr]), vel, s, e, instr, rng.choice(PROGRAMS[:2]), int(drum), 0, 0, rest])
    if mode in ('clean', 'nopedal-clean'):
        kept = []
        for n in notes:
            if not any(_clash(k, n) for k in kept):
                kept.append(n)
        notes = kept
    if rng.random() < 0.12:
        # a drum note after every pitched event (its end must stay inside total_time; it is not an event)
        late = (hi + rng.randint(1, 6)) * QS
        notes.insert(rng.randint(0, len(notes)), [rng.choice([36, 38, 42]), 100, rng.choice([0, late - QS]), late,
                                                  rng.randrange(ninstr), 0, 1, 0, 0, 0])
    d = nsio.gen_desc(rng, max_notes=0, max_instr=ninstr, hi_quarters=hi, pedals=False, max_events=2)
    d['notes'] = notes
    # the sustain control number is drawn first and independently of everything else; when it is not 64, CC64
    # events are still generated and are then just "another controller"
    ctl = rng.choice(CTLS)
    numbers = [ctl] * 5 + [64, 66, 67, 7, 1, 0, 127]
    ccs = []
    for _ in range(rng.randint(0, rng.choice([2, 5, 10]))):
        num = rng.choice(numbers)
        val = rng.choice(VALUES) if rng.random() < 0.8 else rng.randint(0, 127)
        if mode.startswith('nopedal') and num == ctl:
            val = min(val, rng.choice([0, 63]))
        # instrument ninstr has no notes: a pedal without notes must change nothing
        ccs.append([_time(rng, hi, pool, max(p_reuse, 0.4), p_jit), 0, num, val, rng.randrange(ninstr + 1),
                    rng.choice(PROGRAMS), int(rng.random() < 0.1)])
    if not mode.startswith('nopedal'):
        # pedal timelines: per instrument a run of presses/releases (repeated ons, offs without on included),
        # on the requested controller, and (when that is not 64) sometimes a CC64 timeline that must be ignored
        for i in range(ninstr):
            for num, p in ((ctl, 0.6), (64 if ctl != 64 else 66, 0.25)):
                if rng.random() < p:
                    down = rng.random() < 0.8
                    for _ in range(rng.randint(1, 4)):
                        val = rng.choice([64, 100, 127]) if down else rng.choice([0, 1, 63])
                        t = _time(rng, hi, pool, max(p_reuse, 0.5), p_jit)
                        ccs.append([t, 0, num, val, i, rng.choice(PROGRAMS), 0])
                        if rng.random() < 0.15:
                            # press and release at the very same time, in either storage order
                            other = rng.choice([0, 63]) if val >= 64 else rng.choice([64, 127])
                            ccs.insert(rng.randint(0, len(ccs)), [t, 0, num, other, i, rng.choice(PROGRAMS), 0])
                        if rng.random() < 0.8:
                            down = not down
        rng.shuffle(ccs)
    d['ccs'] = ccs
    ends = [n[3] for n in notes]
    total = max(ends) if ends else 0
    r = rng.random()
    if r < 0.3:
        total += rng.randint(1, 8) * QS
    d['total'] = total
    if rng.random() < 0.1:
        d['sub'] = [rng.randint(0, 4) * QS, rng.randint(0, 4) * QS]
    if mode == 'quant':
        r = rng.random()
        if r < 0.35:
            d['spq'] = rng.choice([1, 4, 24])
        elif r < 0.7:
            d['sps'] = rng.choice([1, 100])
        elif r < 0.8:
            d['spq'] = rng.choice([1, 4]); d['sps'] = rng.choice([1, 100])
        elif r < 0.9:
            d['spq'] = -rng.choice([1, 4])          # not "> 0": NOT quantized, must be accepted
        else:
            d['qinfo_empty'] = True                   # empty sub-message present: NOT quantized
    call = 'default' if (ctl == 64 and rng.random() < 0.7) else rng.choice(['kw', 'pos'])
    return {'desc': d, 'ctl': ctl, 'call': call}


def _mk(op, inp):
    return {'op': op, 'input': inp}


def _small(notes, ccs, total=None, ctl=64):
    """Hand-written / enumerated case: notes [(pitch,start,end[,instr[,drum]])], ccs [(time,value[,instr[,num]])] in quarter-seconds."""
    ns = []
    for n in notes:
        p, s, e = n[0], n[1], n[2]
        instr = n[3] if len(n) > 3 else 0
        drum = n[4] if len(n) > 4 else 0
        ns.append([p, 100, s * QS, e * QS, instr, 0, drum, 0, 0, 0])
    cs = []
    for c in ccs:
        t, v = c[0], c[1]
        instr = c[2] if len(c) > 2 else 0
        num = c[3] if len(c) > 3 else 64
        cs.append([t * QS, 0, num, v, instr, 0, 0])
    tot = max([n[3] for n in ns] + [0]) if total is None else total * QS
    d = {'notes': ns, 'tempos': [], 'tsigs': [], 'ksigs': [], 'texts': [], 'ccs': cs, 'bends': [], 'sects': [],
         'total': tot, 'qsteps': 0, 'spq': 0, 'sps': 0, 'sub': [0, 0], 'tpq': 220, 'meta': None}
    return {'desc': d, 'ctl': ctl}


def corpus():
    out = []
    # F2: a drum note (or trailing silence) beyond the last non-drum event, with a note still held at the end
    out.append(_mk('sustain', _small([(60, 0, 4), (36, 0, 20, 0, 1)], [(2, 127)])))
    out.append(_mk('sustain', _small([(60, 0, 4)], [(2, 127)], total=40)))
    # the nine situations of sequences_lib_test
    out.append(_mk('sustain', _small([(60, 1, 6), (60, 5, 6), (72, 8, 14), (60, 8, 12), (60, 14, 18)], [(4, 127), (16, 0)])))
    out.append(_mk('sustain', _small([(60, 1, 6), (60, 2, 6), (60, 5, 8)], [(4, 127), (16, 0)])))
    out.append(_mk('sustain', _small([(60, 2, 6), (60, 8, 12)], [(4, 127), (4, 0)])))
    out.append(_mk('sustain', _small([(60, 2, 6), (72, 8, 12)], [(4, 127), (16, 0)])))
    out.append(_mk('sustain', _small([(60, 2, 6), (72, 8, 12)], [(16, 127), (20, 0)])))
    out.append(_mk('sustain', _small([(60, 8, 10), (60, 8, 10)], [(4, 127), (16, 0)])))
    out.append(_mk('sustain', _small([(60, 8, 10), (38, 8, 10, 0, 1)], [(4, 127), (16, 0)])))
    # ties: pedal on/off exactly at a note end / start; restrike exactly at the end
    out.append(_mk('sustain', _small([(60, 0, 4), (60, 4, 8)], [(4, 127), (12, 0)])))
    out.append(_mk('sustain', _small([(60, 0, 4), (60, 4, 8)], [(0, 127), (4, 0)])))
    out.append(_mk('sustain', _small([(60, 0, 4), (60, 6, 8)], [(0, 127), (4, 0), (4, 127)])))
    out.append(_mk('sustain', _small([(60, 0, 4), (60, 6, 8)], [(4, 0), (0, 127), (4, 100), (6, 0)])))
    # zero-length notes, identical twins, a zero-length note displacing a real one
    out.append(_mk('sustain', _small([(60, 4, 4), (60, 4, 8)], [(0, 127)])))
    out.append(_mk('sustain', _small([(60, 4, 8), (60, 4, 4)], [(0, 127)])))
    out.append(_mk('sustain', _small([(60, 4, 4), (60, 4, 4), (60, 4, 4)], [(0, 127), (8, 0)])))
    # other instrument's pedal, other controller, custom control number
    out.append(_mk('sustain', _small([(60, 0, 4), (60, 0, 4, 1)], [(2, 127, 1), (8, 0, 1)])))
    out.append(_mk('sustain', _small([(60, 0, 4)], [(2, 127, 0, 66), (8, 0, 0, 66)])))
    out.append(_mk('sustain', _small([(60, 0, 4)], [(2, 127, 0, 66), (8, 0, 0, 66)], ctl=66)))
    # quantized input is rejected
    q = _small([(60, 0, 4)], [(2, 127)])
    q['desc']['spq'] = 4
    out.append(_mk('sustain', q))
    q = _small([], [])
    q['desc']['sps'] = 100
    out.append(_mk('sustain', q))
    out.append(_mk('sustain', _small([], [])))
    # ---- audit additions
    # non-default control numbers, CC64 present as "another controller" (it must not even count as an event)
    for ctl in (66, 67, 1, 0, 127):
        out.append(_mk('sustain', _small([(60, 0, 4), (60, 6, 8), (62, 1, 3)],
                                         [(3, 127, 0, ctl), (7, 0, 0, ctl), (2, 127, 0, 64), (12, 0, 0, 64)], ctl=ctl)))
        out.append(_mk('sustain', _small([(60, 0, 4)], [(3, 127, 0, ctl), (2, 127, 0, 64), (9, 0, 0, 64)], ctl=ctl)))
    c = _small([(60, 0, 4)], [(2, 127), (8, 0)]); c['call'] = 'kw'; out.append(_mk('sustain', c))
    c = _small([(60, 0, 4)], [(2, 127), (8, 0)]); c['call'] = 'pos'; out.append(_mk('sustain', c))
    # control changes stored out of time order, with repeated presses / releases
    out.append(_mk('sustain', _small([(60, 0, 3), (64, 5, 7)], [(6, 127), (2, 127), (8, 0), (4, 0)])))
    out.append(_mk('sustain', _small([(60, 0, 3), (64, 5, 7)], [(8, 0), (6, 100), (4, 0), (2, 64), (1, 127)])))
    out.append(_mk('sustain', _small([(60, 0, 5)], [(9, 0), (4, 127), (2, 0), (1, 127), (6, 127)])))
    # press and release at one instant, both storage orders, at / before / after a note end
    for ped in ([(4, 127), (4, 0)], [(4, 0), (4, 127)], [(0, 127), (4, 0), (4, 127)], [(0, 127), (4, 127), (4, 0)]):
        for end in (3, 4, 5):
            out.append(_mk('sustain', _small([(60, 0, end), (60, 8, 9)], ped + [(12, 0)])))
    # drum notes after the last pitched event / only drum notes / pedal of an instrument without notes
    out.append(_mk('sustain', _small([(60, 0, 4), (36, 10, 12, 0, 1), (38, 0, 30, 0, 1)], [(2, 127)])))
    out.append(_mk('sustain', _small([(60, 0, 4), (36, 10, 12, 0, 1)], [(2, 127), (6, 127, 1)])))
    out.append(_mk('sustain', _small([(36, 0, 4, 0, 1), (38, 2, 9, 0, 1)], [(1, 127), (3, 0)])))
    out.append(_mk('sustain', _small([(60, 0, 4)], [(2, 127, 5), (8, 0, 5)])))
    # an empty quantization_info sub-message / non-positive step counts are NOT quantized; both counts set is
    c = _small([(60, 0, 4)], [(2, 127), (8, 0)]); c['desc']['qinfo_empty'] = True; out.append(_mk('sustain', c))
    c = _small([(60, 0, 4)], [(2, 127), (8, 0)]); c['desc']['spq'] = -4; out.append(_mk('sustain', c))
    c = _small([(60, 0, 4)], [(2, 127), (8, 0)]); c['desc']['sps'] = -1; out.append(_mk('sustain', c))
    c = _small([(60, 0, 4)], [(2, 127)]); c['desc']['spq'] = 4; c['desc']['sps'] = 100; out.append(_mk('sustain', c))
    c = _small([(60, 0, 4)], [(2, 127), (8, 0)]); c['desc']['sub'] = [QS, 2 * QS]; out.append(_mk('sustain', c))
    # range ends of the controller value and a single zero-length note under the pedal
    out.append(_mk('sustain', _small([(60, 0, 4), (62, 0, 4, 1)], [(1, 64), (6, 63), (1, 63, 1), (6, 64, 1)])))
    out.append(_mk('sustain', _small([(60, 3, 3)], [(1, 127), (6, 0)])))
    return out


def _desc_of(ns):
    """Description of a real NoteSequence (used to feed the OUTPUT of one call into another)."""
    w = nsio.to_wire(ns)
    d = {'notes': w[0], 'tempos': w[1], 'tsigs': w[2], 'ksigs': w[3], 'texts': w[4], 'ccs': w[5], 'bends': w[6],
         'sects': w[7], 'total': w[8], 'qsteps': w[9], 'spq': w[10], 'sps': w[11], 'sub': w[12], 'tpq': w[13],
         'meta': None}
    if ns.HasField('quantization_info') and not w[10] and not w[11]:
        d['qinfo_empty'] = True
    return d


def _two_step(inp):
    """The result of apply_sustain_control_changes used as the input of a second application."""
    try:
        from note_seq import sequences_lib as sl
        out = _call(sl, nsio.to_proto(inp['desc']), inp)
        return {'desc': _desc_of(out), 'ctl': inp['ctl'], 'call': inp.get('call', 'kw'), 'mode': 'two-step'}
    except Exception:  # noqa
        return None


def _exhaustive_small():
    """Two same-pitch notes and two pedal events on a 4-point grid, all storage orders: every timeline shape."""
    out = []
    grid = range(4)
    spans = [(s, e) for s in grid for e in grid if s <= e]
    for (a, b) in itertools.product(spans, spans):
        for (t1, t2) in itertools.product(grid, grid):
            for (v1, v2) in ((127, 0), (0, 127), (127, 127)):
                out.append(_mk('sustain', _small([(60, a[0], a[1]), (60, b[0], b[1])], [(t1, v1), (t2, v2)])))
    # three same-pitch notes (twins, zero-length notes, chains of removals) under a few pedal timelines
    spans3 = [(s, e) for s in range(3) for e in range(3) if s <= e]
    for abc in itertools.product(spans3, repeat=3):
        for ped in ([(0, 127)], [(0, 127), (1, 0)], [(1, 127)], [(0, 127), (1, 0), (1, 127)]):
            out.append(_mk('sustain', _small([(60, x[0], x[1]) for x in abc], ped)))
    return out


def cases(rng, tier, n=None):
    thorough = tier == 'thorough'
    total = 3000 if not thorough else 150000
    if n is not None:
        total = n
    out = []
    modes = ['clean'] * 10 + ['free'] * 6 + ['nopedal-clean', 'nopedal-free', 'quant']
    for k in range(total):
        mode = modes[k % len(modes)]
        c = gen_desc(rng, mode)
        c['mode'] = mode
        out.append(_mk('sustain', c))
        # the Gallina specification spec_notes (op 3 of Run/C14.v) against the implementation, inside the quantifier
        if mode == 'clean' and k % 2 == 0 and in_quantifier(c['desc']):
            out.append(_mk('spec', c))
        if k % 9 == 4 and mode in ('clean', 'free'):
            t = _two_step(c)
            if t is not None:
                out.append(_mk('sustain', t))
    if thorough and n is None:
        ex = _exhaustive_small()
        out += ex
        out += [_mk('spec', c['input']) for c in ex if in_quantifier(c['input']['desc'])]
    return out


# ---------------------------------------------------------------- implementation
def _rows(ns):
    return [[n.pitch, n.velocity, nsio.f2t(n.start_time), nsio.f2t(n.end_time), n.instrument, n.program,
             int(n.is_drum), n.quantized_start_step, n.quantized_end_step, nsio.note_rest(n)] for n in ns.notes]


def _call(sl, ns, a):
    how = a.get('call', 'default' if a['ctl'] == 64 else 'kw')
    if how == 'default' and a['ctl'] == 64:
        return sl.apply_sustain_control_changes(ns)
    if how == 'pos':
        return sl.apply_sustain_control_changes(ns, a['ctl'])
    return sl.apply_sustain_control_changes(ns, sustain_control_number=a['ctl'])


def impl(case):
    from note_seq import sequences_lib as sl
    a = case['input']
    ns = nsio.to_proto(a['desc'])
    before = ns.SerializeToString(deterministic=True)
    try:
        out = _call(sl, ns, a)
    except Exception as e:  # noqa
        # rejection path: the argument must be untouched when the error is raised
        return ['EXC', type(e).__name__, int(ns.SerializeToString(deterministic=True) == before)]
    input_same = int(ns.SerializeToString(deterministic=True) == before)
    o2 = copy.deepcopy(out)
    i2 = copy.deepcopy(ns)
    for m in (o2, i2):
        m.ClearField('notes')
        m.ClearField('total_time')
    others_same = int(o2.SerializeToString(deterministic=True) == i2.SerializeToString(deterministic=True))
    fresh = int(out is not ns)
    rows, total = _rows(out), nsio.f2t(out.total_time)
    # state across calls / aliasing: same call again on the same argument gives an equal, distinct object; wrecking
    # that second result changes neither the argument nor the first result (kept alive meanwhile)
    snap = out.SerializeToString(deterministic=True)
    try:
        again = _call(sl, ns, a)
        twice = int(again.SerializeToString(deterministic=True) == snap and again is not out and again is not ns)
        for n in again.notes:
            n.end_time += 1.0
            n.pitch = 0
        del again.control_changes[:]
        del again.notes[:]
        again.total_time = -1.0
        alias_free = int(ns.SerializeToString(deterministic=True) == before and
                         out.SerializeToString(deterministic=True) == snap)
    except Exception:  # noqa
        twice, alias_free = 0, 0
    return ['OK', rows, total, [others_same, input_same, fresh, twice, alias_free]]


# ---------------------------------------------------------------- model
def model_input(case):
    a = case['input']
    return [3 if case['op'] == 'spec' else 1, a['ctl'], nsio.to_wire(nsio.to_proto(a['desc']))]


def model_output(case, m):
    if m[0] == -1000:
        return ['EXC', 'QuantizationStatusError', 1]
    notes, total = m[1]
    return ['OK', notes, total, [1, 1, 1, 1, 1]]


def equal(case, a, b):
    if a[0] != b[0]:
        return False
    if a[0] != 'OK':
        return a == b
    if case['op'] == 'spec':           # the specification speaks about the notes only
        return a[1] == b[1]
    return sorted(a[1]) == sorted(b[1]) and a[2:] == b[2:]


# ---------------------------------------------------------------- oracle: the statement of C14 on the implementation
def _spec_end(k, n, notes, ccs, ctl, last):
    """Declarative end time of note k (the property text; same definition as Model/Sustain.v spec_end)."""
    if n[6]:
        return n[3]
    e = n[3]
    pe = [c for c in ccs if c[2] == ctl and c[4] == n[4]]
    upto = [c for c in pe if c[0] <= e]
    if not upto:
        return e
    m = max(c[0] for c in upto)
    if any(c[0] == m and c[3] < 64 for c in pe):
        return e
    cands = [c[0] for c in pe if c[3] < 64 and c[0] > e]
    cands += [x[2] for j, x in enumerate(notes) if j != k and not x[6] and x[4] == n[4] and x[0] == n[0] and x[2] >= e]
    return min(cands) if cands else last


def in_quantifier(d):
    ns = d['notes']
    for i in range(len(ns)):
        if not ns[i][6] and ns[i][2] > ns[i][3]:
            return False
        for j in range(i + 1, len(ns)):
            if _clash(ns[i], ns[j]):
                return False
    return True


def oracle(case, io):
    a = case['input']
    d = a['desc']
    ctl = a['ctl']
    quantized = d.get('spq', 0) > 0 or d.get('sps', 0) > 0
    if io[0] == 'EXC':
        if quantized and io[1] == 'QuantizationStatusError':
            if len(io) > 2 and io[2] != 1:
                return {'kind': 'argument-modified-before-raising'}
            return None
        return {'kind': 'unexpected-exception', 'exc': io[1], 'quantized': quantized}
    if io[0] != 'OK':
        return {'kind': 'harness-problem', 'detail': str(io)[:200]}
    if quantized:
        return {'kind': 'quantized-input-accepted'}
    out, total, flags = io[1], io[2], io[3]
    if flags[1] != 1:
        return {'kind': 'argument-modified'}
    if flags[0] != 1:
        return {'kind': 'other-field-changed'}
    if flags[2] != 1:
        return {'kind': 'result-is-not-a-copy'}
    if len(flags) > 3 and flags[3] != 1:
        return {'kind': 'second-call-on-same-argument-differs'}
    if len(flags) > 4 and flags[4] != 1:
        return {'kind': 'result-aliases-argument-or-earlier-result'}
    notes = d['notes']
    nd = lambda r: r[:3] + r[4:]           # everything but the end time
    # every returned note is an input note with (possibly) another end; drums are all there, unchanged
    pool = [nd(r) for r in notes]
    for r in out:
        if nd(r) in pool:
            pool.remove(nd(r))
        else:
            return {'kind': 'note-changed-other-than-end', 'note': r}
    if sorted(r for r in out if r[6]) != sorted(r for r in notes if r[6]):
        return {'kind': 'drum-note-changed'}
    # total_time covers every returned note whenever it covered every input note; it never shrinks
    covered_in = all(r[3] <= d['total'] for r in notes)
    if covered_in:
        late = [r for r in out if r[3] > total]
        if late:
            return {'kind': 'total-time-does-not-cover-note', 'note_is_drum': int(bool(late[0][6])),
                    'note_end': late[0][3], 'total_time': total, 'input_total_time': d['total']}
    ordered = all(r[6] or r[2] <= r[3] for r in notes)
    sus = [c for c in d['ccs'] if c[2] == ctl]
    # instruments without a pedal-down event are unchanged (needs start <= end); no pedal-down at all: identity
    if ordered and len(out) == len(notes):
        for i in set(r[4] for r in notes):
            if not any(c[4] == i and c[3] >= 64 for c in sus):
                if [r for r in out if r[4] == i] != [r for r in notes if r[4] == i]:
                    return {'kind': 'instrument-without-pedal-changed', 'instrument': i}
    if ordered and not any(c[3] >= 64 for c in sus):
        if out != notes or total != d['total']:
            return {'kind': 'no-pedal-not-identity'}
    if not in_quantifier(d):
        return None
    # inside the quantifier: nothing is removed, order kept, every end is exactly the declarative one
    if len(out) != len(notes):
        return {'kind': 'note-removed', 'n_in': len(notes), 'n_out': len(out)}
    times = [r[2] for r in notes if not r[6]] + [r[3] for r in notes if not r[6]] + [c[0] for c in sus]
    last = max(times) if times else 0
    for k, (r, o) in enumerate(zip(notes, out)):
        if nd(r) != nd(o):
            return {'kind': 'note-order-changed', 'index': k}
        want = _spec_end(k, r, notes, d['ccs'], ctl, last)
        if o[3] != want:
            return {'kind': 'end-time-differs-from-specification', 'index': k, 'note': r, 'got': o[3], 'want': want,
                    'direction': 'short' if o[3] < want else 'long'}
        if o[3] < r[3]:
            return {'kind': 'note-shortened', 'index': k}
    return None


def nontrivial(case, io):
    if io[0] != 'OK':
        return io[0] == 'EXC'
    return sorted(io[1]) != sorted(case['input']['desc']['notes'])


def shrink(case):
    a = case['input']
    for d in nsio.shrink_desc(a['desc']):
        c = dict(a)
        c['desc'] = d
        yield {'op': case['op'], 'input': c}
    d = a['desc']
    ends = [n[3] for n in d['notes']]
    if ends and d['total'] != max(ends):
        c = dict(a)
        c['desc'] = dict(d)
        c['desc']['total'] = max(ends)
        yield {'op': case['op'], 'input': c}


META = {
    'level_text': ('Theorems about the Gallina model for ALL note lists, pedal timelines and total_time values (induction over '
                   'the stably sorted event list, no bound on sizes): every note keeps every field but its end, drum notes and '
                   'instruments without a pedal-down event are untouched, without any pedal-down event the result is the input, '
                   'total_time never shrinks and covers every returned note, quantized input is rejected; and for every input in '
                   'the property\'s quantifier (start <= end, no same-pitch overlap or simultaneous start on an instrument) the '
                   'returned notes are EXACTLY the declarative specification (sustain_refines_spec: each end is the original one '
                   'if the instrument\'s pedal is up at that time, else the first later release / first restrike of the pitch at '
                   'or after it / the last event), proved by a simulation invariant.  The model is tied to the code by a '
                   'differential run, and the same specification is evaluated on the implementation\'s output for every case.'),
    'level_note': ('Trusted: Coq kernel; the hand-written model Model/Sustain.v (tied to the code by correspondence only: '
                   'sort stability, protobuf value equality in list.remove / RepeatedCompositeContainer.remove, the event-type '
                   'constants regenerated from the module each run); exact tick arithmetic stands for float comparisons on the '
                   'tick grid; deep-copy and argument non-mutation are tested, not proved.'),
}
