"""C04 — ABC tunes parse to the pitches, durations, keys and repeats they notate."""
from vt import coqgen as G

ID = 'C04'


# ---------------------------------------------------------------- regenerated tables
def _pairs_zz(name, d):
    if not isinstance(d, dict):
        raise TypeError('%s: dict expected' % name)
    rows = []
    for k, v in d.items():
        if not (isinstance(k, str) and len(k) == 1):
            raise TypeError('%s: 1-char key expected, got %r' % (name, k))
        rows.append('(%s, %s)' % (G.z(ord(k)), G.z(v)))
    return 'Definition %s : list (Z * Z) :=\n  [%s].\n' % (name, ';\n   '.join(rows))


def _pairs_sz(name, d):
    rows = []
    for k, v in d.items():
        rows.append('(%s, %s)  (* %s *)' % (G.string(k), G.z(v), k.replace('*', '')))
    body = ''
    for i, r in enumerate(rows):
        head, _, com = r.partition('  (*')
        body += '   ' + head + (';' if i + 1 < len(rows) else '') + '  (*' + com + '\n'
    return 'Definition %s : list (list Z * Z) :=\n  [\n%s  ].\n' % (name, body)


def gen_coq():
    from note_seq import abc_parser, constants
    from note_seq.protobuf import music_pb2
    T = abc_parser.ABCTune
    KS = music_pb2.NoteSequence.KeySignature
    s = G.HEADER
    s += _pairs_zz('ABC_NOTE_TO_MIDI', T.ABC_NOTE_TO_MIDI)
    if not isinstance(T.SIG_TO_KEYS, dict):
        raise TypeError('SIG_TO_KEYS')
    rows = []
    for sig, keys in T.SIG_TO_KEYS.items():
        if not isinstance(keys, (list, tuple)):
            raise TypeError('SIG_TO_KEYS row')
        rows.append('(%s, [%s])' % (G.z(sig), '; '.join(G.string(k) for k in keys)))
    s += 'Definition SIG_TO_KEYS : list (Z * list (list Z)) :=\n  [%s].\n' % ';\n   '.join(rows)
    s += _pairs_sz('KEY_TO_SIG', T.KEY_TO_SIG)
    s += _pairs_sz('KEY_TO_PROTO_KEY', {k: int(v) for k, v in T.KEY_TO_PROTO_KEY.items()})
    s += G.defstring('SHARPS_ORDER', T.SHARPS_ORDER)
    s += G.defstring('FLATS_ORDER', T.FLATS_ORDER)
    for nm in ('MAJOR', 'MINOR', 'MIXOLYDIAN', 'DORIAN', 'PHRYGIAN', 'LYDIAN', 'LOCRIAN'):
        s += G.defz('MODE_' + nm, int(getattr(KS, nm)))
    s += G.defz('MIN_MIDI_PITCH', constants.MIN_MIDI_PITCH)
    s += G.defz('MAX_MIDI_PITCH', constants.MAX_MIDI_PITCH)
    s += G.defz('DEFAULT_QPM', constants.DEFAULT_QUARTERS_PER_MINUTE)
    s += G.defz('DEFAULT_VELOCITY', T.DECORATION_TO_VELOCITY['!mf!'])
    return s
