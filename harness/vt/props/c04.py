"""C04 — ABC tunes parse to the pitches, durations, keys and repeats they notate."""
from vt import coqgen as G

ID = 'C04'


# ---------------------------------------------------------------- regenerated tables
def _pairs_zz(name, d):
    if not isinstance(d, dict):
        raise TypeError('%s: dict expected' % name)
    rows = []
    for k, v in d.items():
        if not (isinstance(k, str) and len(k) == 1):
            raise TypeError('%s: 1-char key expected, got %r' % (name, k))
        rows.append('(%s, %s)' % (G.z(ord(k)), G.z(v)))
    return 'Definition %s : list (Z * Z) :=\n  [%s].\n' % (name, ';\n   '.join(rows))


def _pairs_sz(name, d):
    rows = []
    for k, v in d.items():
        rows.append('(%s, %s)  (* %s *)' % (G.string(k), G.z(v), k.replace('*', '')))
    body = ''
    for i, r in enumerate(rows):
        head, _, com = r.partition('  (*')
        body += '   ' + head + (';' if i + 1 < len(rows) else '') + '  (*' + com + '\n'
    return 'Definition %s : list (list Z * Z) :=\n  [\n%s  ].\n' % (name, body)


def gen_coq():
    from note_seq import abc_parser, constants
    from note_seq.protobuf import music_pb2
    T = abc_parser.ABCTune
    KS = music_pb2.NoteSequence.KeySignature
    s = G.HEADER
    s += _pairs_zz('ABC_NOTE_TO_MIDI', T.ABC_NOTE_TO_MIDI)
    if not isinstance(T.SIG_TO_KEYS, dict):
        raise TypeError('SIG_TO_KEYS')
    rows = []
    for sig, keys in T.SIG_TO_KEYS.items():
        if not isinstance(keys, (list, tuple)):
            raise TypeError('SIG_TO_KEYS row')
        rows.append('(%s, [%s])' % (G.z(sig), '; '.join(G.string(k) for k in keys)))
    s += 'Definition SIG_TO_KEYS : list (Z * list (list Z)) :=\n  [%s].\n' % ';\n   '.join(rows)
    s += _pairs_sz('KEY_TO_SIG', T.KEY_TO_SIG)
    s += _pairs_sz('KEY_TO_PROTO_KEY', {k: int(v) for k, v in T.KEY_TO_PROTO_KEY.items()})
    s += G.defstring('SHARPS_ORDER', T.SHARPS_ORDER)
    s += G.defstring('FLATS_ORDER', T.FLATS_ORDER)
    for nm in ('MAJOR', 'MINOR', 'MIXOLYDIAN', 'DORIAN', 'PHRYGIAN', 'LYDIAN', 'LOCRIAN'):
        s += G.defz('MODE_' + nm, int(getattr(KS, nm)))
    s += G.defz('MIN_MIDI_PITCH', constants.MIN_MIDI_PITCH)
    s += G.defz('MAX_MIDI_PITCH', constants.MAX_MIDI_PITCH)
    s += G.defz('DEFAULT_QPM', constants.DEFAULT_QUARTERS_PER_MINUTE)
    s += G.defz('DEFAULT_VELOCITY', T.DECORATION_TO_VELOCITY['!mf!'])
    return s


# =====================================================================================
# Case schema (JSON).  input = {'sections': [section, ...]}; section = [line, ...]
#   line  = ['f', field] | ['m', [token, ...]]
#   field = ['nop', name, text] | ['X', n] | ['M', kind, n, d, text]  kind: C, C|, none, frac, bad
#         | ['L', n, d, short] | ['Q', kind, [[n, d], ...], rate, text]  kind: frac, bare, string
#         | ['K', tonic, sep, mode, exp, [[acc, letter], ...]] | ['Kbad', text] | ['P', text] | ['V', text]
#   token = ['n', acc, letter, octs, num, slashes, den, glue] | ['bar', lc, barstr, rc] | ['colons', n]
#         | ['br', '>' or '<', k] | ['in', field] | ['nop', text] | ['un', kind, text]
#   acc: '', '^', '_', '=', '^^', '__'
# Tokens are rendered separated by one space (a glued note follows a note without a space).
# =====================================================================================
import fractions
import math

Fr = fractions.Fraction
ACCS = ['', '^', '_', '=', '^^', '__']
UNSUP = {'chord': 0, 'tuplet': 1, 'variant': 2, 'invalid': 3}
UNSUP_EXC = {'chord': 'ChordError', 'tuplet': 'TupletError', 'variant': 'VariantEndingError',
             'invalid': 'InvalidCharacterError'}
EXN = {0: 'ABCParseError', 1: 'MultiVoiceError', 2: 'RepeatParseError', 3: 'VariantEndingError', 4: 'PartError',
       5: 'InvalidCharacterError', 6: 'ChordError', 7: 'DuplicateReferenceNumberError', 8: 'TupletError',
       20: 'KeyError', 21: 'ZeroDivisionError', 22: 'ValueError', 23: 'IndexError', 24: 'TypeError'}
FAMILY = set(EXN[k] for k in range(0, 9))


# ---------------------------------------------------------------- printer
def render_field(f):
    k = f[0]
    if k == 'nop':
        return '%s:%s' % (f[1], f[2])
    if k == 'X':
        return 'X:%d' % f[1]
    if k == 'M':
        if f[1] == 'frac':
            return 'M:%d/%d' % (f[2], f[3])
        return 'M:' + f[4]
    if k == 'L':
        return 'L:%d' % f[1] if (f[3] and f[2] == 1) else 'L:%d/%d' % (f[1], f[2])
    if k == 'Q':
        if f[1] == 'frac':
            return 'Q:' + f[4] + ' '.join('%d/%d' % (n, d) for n, d in f[2]) + '=%d' % f[3]
        if f[1] == 'bare':
            return 'Q:' + f[4] + '%d' % f[3]
        return 'Q:' + f[4]
    if k == 'K':
        s = 'K:' + f[1] + f[2] + f[3]
        if f[4]:
            s += ' exp'
        for a, l in f[5]:
            s += ' ' + a + l
        return s
    if k in ('Kbad', 'P', 'V'):
        return {'Kbad': 'K:', 'P': 'P:', 'V': 'V:'}[k] + f[1]
    raise ValueError(f)


def render_token(t):
    k = t[0]
    if k == 'n':
        return t[1] + t[2] + t[3] + ('' if t[4] is None else str(t[4])) + '/' * t[5] + ('' if t[6] is None else str(t[6]))
    if k == 'bar':
        return ':' * t[1] + t[2] + ':' * t[3]
    if k == 'colons':
        return ':' * t[1]
    if k == 'br':
        return t[1] * t[2]
    if k == 'in':
        return '[' + render_field(t[1]) + ']'
    if k in ('nop',):
        return t[1]
    if k == 'un':
        return t[2]
    raise ValueError(t)


def render_line(l):
    if l[0] == 'f':
        return render_field(l[1])
    out = ''
    prev = None
    for t in l[1]:
        s = render_token(t)
        if out and not (t[0] == 'n' and len(t) > 7 and t[7] and prev is not None and prev[0] == 'n'):
            out += ' '
        out += s
        prev = t
    return out


def render_book(secs, style=None):
    """style (all lexical, invisible to the token-level model): crlf line ends, indented lines with trailing blanks,
    %-comments (own line and trailing), several / whitespace-only separator lines, leading blank lines"""
    st = style or {}
    nl = '\r\n' if st.get('crlf') else '\n'
    ind = {0: '', 1: '  ', 2: '\t'}[st.get('indent', 0)]
    parts = []
    for sec in secs:
        lines = [render_line(l) for l in sec if not (l[0] == 'm' and not l[1])]
        if st.get('comment'):
            out = []
            for k, ln in enumerate(lines):
                out.append(ln + (' %% c%d' % k if k % 2 == 0 else ''))
                if k == 0:
                    out.append('% a comment line')
            lines = out
        parts.append(nl.join(ind + ln + (' ' if ind else '') for ln in lines))
    blank = st.get('blank', 0)
    sep = nl + (('  ' + nl) if blank == 2 else '') + (nl * (2 if blank == 1 else 1))
    return (nl if blank else '') + sep.join(parts) + nl


def _style(case):
    return case['input'].get('style')


# ---------------------------------------------------------------- wire
def wire_field(f):
    k = f[0]
    if k == 'nop':
        return [0]
    if k == 'X':
        return [1, f[1]]
    if k == 'M':
        return [2, {'C': 0, 'C|': 1, 'none': 2, 'frac': 3, 'bad': 4}[f[1]], f[2], f[3]]
    if k == 'L':
        return [3, f[1], f[2]]
    if k == 'Q':
        return [4, {'frac': 0, 'bare': 1, 'string': 2}[f[1]], [[n, d] for n, d in f[2]], f[3]]
    if k == 'K':
        return [5, f[1], f[3], 1 if f[4] else 0, [[ACCS.index(a), ord(l)] for a, l in f[5]]]
    if k == 'P':
        return [6]
    if k == 'V':
        return [7]
    if k == 'Kbad':
        return [8]
    raise ValueError(f)


def wire_token(t):
    k = t[0]
    if k == 'n':
        return [0, ACCS.index(t[1]), ord(t[2]), [1 if c == "'" else 0 for c in t[3]],
                [] if t[4] is None else [t[4]], t[5], [] if t[6] is None else [t[6]]]
    if k == 'bar':
        return [1, t[1], len(t[2]), t[3]]
    if k == 'colons':
        return [2, t[1]]
    if k == 'br':
        return [3, 1 if t[1] == '>' else 0, t[2]]
    if k == 'in':
        return [4, wire_field(t[1])]
    if k == 'nop':
        return [5]
    if k == 'un':
        return [6, UNSUP[t[1]]]
    raise ValueError(t)


def wire_line(l):
    if l[0] == 'f':
        return [0, wire_field(l[1])]
    return [1, [wire_token(t) for t in l[1]]]


def model_input(case):
    return [1, [[wire_line(l) for l in sec] for sec in case['input']['sections']]]


def _q(x):
    return ['Q', x[0], x[1]]


def _mnote(n):
    return [n[0], _q(n[1]), _q(n[2])]


def _mtune(t):
    ref, notes, tempos, tsigs, ksigs, sects, groups, total, exp = t
    return [ref, [_mnote(n) for n in notes], [[_q(a), _q(b)] for a, b in tempos],
            [[_q(a), n, d] for a, n, d in tsigs], [[_q(a), k, m] for a, k, m in ksigs],
            [[_q(a), i] for a, i in sects], [[[i], n] for i, n in groups], _q(total),
            (['OK', exp[1], sorted([_mnote(n) for n in exp[2]], key=_note_key)] if exp[0] == 0 else ['EXC', EXN[exp[1]]])]


def _val(x):
    if x[0] == 'Q':
        return Fr(x[1], x[2])
    return float.fromhex(x[1])


def _note_key(n):
    return (float(_val(n[1])), n[0], float(_val(n[2])))


def model_output(case, m):
    if m[0] == 1:
        return ['RAISED', EXN[m[1]]]
    out = ['OK', [_mtune(t) for t in m[1]], [EXN[e] for e in m[2]]]
    EXPANSION_CHECKS[0] += sum(1 for f in m[3] if f == 1)
    EXPANSION_CHECKS[1] += sum(1 for f in m[3] if f == 2)
    if any(f == 2 for f in m[3]):
        # model-level statement abc_expansion_notes fails on this tune: make it a divergence
        out.append(['MODEL-EXPANDED-NOTES-DIFFER-FROM-UNROLLED-READING', m[3]])
    return out


EXPANSION_CHECKS = [0, 0]


# ---------------------------------------------------------------- implementation
def _f(x):
    return ['F', float(x).hex()]


def _canon_tune(ns):
    from note_seq import sequences_lib
    before = ns.SerializeToString(deterministic=True)
    try:
        ex = sequences_lib.expand_section_groups(ns)
        exp = ['OK', [sa.section_id for sa in ex.section_annotations],
               sorted([[n.pitch, _f(n.start_time), _f(n.end_time)] for n in ex.notes], key=_note_key)]
        # two-step use: expanding the expansion changes nothing (it has no section groups left)
        ex2 = sequences_lib.expand_section_groups(ex)
        if [(n.pitch, n.start_time, n.end_time) for n in ex2.notes] != [(n.pitch, n.start_time, n.end_time) for n in ex.notes]:
            exp = ['EXC', 'EXPANSION-NOT-IDEMPOTENT']
    except Exception as e:  # noqa
        exp = ['EXC', type(e).__name__]
    if ns.SerializeToString(deterministic=True) != before:
        exp = ['EXC', 'EXPAND-MODIFIED-ITS-ARGUMENT']
    return [ns.reference_number,
            [[n.pitch, _f(n.start_time), _f(n.end_time)] for n in ns.notes],
            [[_f(t.time), _f(t.qpm)] for t in ns.tempos],
            [[_f(t.time), t.numerator, t.denominator] for t in ns.time_signatures],
            [[_f(k.time), int(k.key), int(k.mode)] for k in ns.key_signatures],
            [[_f(s.time), s.section_id] for s in ns.section_annotations],
            [[[x.section_id for x in g.sections], g.num_times] for g in ns.section_groups],
            _f(ns.total_time), exp]


def _parse_text(text):
    from note_seq import abc_parser
    try:
        tunes, excs = abc_parser.parse_abc_tunebook(text)
    except Exception as e:  # noqa
        return ['RAISED', type(e).__name__], None
    return ['OK', [_canon_tune(ns) for ns in tunes.values()], [type(e).__name__ for e in excs]], tunes


def impl(case):
    return _parse_text(render_book(case['input']['sections'], _style(case)))[0]


def _close(a, b):
    a, b = _val(a), _val(b)
    return abs(a - b) <= 1e-9 * max(1, abs(a), abs(b))


def _eq(a, b):
    if isinstance(a, list) and isinstance(b, list):
        if a and b and a[0] in ('F', 'Q') and b[0] in ('F', 'Q') and isinstance(a[0], str):
            return _close(a, b)
        return len(a) == len(b) and all(_eq(x, y) for x, y in zip(a, b))
    return a == b


def equal(case, a, b):
    return _eq(a, b)


# =====================================================================================
# The property, evaluated from the ABC 2.1 rules on the token description (oracle side).
# Nothing below looks at the model; it is the statement the theorems are about.
# =====================================================================================
LETTER_PC = {'C': 0, 'D': 2, 'E': 4, 'F': 5, 'G': 7, 'A': 9, 'B': 11}
LETTER_FIFTHS = {'F': -1, 'C': 0, 'G': 1, 'D': 2, 'A': 3, 'E': 4, 'B': 5}
SHARPS = 'FCGDAEB'
# mode -> (offset of the signature in fifths relative to the major key on the same tonic, proto enum name)
MODES = {'maj': (0, 'MAJOR'), 'ion': (0, 'MAJOR'), '': (0, 'MAJOR'), 'm': (-3, 'MINOR'), 'min': (-3, 'MINOR'),
         'aeo': (-3, 'MINOR'), 'mix': (-1, 'MIXOLYDIAN'), 'dor': (-2, 'DORIAN'), 'phr': (-4, 'PHRYGIAN'),
         'lyd': (1, 'LYDIAN'), 'loc': (-5, 'LOCRIAN')}
MODE_NAMES = {'MAJOR': ['', 'maj', 'major', 'ion', 'ionian'], 'MINOR': ['m', 'min', 'minor', 'aeo', 'aeolian'],
              'MIXOLYDIAN': ['mix', 'mixolydian'], 'DORIAN': ['dor', 'dorian'], 'PHRYGIAN': ['phr', 'phrygian'],
              'LYDIAN': ['lyd', 'lydian'], 'LOCRIAN': ['loc', 'locrian']}


def key_semantics(tonic, mode):
    """(signature in sharps, tonic pitch class, mode enum name) from the circle of fifths, or None."""
    if not tonic or tonic[0].upper() not in LETTER_PC or tonic[1:] not in ('', '#', 'b'):
        return None
    m = mode.lower()
    m3 = m[:3]
    if m3 not in MODES or (m3 == 'm' and m != 'm') or (m3 == '' and m != ''):
        return None
    off, name = MODES[m3]
    adj = {'': 0, '#': 1, 'b': -1}[tonic[1:]]
    sig = LETTER_FIFTHS[tonic[0].upper()] + 7 * adj + off
    if not -7 <= sig <= 7:
        return None
    return sig, (LETTER_PC[tonic[0].upper()] + adj) % 12, name


def sig_accidentals(sig):
    acc = {c: 0 for c in 'ABCDEFG'}
    for i in range(abs(sig)):
        if sig > 0:
            acc[SHARPS[i]] = 1
        else:
            acc[SHARPS[::-1][i]] = -1
    return acc


class Outside(Exception):
    """the tune is not in the supported subset (no claim about its content)"""


def note_multiplier(t):
    num, sl, den = t[4], t[5], t[6]
    if num is not None and num < 1 or den is not None and den < 1:
        raise Outside('non-positive length')
    if num is None and sl == 0 and den is None:
        return Fr(1)
    if num is None and den is None:
        return Fr(1, 2 ** sl)
    if num is None and sl == 1:
        return Fr(1, den)
    if num is not None and sl == 0 and den is None:
        return Fr(num)
    if num is not None and sl == 1:
        return Fr(num, den if den is not None else 2)
    raise Outside('length form')


def spec_tune(lines):
    """Expected observables of one tune of the supported subset, by the ABC 2.1 rules.
    Raises Outside if the tune is not in the subset.  Unsupported constructs are handled by the caller."""
    from note_seq.protobuf import music_pb2
    KS = music_pb2.NoteSequence.KeySignature
    ref = 0
    meters, keys, tempos = [], [], []
    unit = None
    hdr_tempo = None
    key_acc = sig_accidentals(0)
    bar_acc = {}
    t = Fr(0)
    qpm = Fr(120)
    notes = []            # [pitch, start, end]
    in_header = True
    # repeat structure: list of [first note index, times]; boundaries take effect only after some notes
    segs = []
    seg_start = 0
    open_rep = None
    any_boundary = False

    def field(f, inline):
        nonlocal ref, unit, hdr_tempo, key_acc, qpm
        k = f[0]
        if k == 'nop':
            return
        if k == 'X':
            ref = f[1]
        elif k == 'M':
            if f[1] == 'bad':
                raise Outside('meter')
            if f[1] == 'frac' and (f[2] < 1 or f[3] < 1):
                raise Outside('meter')
            if f[1] != 'none':
                n, d = {'C': (4, 4), 'C|': (2, 2)}.get(f[1], (f[2], f[3]))
                meters.append([t, n, d])
        elif k == 'L':
            if f[1] < 1 or f[2] < 1:
                raise Outside('unit length')
            unit = Fr(f[1], f[2])
        elif k == 'Q':
            if f[1] == 'string':
                return
            if f[3] < 1 or any(n < 1 or d < 1 for n, d in f[2]):
                raise Outside('tempo')
            beat = sum((Fr(n, d) for n, d in f[2]), Fr(0)) if f[1] == 'frac' else None
            if in_header:
                hdr_tempo = (beat, f[3])
            else:
                q = (beat if beat is not None else unit) * 4 * f[3]
                tempos.append([t, q])
                qpm = q
        elif k == 'K':
            sem = key_semantics(f[1], f[3])
            if sem is None:
                raise Outside('key')
            sig, pc, name = sem
            acc = sig_accidentals(0 if f[4] else sig)
            for a, l in f[5]:
                if a in ('^^', '__'):
                    raise Outside('double accidental in key')
                if a:
                    acc[l.upper()] = {'^': 1, '_': -1, '=': 0}[a]
            key_acc = acc
            keys.append([t, pc, int(getattr(KS, name))])
        else:
            raise Outside('field ' + k)

    def end_header():
        nonlocal unit, qpm, in_header
        if unit is None:
            if len(meters) > 1:
                raise Outside('several meters in the header')
            unit = Fr(1, 16) if meters and Fr(meters[0][1], meters[0][2]) < Fr(3, 4) else Fr(1, 8)
        if hdr_tempo is not None:
            beat, rate = hdr_tempo
            q = (beat if beat is not None else unit) * 4 * rate
            tempos.append([Fr(0), q])
            qpm = q
        in_header = False

    def boundary(times):
        """a section boundary: the notes since the previous boundary are played [times] times"""
        nonlocal seg_start, any_boundary
        any_boundary = True
        if len(notes) > seg_start:
            segs.append([seg_start, len(notes), times])
            seg_start = len(notes)
        elif times != 1:
            raise Outside('empty repeat body')

    for l in lines:
        if l[0] == 'f':
            field(l[1], False)
            continue
        if not l[1]:
            continue
        if in_header:
            end_header()
        pending = None          # broken rhythm waiting for its second note
        last_broken = -1        # index of the last note that took part in a broken pair
        prev_tok = None
        for tok in l[1]:
            k = tok[0]
            if k == 'n':
                if tok[1] in ('^^', '__'):
                    raise Outside('double accidental')
                letter = tok[2]
                name = letter.upper()
                pitch = 60 + LETTER_PC[name] + (12 if letter.islower() else 0)
                if tok[1]:
                    a = {'^': 1, '_': -1, '=': 0}[tok[1]]
                    bar_acc[name] = a
                elif name in bar_acc:
                    a = bar_acc[name]
                else:
                    a = key_acc[name]
                pitch += a + 12 * tok[3].count("'") - 12 * tok[3].count(',')
                if not 0 <= pitch <= 127:
                    raise Outside('pitch out of MIDI range')
                dur = unit * note_multiplier(tok) * 4 * 60 / qpm
                notes.append([pitch, t, t + dur])
                t += dur
                if pending is not None:
                    if prev_tok is None or prev_tok[0] != 'br' or len(notes) < 2:
                        raise Outside('broken rhythm not directly between two notes')
                    a, b = notes[-2], notes[-1]
                    if len(notes) - 2 == last_broken or a[2] - a[1] != b[2] - b[1]:
                        raise Outside('broken rhythm between notes of different lengths')
                    d = a[2] - a[1]
                    kk = pending[1]
                    move = d - d / 2 ** kk        # a>b: a dotted (k dots), b divided by 2^k
                    if pending[0] == '<':
                        move = -move
                    a[2] += move
                    b[1] += move
                    last_broken = len(notes) - 1
                    pending = None
            elif k == 'br':
                if pending is not None or prev_tok is None or prev_tok[0] != 'n':
                    raise Outside('broken rhythm placement')
                pending = (tok[1], tok[2])
            elif k in ('bar', 'colons'):
                bar_acc.clear()
                if k == 'colons':
                    if tok[1] % 2:
                        raise Outside('odd colons')
                    back = fwd = tok[1] // 2 + 1
                    dbl = False
                else:
                    back = tok[1] + 1 if tok[1] else None
                    fwd = tok[3] + 1 if tok[3] else None
                    dbl = len(tok[2]) >= 2
                if back is None and fwd is None:
                    if dbl and open_rep is None and t > 0:
                        boundary(1)
                else:
                    if open_rep is not None and back != open_rep:
                        raise Outside('mismatched repeat')
                    if back is not None:
                        if t == 0:
                            raise Outside('backward repeat at the start')
                        boundary(back)
                    else:
                        if t > 0:
                            boundary(1)
                        else:
                            any_boundary = True
                    open_rep = fwd
            elif k == 'in':
                field(tok[1], True)
            elif k == 'nop':
                pass
            else:
                raise Outside('unsupported token')
            prev_tok = tok
        if pending is not None:
            raise Outside('dangling broken rhythm')
    if in_header:
        end_header()
    if open_rep is not None:
        raise Outside('unterminated repeat')
    if len(notes) > seg_start:
        segs.append([seg_start, len(notes), 1])
    # playing order
    exp_notes = []
    ids = []
    off = Fr(0)
    for i, (a, b, times) in enumerate(segs):
        # the segment spans from the end of the previous segment to the end of its last note
        s0 = notes[a - 1][2] if a > 0 else Fr(0)
        s1 = notes[b - 1][2]
        for _ in range(times):
            for n in notes[a:b]:
                exp_notes.append([n[0], n[1] - s0 + off, n[2] - s0 + off])
            off += s1 - s0
            ids.append(i)
    return {'ref': ref, 'notes': notes, 'tempos': tempos, 'meters': meters, 'keys': keys,
            'total': notes[-1][2] if notes else Fr(0), 'expanded': exp_notes,
            'ids': ids if any_boundary and segs else [], 'nsegs': len(segs)}


def unsupported_of(lines):
    """[(path, exception class name)] of the unsupported constructs of a tune."""
    out = []
    for i, l in enumerate(lines):
        if l[0] == 'f':
            if l[1][0] in ('P', 'V'):
                out.append(((i,), 'PartError' if l[1][0] == 'P' else 'MultiVoiceError'))
        else:
            for j, t in enumerate(l[1]):
                if t[0] == 'un':
                    out.append(((i, j), UNSUP_EXC[t[1]]))
                elif t[0] == 'in' and t[1][0] in ('P', 'V'):
                    out.append(((i, j), 'PartError' if t[1][0] == 'P' else 'MultiVoiceError'))
    return out


def without(lines, path):
    out = []
    for i, l in enumerate(lines):
        if i == path[0]:
            if len(path) == 1:
                continue
            l = ['m', [t for j, t in enumerate(l[1]) if j != path[1]]]
        out.append(l)
    return out


def classify(lines):
    """('supported', spec) | ('unsupported', ExcName) | ('outside', why)"""
    uns = unsupported_of(lines)
    try:
        if not uns:
            return ('supported', spec_tune(lines))
        if len(uns) == 1:
            spec_tune(without(lines, uns[0][0]))
            return ('unsupported', uns[0][1])
        return ('outside', 'several unsupported constructs')
    except Outside as e:
        return ('outside', str(e))


def split_book(secs):
    secs = [s for s in secs if any(not (l[0] == 'm' and not l[1]) for l in s)]
    if len(secs) > 1 and not any(l[0] == 'f' and l[1][0] == 'X' for l in secs[0]):
        return secs[0], secs[1:]
    return [], secs


def _tclose(f, q):
    f = float.fromhex(f[1])
    return abs(f - q) <= 1e-9 * max(1, abs(q))


def compare_with_spec(tune, sp):
    """None or a description of the first deviation of a parsed tune (canonical form) from the rules."""
    ref, notes, tempos, tsigs, ksigs, sects, groups, total, exp = tune
    if ref != sp['ref']:
        return {'what': 'reference-number', 'got': ref, 'expected': sp['ref']}
    if len(notes) != len(sp['notes']):
        return {'what': 'note-count', 'got': len(notes), 'expected': len(sp['notes'])}
    for i, (g, e) in enumerate(zip(notes, sp['notes'])):
        if g[0] != e[0]:
            return {'what': 'pitch', 'note': i, 'got': g[0], 'expected': e[0]}
        if not _tclose(g[1], e[1]):
            return {'what': 'onset', 'note': i, 'got': float.fromhex(g[1][1]), 'expected': float(e[1])}
        if not _tclose(g[2], e[2]):
            return {'what': 'duration', 'note': i, 'got_end': float.fromhex(g[2][1]), 'expected_end': float(e[2])}
    if len(tempos) != len(sp['tempos']) or not all(_tclose(g[0], e[0]) and _tclose(g[1], e[1])
                                                   for g, e in zip(tempos, sp['tempos'])):
        return {'what': 'tempo', 'got': [[float.fromhex(a[1]), float.fromhex(b[1])] for a, b in tempos],
                'expected': [[float(a), float(b)] for a, b in sp['tempos']]}
    if len(tsigs) != len(sp['meters']) or not all(_tclose(g[0], e[0]) and g[1:] == e[1:]
                                                  for g, e in zip(tsigs, sp['meters'])):
        return {'what': 'meter', 'got': [[float.fromhex(g[0][1])] + g[1:] for g in tsigs],
                'expected': [[float(e[0])] + e[1:] for e in sp['meters']]}
    if len(ksigs) != len(sp['keys']) or not all(_tclose(g[0], e[0]) and g[1:] == e[1:]
                                                for g, e in zip(ksigs, sp['keys'])):
        return {'what': 'key-or-mode', 'got': [[float.fromhex(g[0][1])] + g[1:] for g in ksigs],
                'expected': [[float(e[0])] + e[1:] for e in sp['keys']]}
    if not _tclose(total, sp['total']):
        return {'what': 'total-time', 'got': float.fromhex(total[1]), 'expected': float(sp['total'])}
    if exp[0] != 'OK':
        return {'what': 'expansion-raises', 'exception': exp[1]}
    en = sorted(sp['expanded'], key=lambda n: (n[1], n[0]))
    if len(exp[2]) != len(en):
        return {'what': 'repeat-expansion-note-count', 'got': len(exp[2]), 'expected': len(en),
                'got_ids': exp[1], 'expected_ids': sp['ids']}
    for i, (g, e) in enumerate(zip(exp[2], en)):
        if g[0] != e[0] or not _tclose(g[1], e[1]) or not _tclose(g[2], e[2]):
            return {'what': 'repeat-expansion-order', 'note': i, 'got': [g[0], float.fromhex(g[1][1])],
                    'expected': [e[0], float(e[1])], 'got_ids': exp[1], 'expected_ids': sp['ids']}
    if exp[1] != sp['ids'] and not (exp[1] == [] and sp['nsegs'] <= 1):
        return {'what': 'section-order', 'got_ids': exp[1], 'expected_ids': sp['ids']}
    return None


OUTSIDE_ESCAPES = {}


def extra_evidence():
    return {'foreign_exceptions_outside_the_quantified_grammar': dict(OUTSIDE_ESCAPES),
            'model_expanded_equals_unrolled_reading_tunes': EXPANSION_CHECKS[0],
            'model_expanded_differs_from_unrolled_reading_tunes': EXPANSION_CHECKS[1]}


def oracle(case, io):
    secs = case['input']['sections']
    header, tunes = split_book(secs)
    alone = []
    cls = []
    for i, tn in enumerate(tunes):
        r, _ = _parse_text(render_book(([header] if header else []) + [tn], _style(case)))
        alone.append(r)
        cls.append(classify(header + tn))
        txt = render_book([header + tn])
        if r[0] == 'RAISED':
            if cls[-1][0] == 'outside':
                # outside the quantified grammar (K:G#, L:1/0, Q:0, A//3 ...): no claim; counted for the evidence
                OUTSIDE_ESCAPES[r[1]] = OUTSIDE_ESCAPES.get(r[1], 0) + 1
                return None
            return {'kind': 'foreign-exception-escapes', 'exception': r[1], 'tune': i, 'class': cls[-1][0], 'abc': txt}
        c = cls[-1]
        if c[0] == 'supported':
            if r[2]:
                return {'kind': 'supported-tune-rejected', 'exception': r[2][0], 'tune': i, 'abc': txt}
            if len(r[1]) != 1:
                return {'kind': 'supported-tune-not-returned', 'returned': len(r[1]), 'tune': i, 'abc': txt}
            d = compare_with_spec(r[1][0], c[1])
            if d:
                d.update({'kind': 'tune-differs-from-abc-rules', 'tune': i, 'abc': txt})
                return d
        elif c[0] == 'unsupported':
            if r[2] != [c[1]] or r[1]:
                return {'kind': 'unsupported-construct-not-reported', 'expected': c[1], 'got': r[2], 'tune': i, 'abc': txt}
        else:
            if len(r[1]) == 1 and r[1][0][8][0] != 'OK':
                return {'kind': 'expansion-raises', 'exception': r[1][0][8][1], 'tune': i, 'class': 'outside', 'abc': txt}
    # isolation: the tunebook result is the per-tune results put together
    exp_tunes, exp_excs, seen, dup = [], [], set(), False
    for r in alone:
        if r[2]:
            exp_excs.append(r[2][0])
        elif not r[1]:
            continue
        else:
            if r[1][0][0] in seen:
                dup = True
                break
            seen.add(r[1][0][0])
            exp_tunes.append(r[1][0])
    if dup:
        if io != ['RAISED', 'DuplicateReferenceNumberError']:
            return {'kind': 'duplicate-reference-number-not-raised', 'got': io[0]}
        return None
    if io[0] == 'RAISED':
        return {'kind': 'foreign-exception-escapes', 'exception': io[1], 'tune': None, 'abc': render_book(secs)}
    if io[2] != exp_excs:
        return {'kind': 'exception-list-differs', 'got': io[2], 'expected': exp_excs}
    if io[1] != exp_tunes:
        return {'kind': 'tune-result-depends-on-other-tunes', 'refs_got': [t[0] for t in io[1]],
                'refs_expected': [t[0] for t in exp_tunes]}
    return state_checks(case, io, header, tunes, exp_tunes, exp_excs)


def _expected_key(f):
    """(accidentals dict, key, mode) the ABC rules give a K: field, or None when it is outside the subset"""
    from note_seq.protobuf import music_pb2
    sem = key_semantics(f[1], f[3])
    if sem is None or any(a in ('^^', '__') for a, _ in f[5]):
        return None
    sig, pc, name = sem
    acc = sig_accidentals(0 if f[4] else sig)
    for a, l in f[5]:
        if a:
            acc[l.upper()] = {'^': 1, '_': -1, '=': 0}[a]
    return acc, pc, int(getattr(music_pb2.NoteSequence.KeySignature, name))


def state_checks(case, io, header, tunes, exp_tunes, exp_excs):
    """(B) of the audit: the parser keeps no state between calls and hands out no shared objects"""
    from note_seq import abc_parser
    secs = case['input']['sections']
    text = render_book(secs, _style(case))
    # (i) the same call twice; (iii) damage everything the first call returned, then call again; (iv) the objects
    # returned by the first call are re-observed after all the later calls
    first, objs = _parse_text(text)
    if first != io:
        return {'kind': 'same-call-twice-differs', 'abc': text}
    snapshot = [ns.SerializeToString(deterministic=True) for ns in objs.values()]
    again, objs2 = _parse_text(text)
    for ns in objs2.values():
        del ns.notes[:]
        for k in ns.key_signatures:
            k.key = (k.key + 5) % 12
        ns.tempos.add(qpm=1.0)
        ns.section_groups.add(num_times=7)
        ns.reference_number += 1000
    third, _ = _parse_text(text)
    if third != io:
        return {'kind': 'result-aliases-an-earlier-result', 'abc': text}
    # (ii) the tunes in reverse order: every tune still gets its own result
    if len(tunes) > 1 and (header or any(l[0] == 'f' and l[1][0] == 'X' for l in tunes[-1])):
        rev, _ = _parse_text(render_book(([header] if header else []) + tunes[::-1], _style(case)))
        if rev[0] != 'OK' or rev[2] != exp_excs[::-1] or rev[1] != exp_tunes[::-1]:
            return {'kind': 'result-depends-on-tune-order', 'abc': text}
    if [ns.SerializeToString(deterministic=True) for ns in objs.values()] != snapshot:
        return {'kind': 'earlier-result-changed-by-later-calls', 'abc': text}
    # parse_key called directly, repeatedly, its result damaged in between
    for sec in secs:
        for l in sec:
            fs = [l[1]] if l[0] == 'f' else [t[1] for t in l[1] if t[0] == 'in']
            for f in fs:
                if f[0] != 'K':
                    continue
                exp = _expected_key(f)
                if exp is None:
                    continue
                ktext = render_field(f)[2:]
                for attempt in (1, 2):
                    try:
                        acc, key, mode = abc_parser.ABCTune.parse_key(ktext)
                    except Exception as e:  # noqa
                        return {'kind': 'parse-key-raises', 'key': ktext, 'exception': type(e).__name__, 'call': attempt}
                    if (dict(acc), int(key), int(mode)) != (exp[0], exp[1], exp[2]):
                        return {'kind': 'parse-key-differs-from-abc-rules', 'key': ktext, 'call': attempt,
                                'got': [sorted(dict(acc).items()), int(key), int(mode)],
                                'expected': [sorted(exp[0].items()), exp[1], exp[2]]}
                    for k in list(acc):
                        acc[k] = 9      # damage the returned table
    # parse_abc_tunebook_file is the same function behind a file read
    if sum(len(sec) for sec in secs) % 5 == 0:
        import os
        d = os.path.join(os.environ.get('VERIF_ROOT', '/verif'), 'build', 'tmp')
        os.makedirs(d, exist_ok=True)
        fn = os.path.join(d, 'c04_%d.abc' % os.getpid())
        with open(fn, 'w', newline='') as fh:
            fh.write(text)
        try:
            try:
                t2, e2 = abc_parser.parse_abc_tunebook_file(fn)
                viafile = ['OK', [_canon_tune(ns) for ns in t2.values()], [type(e).__name__ for e in e2]]
            except Exception as e:  # noqa
                viafile = ['RAISED', type(e).__name__]
        finally:
            os.remove(fn)
        if viafile != io:
            return {'kind': 'file-variant-differs', 'abc': text}
    return None


def nontrivial(case, io):
    return io[0] == 'OK' and any(len(t[1]) >= 2 for t in io[1])


# =====================================================================================
# Generators
# =====================================================================================
def key_table():
    """every (tonic, mode suffix as written in the table) of the module's own SIG_TO_KEYS"""
    from note_seq import abc_parser
    out = []
    for sig, keys in abc_parser.ABCTune.SIG_TO_KEYS.items():
        for k in keys:
            n = 2 if len(k) > 1 and k[1] in '#b' else 1
            out.append((k[:n], k[n:]))
    return out


def mode_spellings(suffix):
    name = MODES[suffix.lower()[:3]][1]
    out = []
    for s in MODE_NAMES[name]:
        for v in (s, s.capitalize(), s.upper()):
            if v not in out:
                out.append(v)
    if 'M' in out:
        pass
    return out


NOP_TOKENS = ['"Am"', '"G7"', '"^slow"', '""', '.', '~', 'H', 'L', 'M', 'O', 'P', 'S', 'T', 'u', 'v', '(', ')']
BARS = ['|', '|', '|', '||', '[|', '|]', '[|]']
UN_TOKENS = [('chord', '[CEG]'), ('chord', '[ce]2'), ('tuplet', '(3'), ('tuplet', '(5'), ('variant', '|1'),
             ('variant', '[2'), ('variant', ':|2'), ('variant', '| 1'), ('invalid', 'z'), ('invalid', 'z2'),
             ('invalid', '!f!'), ('invalid', '{g}'), ('invalid', '+'), ('invalid', 'x'), ('invalid', '*')]


def gen_chord(rng):
    """a chord as CHORD_PATTERN defines it: '[' notes ']' with no blanks; the notes carry accidentals, octave
    marks and lengths like free-standing notes; optionally a length after the bracket"""
    marked = rng.random() < 0.6
    notes = []
    for i in range(rng.randint(2, 4)):
        acc = rng.choice(['', '', '', '^', '_', '='])
        letter = rng.choice('CDEFGABcdefgab')
        octs = ''
        if marked and (i == 0 or rng.random() < 0.6):
            octs = rng.choice([',', "'", ',,', "''", ",'"])
        ln = rng.choice(['', '', '', '2', '/', '/2', '3/2', '4'])
        notes.append(acc + letter + octs + ln)
    if marked and not any(("'" in x or ',' in x) for x in notes):
        notes[-1] = notes[-1][0:1] + "'" if notes[-1][0] not in '^_=' else notes[-1][0:2] + ','
    return '[' + ''.join(notes) + ']' + rng.choice(['', '', '2', '/2', '3', '3/2'])


def gen_unsup(rng):
    r = rng.random()
    if r < 0.4:
        return ('chord', gen_chord(rng))
    if r < 0.5:
        return ('tuplet', '(' + str(rng.randint(2, 9)) + rng.choice(['', '', ':2', ':2:3', '::2']))
    if r < 0.6:
        return ('variant', rng.choice(['|', '[', ':|', '|]', '||', '| ', ':| ']) + rng.choice(['1', '2', '1,3', '1-2', '3', '1,2,3']))
    return rng.choice(UN_TOKENS)


NOP_FIELDS = [('T', 'A tune'), ('C', 'Trad.'), ('R', 'reel'), ('N', 'a note'), ('O', 'Ireland'), ('Z', 'nobody'),
              ('S', 'source'), ('B', 'book'), ('r', 'remark'), ('I', 'linebreak $')]


def gen_key(rng, table, wild=False):
    tonic, suffix = rng.choice(table)
    mode = rng.choice(mode_spellings(suffix))
    sep = rng.choice(['', ' ']) if mode else ''
    if mode and mode[0] in 'bB#':
        sep = ' '
    eaccs = []
    exp = False
    r = rng.random()
    if r < 0.25:
        exp = rng.random() < 0.4
        for _ in range(rng.randint(1, 3)):
            a = rng.choice(['^', '_', '=', '^', '_', ''])
            if wild and rng.random() < 0.1:
                a = rng.choice(['^^', '__'])
            l = rng.choice('abcdefgABCDEFG')
            if a == '' and l in 'bB' and not eaccs and not mode and not exp:
                a = '='     # lexing hazard: 'K:A B' reads the B as a flat sign (KEY_PATTERN is IGNORECASE)
            eaccs.append([a, l])
    return ['K', tonic, sep, mode, exp, eaccs]


def gen_len(rng, wild=False):
    r = rng.random()
    if r < 0.45:
        return (None, 0, None)
    if r < 0.65:
        return (rng.choice([2, 3, 4, 6, 8, 1]), 0, None)
    if r < 0.75:
        return (None, rng.choice([1, 1, 2, 3]), None)
    if r < 0.85:
        return (None, 1, rng.choice([2, 3, 4, 8]))
    if r < 0.95:
        return (rng.choice([1, 3, 5, 7]), 1, rng.choice([2, 4, 3, 8]))
    if r < 0.98 or not wild:
        return (rng.choice([1, 3]), 1, None)
    return rng.choice([(3, 2, None), (None, 2, 3), (0, 0, None), (None, 1, 0), (3, 1, 0), (3, 2, 2)])


def gen_note(rng, wild=False, lo=False):
    acc = rng.choice(['', '', '', '', '^', '_', '='])
    if wild and rng.random() < 0.03:
        acc = rng.choice(['^^', '__'])
    letter = rng.choice('CDEFGABcdefgab')
    r = rng.random()
    octs = ''
    if r < 0.15:
        octs = "'" * rng.randint(1, 2) if letter.islower() else ',' * rng.randint(1, 2)
    elif r < 0.2:
        octs = rng.choice(["'", ',', ",'", "',", "''", ',,'])
    elif wild and r < 0.23:
        octs = rng.choice(["'''''", ',,,,,,'])
    n, s, d = gen_len(rng, wild)
    return ['n', acc, letter, octs, n, s, d, rng.random() < 0.3]


def gen_inline(rng, table, wild=False):
    r = rng.random()
    if r < 0.3:
        return gen_key(rng, table, wild)
    if r < 0.5:
        return ['L', 1, rng.choice([1, 2, 4, 8, 16, 32, 64]), False]
    if r < 0.7:
        return gen_tempo(rng)
    if r < 0.85:
        return gen_meter(rng)
    nm, tx = rng.choice(NOP_FIELDS)
    return ['nop', nm, tx]


def gen_tempo(rng):
    r = rng.random()
    rate = rng.choice([40, 60, 72, 80, 90, 96, 100, 108, 112, 120, 132, 144, 160, 180, 200, rng.randint(30, 240)])
    if r < 0.6:
        beats = [[rng.choice([1, 1, 3]), rng.choice([4, 8, 2, 4])]]
        if rng.random() < 0.15:
            beats.append([rng.choice([1, 3]), rng.choice([4, 8])])
        return ['Q', 'frac', beats, rate, rng.choice(['', '', '"Allegro" '])]
    if r < 0.93:
        return ['Q', 'bare', [], rate, rng.choice(['', '', 'C=', 'C ='])]
    return ['Q', 'string', [], 0, '"Andante"']


def gen_meter(rng):
    r = rng.random()
    if r < 0.15:
        return ['M', 'C', 4, 4, rng.choice(['C', 'c'])]
    if r < 0.25:
        return ['M', 'C|', 2, 2, rng.choice(['C|', 'c|'])]
    if r < 0.32:
        return ['M', 'none', 0, 0, rng.choice(['none', 'None'])]
    n, d = rng.choice([(4, 4), (3, 4), (2, 4), (6, 8), (9, 8), (12, 8), (2, 2), (3, 8), (5, 8), (5, 4), (7, 8), (1, 2),
                       (3, 2), (11, 16), (12, 16), (3, 16), (1, 4)])
    return ['M', 'frac', n, d, '']


def gen_segment(rng, table, nmax, wild=False):
    """a run of tokens with at least one note and no section boundary"""
    toks = []
    n = rng.randint(1, nmax)
    count = 0
    i = 0
    while i < n:
        r = rng.random()
        if r < 0.1 and toks:
            toks.append(['bar', 0, '|', 0])
        elif r < 0.16:
            toks.append(['nop', rng.choice(NOP_TOKENS)])
        elif r < 0.2:
            toks.append(['in', gen_inline(rng, table, wild)])
        elif r < 0.3 and i + 1 < n:
            # a broken pair of equal notated length
            a = gen_note(rng, wild)
            b = gen_note(rng, wild)
            b[4:7] = a[4:7]
            b[7] = False
            toks += [a, ['br', rng.choice('<>'), rng.choice([1, 1, 1, 2, 3])], b]
            i += 2
            count += 2
            continue
        else:
            toks.append(gen_note(rng, wild))
            if rng.random() < 0.05:
                toks.append(['nop', '-'])
            count += 1
        i += 1
    if count == 0:
        toks.append(gen_note(rng, wild))
    return toks


def sanitize(toks):
    """lexing hazard of the printer: a tie that does not follow a note would be read as part of a variant ending"""
    out = []
    for t in toks:
        if t[0] == 'nop' and t[1] == '-' and not (out and out[-1][0] == 'n'):
            continue
        out.append(t)
    return out


def split_lines(rng, toks):
    """cut a token list into music lines (never inside a broken pair, never leaving a bad line start)"""
    lines = []
    cur = []
    for i, t in enumerate(toks):
        cur.append(t)
        nxt = toks[i + 1] if i + 1 < len(toks) else None
        if nxt is None:
            break
        ok_start = nxt[0] in ('n', 'bar', 'in', 'colons')
        in_pair = t[0] == 'br' or nxt[0] == 'br'
        if ok_start and not in_pair and rng.random() < 0.12:
            if rng.random() < 0.2:
                cur.append(['nop', '\\'])
            lines.append(['m', cur])
            cur = []
    if cur:
        lines.append(['m', cur])
    return lines


def gen_body(rng, table, budget, wild=False):
    """blocks: plain segments and (counted) repeats, rendered with the usual bar symbols"""
    toks = []
    nblocks = rng.randint(1, 5)
    prev_rep = None
    for b in range(nblocks):
        per = max(1, budget // nblocks - 2)
        seg = gen_segment(rng, table, min(per, 12), wild)
        kind = rng.random()
        if kind < 0.5:        # repeat
            k = rng.choice([2, 2, 2, 3, 4])
            one_sided = rng.random() < 0.25
            if prev_rep is not None:
                # close the previous repeat and open this one
                if one_sided:
                    toks.append(['bar', prev_rep - 1, rng.choice(['|', '|]', '||']), 0])
                elif rng.random() < 0.3 and prev_rep == k:
                    toks.append(['colons', 2 * (k - 1)])
                elif rng.random() < 0.5:
                    toks.append(['bar', prev_rep - 1, rng.choice(['|', '||', '|[|', '[]|[]']), k - 1])
                else:
                    toks.append(['bar', prev_rep - 1, '|', 0])
                    toks.append(['bar', 0, rng.choice(['|', '[|']), k - 1])
            elif not one_sided:
                if toks and rng.random() < 0.3:
                    toks.append(['bar', 0, '||', 0])
                toks.append(['bar', 0, rng.choice(['|', '[|', '||']), k - 1])
            elif toks:
                toks.append(['bar', 0, rng.choice(['||', '|]', '[|']), 0])
            toks += seg
            prev_rep = k
        else:
            if prev_rep is not None:
                toks.append(['bar', prev_rep - 1, rng.choice(['|', '|]', '||']), 0])
            elif toks:
                toks.append(['bar', 0, rng.choice(['||', '|]', '[|', '|', '|']), 0])
            toks += seg
            prev_rep = None
    if prev_rep is not None:
        toks.append(['bar', prev_rep - 1, rng.choice(['|', '|]', '||']), 0])
    elif rng.random() < 0.5:
        toks.append(['bar', 0, rng.choice(['|', '|]', '||']), 0])
    return toks


def gen_header(rng, table, ref, wild=False):
    lines = [['f', ['X', ref]]]
    if rng.random() < 0.06:
        lines = []          # no X: field (reference number 0; a first section without X: is the file header)
    if rng.random() < 0.8:
        lines.append(['f', ['nop', 'T', 'Tune %d' % ref]])
    extra = []
    if rng.random() < 0.7:
        extra.append(gen_meter(rng))
    if rng.random() < 0.6:
        extra.append(['L', 1, rng.choice([1, 2, 4, 8, 8, 16, 32, 64]), rng.random() < 0.5])
    if rng.random() < 0.6:
        extra.append(gen_tempo(rng))
    if rng.random() < 0.3:
        nm, tx = rng.choice(NOP_FIELDS)
        extra.append(['nop', nm, tx])
    if wild and rng.random() < 0.1:
        extra.append(gen_meter(rng))
    rng.shuffle(extra)
    lines += [['f', f] for f in extra]
    if rng.random() < 0.92:
        lines.append(['f', gen_key(rng, table, wild)])
    return lines


def gen_tune(rng, table, ref, budget, flavour):
    """flavour: 'ok' | 'unsupported' | 'wild'"""
    wild = flavour == 'wild'
    lines = gen_header(rng, table, ref, wild)
    toks = gen_body(rng, table, budget, wild)
    if wild:
        # perturb: drop / duplicate / insert repeat marks, stray broken rhythm, bad fields
        for _ in range(rng.randint(1, 3)):
            r = rng.random()
            pos = rng.randint(0, len(toks))
            if r < 0.3 and toks:
                del toks[min(pos, len(toks) - 1)]
            elif r < 0.5:
                toks.insert(pos, rng.choice([['bar', 1, '|', 0], ['bar', 0, '|', 1], ['colons', 2], ['colons', 3],
                                             ['bar', 2, '|', 2], ['bar', 1, '|', 1], ['bar', 0, '||', 0]]))
            elif r < 0.65:
                toks.insert(pos, ['br', rng.choice('<>'), rng.randint(1, 3)])
            elif r < 0.75:
                toks.insert(pos, ['in', rng.choice([['M', 'bad', 0, 0, '4'], ['Kbad', 'none'], ['Kbad', 'HP'],
                                                    ['K', 'G', '', '#', False, []], ['L', 1, 0, False],
                                                    ['Q', 'bare', [], 0, ''], ['X', rng.randint(0, 5)],
                                                    ['Kbad', 'Hp']])])
            else:
                toks.insert(pos, gen_note(rng, True))
    if flavour == 'unsupported':
        r = rng.random()
        if r < 0.75:
            kind, text = gen_unsup(rng)
            pos = rng.randint(1 if text in ('-',) else 0, len(toks))
            # keep broken pairs intact
            while 0 < pos < len(toks) and (toks[pos][0] == 'br' or toks[pos - 1][0] == 'br'):
                pos -= 1
            toks.insert(pos, ['un', kind, text])
        elif r < 0.85:
            pos = rng.randint(0, len(toks))
            while 0 < pos < len(toks) and (toks[pos][0] == 'br' or toks[pos - 1][0] == 'br'):
                pos -= 1
            toks.insert(pos, ['in', rng.choice([['P', 'A'], ['V', '1']])])
        else:
            lines.insert(rng.randint(min(1, len(lines)), len(lines)), ['f', rng.choice([['P', 'AB'], ['V', '1 clef=treble']])])
    body = split_lines(rng, sanitize(toks))
    if rng.random() < 0.08 and len(body) > 1:
        # an information field on its own line inside the body
        body.insert(rng.randint(1, len(body) - 1), ['f', gen_inline(rng, table)])
    return lines + body


def gen_book(rng, table, tier):
    ntunes = rng.choice([1, 1, 2, 2, 3, 4])
    secs = []
    if rng.random() < 0.15 and ntunes >= 1:
        hdr = []
        if rng.random() < 0.6:
            hdr.append(['f', gen_meter(rng)])
        if rng.random() < 0.6:
            hdr.append(['f', ['L', 1, rng.choice([4, 8, 16]), False]])
        if rng.random() < 0.4:
            hdr.append(['f', ['nop', 'O', 'Somewhere']])
        if rng.random() < 0.3:
            hdr.append(['f', gen_tempo(rng)])
        if rng.random() < 0.3:
            hdr.append(['f', gen_key(rng, table)])
        rng.shuffle(hdr)
        if hdr:
            secs.append(hdr)
    refs = rng.sample(range(1, 60), ntunes)
    if rng.random() < 0.04 and ntunes > 1:
        refs[-1] = refs[0]
    for i in range(ntunes):
        r = rng.random()
        flavour = 'ok' if r < 0.62 else 'unsupported' if r < 0.82 else 'wild'
        budget = rng.choice([6, 12, 20, 40, 58])
        secs.append(gen_tune(rng, table, refs[i], budget, flavour))
    inp = {'sections': secs}
    if rng.random() < 0.3:
        inp['style'] = {'crlf': rng.random() < 0.4, 'indent': rng.choice([0, 1, 2]), 'comment': rng.random() < 0.5,
                        'blank': rng.choice([0, 1, 2])}
    return {'op': 'book', 'input': inp}


def key_sweep(table, full):
    """one single-tune tunebook per (key, mode spelling): a scale through two octaves with a bar line"""
    out = []
    for tonic, suffix in table:
        sp = mode_spellings(suffix)
        if not full:
            sp = [suffix] if suffix in sp else sp[:1]
        for mode in sp:
            for sep in (['', ' '] if full and mode else ['']):
                scale = [['n', '', c, '', None, 0, None, False] for c in 'CDEFGABcdefgab']
                toks = scale[:7] + [['bar', 0, '|', 0]] + scale[7:]
                out.append({'op': 'key', 'input': {'sections': [[
                    ['f', ['X', 1]], ['f', ['K', tonic, sep, mode, False, []]], ['m', toks]]]}})
    return out


def corpus():
    def book(*tunes):
        return {'op': 'book', 'input': {'sections': list(tunes)}}

    def n(letter, acc='', octs='', num=None, sl=0, den=None):
        return ['n', acc, letter, octs, num, sl, den, False]

    def tune(ref, key, toks, extra=()):
        return [['f', ['X', ref]]] + [['f', f] for f in extra] + [['f', key]] + [['m', toks]]
    C = ['K', 'C', '', '', False, []]
    out = []
    # F10: the four keys of the module's own table that used to escape as KeyError, each next to a good tune
    for tonic, mode in [('Cb', ''), ('Fb', 'Lyd'), ('E#', 'Phr'), ('B#', 'Loc')]:
        out.append(book(tune(1, C, [n('C'), n('D')]), tune(2, ['K', tonic, '', mode, False, []], [n('C'), n('E'), n('B')])))
    # '::' is a bar line: bar accidentals end there
    out.append(book(tune(1, C, [n('F', '^'), n('G'), ['colons', 2], n('F'), n('G'), ['bar', 1, '|', 0]])))
    # broken rhythm at a tempo whose note lengths are not binary fractions of a second
    out.append(book(tune(1, C, [n('A'), n('B'), n('c'), ['br', '>', 1], n('d')],
                         extra=[['Q', 'frac', [[1, 4]], 100, ''], ['L', 1, 8, False]])))
    # a>>b: double dotted / quartered
    out.append(book(tune(1, C, [n('A'), ['br', '>', 2], n('B'), n('c'), ['br', '<', 3], n('d')])))
    # F22 (outside the claim): empty repeat body after notes
    out.append(book(tune(1, C, [n('g', '', ',,', None, 1, None), ['bar', 0, '|', 1], ['bar', 0, '|', 0], ['bar', 1, '|', 0]])))
    # repeats of the test-suite shapes
    out.append(book(tune(1, C, [n('B'), n('c'), n('d'), ['colons', 4], n('B'), n('c'), ['bar', 2, '|', 0]])))
    out.append(book(tune(1, C, [n('B'), n('c'), ['bar', 1, '|', 0], n('d'), n('e')])))
    # a header section, an unsupported tune between two good ones, duplicate reference numbers
    out.append(book([['f', ['M', 'frac', 2, 4, '']], ['f', ['L', 1, 16, False]]],
                    tune(3, C, [n('C'), n('E')]), tune(4, C, [n('C'), ['un', 'invalid', 'z'], n('E')]),
                    tune(5, ['K', 'A', '', 'm', False, []], [n('a'), n('b', '_')])))
    out.append(book(tune(7, C, [n('C')]), tune(7, C, [n('D')])))
    # a lone tune without X: is a tune (reference number 0), not a file header
    out.append(book([['f', C], ['m', [n('C'), n('D')]]]))
    out.append(book([['f', ['L', 1, 4, False]]], [['f', C], ['m', [n('E')]]]))
    # chords whose notes carry octave marks, with / without a length after the bracket, after valid notes and in
    # later tunes of a tunebook: always ChordError, never a flattened melody
    dn, up = ',', "'"
    out.append(book(tune(1, C, [n('C'), n('D'), ['un', 'chord', '[C' + dn + 'E' + dn + 'G' + dn + ']'], n('E')])))
    out.append(book(tune(1, C, [n('C'), n('D')]), tune(2, C, [n('E'), ['bar', 0, '|', 0], n('F'), ['un', 'chord', '[ceg' + up + ']']]),
                    tune(3, C, [n('G')])))
    out.append(book(tune(1, C, [n('C')]), tune(2, C, [n('A'), ['un', 'chord', '[^c' + up + '2e' + up + '2]2'], n('B')]),
                    tune(3, C, [['un', 'chord', '[A' + dn + dn + '/c]/2']]), tune(4, C, [['bar', 0, '|', 1], n('c'), ['un', 'chord', '[C' + dn + 'E]3/2'], ['bar', 1, '|', 0]])))
    # ---- audit (C): rare but legal shapes
    out.append({'op': 'book', 'input': {'sections': []}})                               # empty tunebook
    out.append(book([['f', ['X', 0]]]))                                                 # a tune that is only X:0
    out.append(book([['f', ['M', 'frac', 3, 4, '']], ['f', ['L', 1, 8, False]]]))       # a lone "file header" is a tune
    out.append(book(tune(1, C, [['bar', 0, '|', 0], ['bar', 0, '||', 0], ['bar', 0, '|]', 0]])))   # bars only
    up4 = "'" * 4
    out.append(book(tune(1, C, [n('C', '', ',,,,,'), n('g', '', up4), n('B', '', ',,,,,', 16), n('c', '', '', None, 4, None)],
                         extra=[['L', 1, 1, True]])))                                   # MIDI 0 and 127, L:1, c////
    out.append(book(tune(1, C, [n('C'), n('C', '', ',,,,,,'), n('D')]), tune(2, C, [n('g', '^', up4)]),
                    tune(3, ['K', 'C#', '', '', False, []], [n('g', '', up4)]), tune(4, C, [n('g', '=', up4)])))
    out.append(book(tune(1, C, [n('A'), n('B')], extra=[['L', 1, 64, False], ['Q', 'frac', [[1, 1]], 1, ''],
                                                         ['M', 'frac', 1, 1, '']])))     # slowest / shortest
    out.append(book(tune(1, C, [n('A')], extra=[['M', 'frac', 3, 4, '']]), tune(2, C, [n('A')], extra=[['M', 'frac', 11, 16, '']]),
                    tune(3, C, [n('A')], extra=[['M', 'C|', 2, 2, 'C|']]), tune(4, C, [n('A')], extra=[['M', 'none', 0, 0, 'none']])))
    out.append(book(tune(1, C, [['bar', 0, '|', 5], n('A'), n('B', '_'), ['bar', 5, '|', 0], n('B')])))   # |::::: six times
    # two K: fields in one header, and a key in the file header overridden by the tune's own
    out.append(book([['f', ['X', 1]], ['f', ['K', 'D', '', '', False, [['=', 'c']]]], ['f', ['K', 'D', '', '', False, []]],
                     ['m', [n('c'), n('f')]]]))
    out.append(book([['f', ['K', 'G', '', '', False, [['^', 'c']]]], ['f', ['L', 1, 4, False]]],
                    [['f', ['X', 1]], ['m', [n('c'), n('f')]]],
                    [['f', ['X', 2]], ['f', ['K', 'E', '', 'm', False, []]], ['m', [n('c'), n('f')]]],
                    [['f', ['X', 3]], ['f', ['Q', 'bare', [], 120, '']], ['f', ['L', 1, 8, False]], ['m', [n('c'), n('f')]]]))
    # ---- audit (B): accidentals left pending at the end of a tune / of a rejected tune must not reach the next one
    out.append(book(tune(1, C, [n('F', '^'), n('B', '_')]), tune(2, C, [n('F'), n('B')]),
                    tune(3, C, [n('c', '^'), ['un', 'chord', '[CEG]']]), tune(4, C, [n('c'), n('F')])))
    # ---- audit (D): the offending element is the last thing of the last tune; duplicate after a rejected tune
    out.append(book(tune(1, C, [n('C'), n('D')]), tune(2, C, [['bar', 0, '|', 1], n('E'), n('F'), ['bar', 1, '|', 0], n('G')]),
                    tune(3, C, [n('C'), ['bar', 0, '|', 0], n('D'), n('E'), ['un', 'tuplet', '(3']])))
    out.append(book(tune(5, C, [n('C')]), tune(6, C, [['in', ['P', 'A']], n('D')]), tune(5, C, [n('E')])))
    out.append(book(tune(5, C, [n('C')]), tune(5, C, [n('D'), ['un', 'invalid', 'z']]), tune(6, C, [n('E')])))
    # ---- lexical styles (comments, CRLF, indentation, whitespace-only separators)
    for st in ({'crlf': True, 'indent': 2, 'comment': True, 'blank': 2}, {'crlf': False, 'indent': 1, 'comment': True, 'blank': 1}):
        c = book([['f', ['L', 1, 4, False]]], tune(1, C, [n('C'), n('F', '^'), ['bar', 0, '|', 0], n('F')]),
                 tune(2, ['K', 'Bb', ' ', 'Mix', False, []], [n('e'), ['nop', '\\']]))
        c['input']['style'] = st
        out.append(c)
    # default unit from the meter; deprecated tempo resolved against it
    out.append(book(tune(1, C, [n('C'), n('D', '', '', 3, 1, 2)], extra=[['M', 'frac', 2, 4, ''], ['Q', 'bare', [], 80, '']])))
    return out


def cases(rng, tier, n=None):
    table = key_table()
    thorough = tier == 'thorough'
    out = key_sweep(table, thorough)
    nb = n if n is not None else (40000 if thorough else 800)
    for _ in range(nb):
        out.append(gen_book(rng, table, tier))
    return out


def shrink(case):
    secs = case['input']['sections']

    def mk(s):
        inp = {'sections': s}
        if 'style' in case['input']:
            inp['style'] = case['input']['style']
        return {'op': case['op'], 'input': inp}
    if 'style' in case['input']:
        yield {'op': case['op'], 'input': {'sections': secs}}
    if len(secs) > 1:
        for i in range(len(secs)):
            yield mk(secs[:i] + secs[i + 1:])
    for i, sec in enumerate(secs):
        for j, l in enumerate(sec):
            if len(sec) > 1:
                yield mk(secs[:i] + [sec[:j] + sec[j + 1:]] + secs[i + 1:])
        for j, l in enumerate(sec):
            if l[0] == 'm' and len(l[1]) > 1:
                k = len(l[1])
                for a, b in [(0, k // 2), (k // 2, k)] + [(x, x + 1) for x in range(k)]:
                    nl = ['m', sanitize(l[1][:a] + l[1][b:])]
                    if nl[1]:
                        yield mk(secs[:i] + [sec[:j] + [nl] + sec[j + 1:]] + secs[i + 1:])


RULE = ('seeded grammar-directed generator of tunebooks (1-4 tunes; header fields X/T/M/L/Q/K; every key of the module\'s '
        'own SIG_TO_KEYS with every mode name/abbreviation/capitalisation; notes with accidentals, octave marks and all '
        'length forms; bar-scoped accidentals; broken rhythm; simple, counted and one-sided repeats; inline fields) mixed '
        'with tunes using exactly one unsupported construct and with perturbed (ill-formed) tunes, plus one tune per key '
        'spelling; non-trivial = at least one tune with two or more notes parsed; distinct by canonical input')
ASSUMPTIONS = ['regex lexing is exercised, not modelled: the harness prints token lists to ABC text (tokens separated by a '
               'space, notes optionally adjacent) and the model consumes the token list',
               'times are exact rationals in the model and binary64 in the implementation; compared with tolerance '
               '1e-9*max(1,|t|); pitches, keys, modes, meters, section ids, repeat counts and exception classes exactly',
               'the default tempo (120 qpm) and default velocity (90) are the implementation\'s constants, not ABC rules',
               'ties, slurs, decorations and annotations are treated as no-ops (outside the claim)']
META = {
    'level_text': ('Theorems for ALL token lists / all 105 keys x every mode spelling (kernel enumeration over the tables '
                   'regenerated from abc_parser on every run): key table soundness, the accidental-precedence pitch rule as a '
                   'function of the token history, the length rule and clock/onset invariants, repeat expansion for every '
                   'sequence of plain and counted-repeat blocks, and per-tune isolation of parse_abc_tunebook.  The model is tied '
                   'to the real parser by a differential run on generated tunebooks rendered to ABC text, and the oracle '
                   're-derives every observable from the ABC 2.1 rules.'),
    'level_note': ('Trusted: Coq kernel + vm_compute; the hand-written token-level model Model/Abc.v (tied by correspondence '
                   'only); the 60-line printer; regex lexing, protobuf and float arithmetic of the implementation are '
                   'exercised, not modelled.'),
}
