"""C01 — quantization snaps every event to the nearest step and changes nothing else.

Anchors: note_seq/sequences_lib.py quantize_to_step, steps_per_quarter_to_steps_per_second,
_quantize_notes, quantize_note_sequence, quantize_note_sequence_absolute.

Floats travel to the Gallina model as *order-preserving integer codes* of the binary64 value
(`code`/`uncode` below, decoded by Model/Quantize.v `fdec`): bit pattern for x >= 0, minus the
bit pattern of |x| for x < 0.  The model is bit-exact (Coq primitive floats, vm_compute).
"""
import itertools
import math
import struct
from fractions import Fraction

from vt import coqgen as G
from vt import fl
from vt import nsio

ID = 'C01'
USE_VM = True
RULE = ('seeded generator: (a) quantize_to_step on times placed -4..+4 ulps around half-step boundaries '
        '(k+1/2)/sps, on exact steps, exact ties, uniform doubles and slightly negative times, for integer '
        'steps_per_second 1..1000 and steps_per_quarter*qpm/60 (spq 1..96, qpm 10..480 incl. non-integers); '
        '(b) whole NoteSequences (notes, control changes, text annotations, 0-3 tempos / time signatures in every '
        'storage order, malformed streams for the four documented errors) through quantize_note_sequence and '
        'quantize_note_sequence_absolute; (c) stretch pairs. Non-trivial = a time within 4 ulps of a rounding '
        'boundary, an exact tie, a documented error, or a sequence with at least one note/event; distinct by '
        'canonical input.')
ASSUMPTIONS = [
    'times, qpm and derived steps_per_second are finite binary64 values (NaN/inf are outside the quantifier)',
    'steps_per_second / steps_per_quarter arguments are Python ints in the int32 range of the proto field',
    'protobuf deep copy is not modelled; non-mutation of the input is checked on every generated case by the oracle',
    'the decoding of float codes (fdec) is glue; it is re-checked on every float case (decoded value echoed back)',
]
TRUSTED = ['Flocq 4.1 IEEE754.PrimFloat bridge (Prim2B, *_equiv) between Coq primitive floats and binary64 reals']

_MASK = (1 << 63) - 1


def code(x):
    x = float(x)
    if math.isnan(x) or math.isinf(x):
        raise ValueError('c01.code: non-finite %r' % (x,))
    b = struct.unpack('<q', struct.pack('<d', x))[0]
    return b if b >= 0 else -(b & _MASK)


def uncode(c):
    x = struct.unpack('<d', struct.pack('<q', abs(c)))[0]
    return -x if c < 0 else x


def _sl():
    from note_seq import sequences_lib
    return sequences_lib


# ------------------------------------------------------------------ regenerated constants
def gen_coq():
    from note_seq import sequences_lib, constants
    c = sequences_lib.QUANTIZE_CUTOFF
    if isinstance(c, bool) or not isinstance(c, (int, float)):
        raise TypeError('QUANTIZE_CUTOFF has unexpected type %r' % (type(c),))
    if isinstance(c, int) and float(c) != c:
        raise TypeError('QUANTIZE_CUTOFF int not exactly a float')
    m, e = fl.me(float(c))
    q = constants.DEFAULT_QUARTERS_PER_MINUTE
    if isinstance(q, bool) or not isinstance(q, (int, float)):
        raise TypeError('DEFAULT_QUARTERS_PER_MINUTE has unexpected type %r' % (type(q),))
    s = G.HEADER
    s += '(* QUANTIZE_CUTOFF = %r = m * 2^e *)\n' % (c,)
    s += G.defz('QUANTIZE_CUTOFF_M', m)
    s += G.defz('QUANTIZE_CUTOFF_E', e)
    s += '(* constants.DEFAULT_QUARTERS_PER_MINUTE = %r as an order-preserving binary64 code *)\n' % (q,)
    s += G.defz('DEFAULT_QPM_CODE', code(float(q)))
    return s


# ------------------------------------------------------------------ generators
def _rand_qpm(rng):
    r = rng.random()
    if r < 0.35:
        return float(rng.randint(10, 480))
    if r < 0.5:
        return rng.choice([120.0, 60.0, 97.3, 133.7, 90.0, 100.0, 72.5, 480.0, 10.0])
    if r < 0.7:
        return round(rng.uniform(10, 480), rng.choice([1, 2, 3]))
    return rng.uniform(10, 480)


def _rand_k(rng, big=True):
    r = rng.random()
    if r < 0.5:
        return rng.randint(0, 64)
    if r < 0.8 or not big:
        return rng.randint(0, 5000)
    return rng.randint(0, 2 ** rng.randint(13, 31))


def _rand_time(rng, sps, big=True):
    """a time (float) interesting for resolution sps"""
    k = _rand_k(rng, big)
    r = rng.random()
    if r < 0.55:
        base = (k + 0.5) / sps
    elif r < 0.72:
        base = k / sps
    elif r < 0.80 and sps == int(sps):
        # exact tie when u*sps is odd: t = u/2
        u = 2 * rng.randint(0, 4000) + 1
        return u / 2.0
    else:
        return rng.uniform(0, (k + 1) / sps)
    return fl.nextafter_n(base, rng.randint(-4, 4))


def _float_case(rng):
    sl = _sl()
    r = rng.random()
    if r < 0.45:
        sps = float(rng.randint(1, 1000))
    else:
        sps = sl.steps_per_quarter_to_steps_per_second(rng.randint(1, 96), _rand_qpm(rng))
    ts = [_rand_time(rng, sps) for _ in range(rng.randint(1, 4))]
    if rng.random() < 0.15:      # slightly negative times: (-3 steps, 0]
        ts.append(-rng.uniform(0, 3) / sps)
    if rng.random() < 0.1:
        ts.append(rng.choice([0.0, 0.5 / sps, fl.nextafter_n(0.5 / sps, -1), 1.0 / sps]))
    return {'op': 'q2s', 'input': [[code(t) for t in ts], code(sps)]}


_CUTOFFS = [0.0, 0.25, 0.5, 0.75, 1.0, 0.1, 0.9, 0.3333333333333333, 0.625]


def _cut_case(rng):
    """quantize_to_step with an explicit quantize_cutoff (positional or keyword, float or int), drawn
    independently of the resolution and of the times; times around the cutoff boundary (k + c)/sps."""
    r = rng.random()
    if r < 0.55:
        c = rng.choice(_CUTOFFS)
    elif r < 0.7:
        c = rng.choice([0, 1])                         # Python ints
    else:
        c = rng.uniform(0.0, 1.0)
    r = rng.random()
    if r < 0.35:
        sps = float(2 ** rng.randint(0, 9))            # exact boundaries reachable
    elif r < 0.7:
        sps = float(rng.randint(1, 1000))
    else:
        sps = _sl().steps_per_quarter_to_steps_per_second(rng.randint(1, 96), _rand_qpm(rng))
    ts = []
    for _ in range(rng.randint(1, 4)):
        k = _rand_k(rng)
        r = rng.random()
        if r < 0.6:
            ts.append(fl.nextafter_n((k + float(c)) / sps, rng.randint(-3, 3)))
        elif r < 0.8:
            ts.append((k + 0.5) / sps)
        else:
            ts.append(rng.uniform(0, (k + 1) / sps))
    return {'op': 'q2s_cut', 'input': [[code(t) for t in ts], code(sps), code(float(c)),
                                       int(isinstance(c, int)), rng.randrange(2)]}


def _rel_tie_time(rng, spq, qpm, big=True):
    """A time t (exact dyadic) with t*spq*qpm/60 = k + 1/2 EXACTLY in rational arithmetic, or None.
    x = spq*qpm/60 = a/b in lowest terms; t = (2k+1) b / (2a) is dyadic iff odd(a) divides 2k+1."""
    F = Fraction
    x = F(spq) * F(qpm) / 60
    a, b = x.numerator, x.denominator
    ao = a
    while ao % 2 == 0:
        ao //= 2
    if ao > 2 ** 30:
        return None
    j = 2 * rng.randint(0, 40 if not big or rng.random() < 0.7 else 20000) + 1
    tq = F(ao * j * b, 2 * a)
    try:
        t = float(tq)
    except OverflowError:
        return None
    if F(t) != tq or t > 2.0 ** 36:
        return None
    assert (F(t) * x).denominator == 2
    return t


def _tie_qpm(rng):
    """qpm values for the tie stream: integers 10..480 (resolution representable or not), halves"""
    return float(rng.randint(10, 480)) if rng.random() < 0.85 else rng.randint(20, 960) / 2.0


def _float_rel_case(rng):
    spq = rng.randint(1, 96)
    if rng.random() < 0.45:
        qpm = _tie_qpm(rng)
        t = _rel_tie_time(rng, spq, qpm)
        if t is not None:
            if rng.random() < 0.25:
                t = fl.nextafter_n(t, rng.choice([-2, -1, 1, 2]))
            return {'op': 'q2s_rel', 'input': [code(t), spq, code(qpm)]}
    qpm = _rand_qpm(rng)
    sps = _sl().steps_per_quarter_to_steps_per_second(spq, qpm)
    return {'op': 'q2s_rel', 'input': [code(_rand_time(rng, sps)), spq, code(qpm)]}


def _stretch_case(rng):
    spq = rng.randint(1, 96)
    qpm = _rand_qpm(rng)
    sps = _sl().steps_per_quarter_to_steps_per_second(spq, qpm)
    f = rng.choice([0.5, 2.0, 4.0, 0.25]) if rng.random() < 0.4 else rng.uniform(0.25, 4.0)
    return {'op': 'stretch', 'input': [code(_rand_time(rng, sps)), spq, code(qpm), code(f)]}


_TS_GOOD = [(4, 4), (3, 4), (6, 8), (2, 2), (12, 8), (7, 16), (5, 1)]
_TS_BAD = [(0, 4), (3, 3), (4, 6), (4, 0), (0, 0), (4, 12), (4, -4), (4, 5)]


def _plan_times(rng, n, sps, zero_first):
    """n event times (floats); zero_first => the earliest is 0.0"""
    ts = [float(rng.randint(1, 12)) * rng.choice([0.25, 0.5, 1.0]) for _ in range(n)]
    if rng.random() < 0.3 and n > 1:
        ts[1] = ts[0]                      # coinciding times
    if zero_first and n:
        ts[rng.randrange(n)] = 0.0
    return ts


def _gen_tempos(rng, sps_hint):
    """returns (rows, qpm the repaired code quantizes at or None)"""
    plan = rng.choice(['none', 'single0', 'single0', 'late_default', 'late_nondefault', 'multi_same',
                       'multi_same', 'multi_same_late', 'multi_diff', 'multi_diff', 'multi_diff'])
    if plan == 'none':
        return []
    if plan == 'single0':
        return [[0.0, _rand_qpm(rng)]]
    if plan == 'late_default':
        return [[float(rng.randint(1, 9)), 120.0]]
    if plan == 'late_nondefault':
        return [[float(rng.randint(1, 9)), _rand_qpm(rng)]]
    n = rng.randint(2, 3)
    if plan == 'multi_same':
        q = _rand_qpm(rng)
        return [[t, q] for t in _plan_times(rng, n, sps_hint, True)]
    if plan == 'multi_same_late':
        q = rng.choice([120.0, _rand_qpm(rng)])
        return [[t, q] for t in _plan_times(rng, n, sps_hint, False)]
    # multi_diff: at least two distinct values, every storage order reachable through the shuffle
    qs = [_rand_qpm(rng) for _ in range(n)]
    if len(set(qs)) == 1:
        qs[0] = qs[0] + 1.0
    if rng.random() < 0.3 and n == 3:
        qs[2] = qs[rng.randrange(2)]
    rows = [[t, q] for t, q in zip(_plan_times(rng, n, sps_hint, rng.random() < 0.8), qs)]
    rng.shuffle(rows)
    return rows


def _gen_tsigs(rng):
    plan = rng.choice(['none', 'none', 'single0', 'single0', 'late_default', 'late_nondefault', 'multi_same',
                       'multi_same', 'multi_same_late', 'multi_diff', 'multi_diff', 'bad'])
    if plan == 'none':
        return []
    if plan == 'single0':
        return [[0.0] + list(rng.choice(_TS_GOOD))]
    if plan == 'late_default':
        return [[float(rng.randint(1, 9)), 4, 4]]
    if plan == 'late_nondefault':
        return [[float(rng.randint(1, 9))] + list(rng.choice(_TS_GOOD[1:]))]
    if plan == 'bad':
        nd = list(rng.choice(_TS_BAD))
        return [[0.0] + nd] + ([[1.0] + nd] if rng.random() < 0.3 else [])
    n = rng.randint(2, 3)
    if plan == 'multi_same':
        v = list(rng.choice(_TS_GOOD))
        return [[t] + v for t in _plan_times(rng, n, 1.0, True)]
    if plan == 'multi_same_late':
        v = list(rng.choice(_TS_GOOD[:3]))
        return [[t] + v for t in _plan_times(rng, n, 1.0, False)]
    vs = [list(rng.choice(_TS_GOOD)) for _ in range(n)]
    if all(v == vs[0] for v in vs):
        vs[0] = [vs[0][0] + 1, vs[0][1]]
    if rng.random() < 0.3:                 # differ only in the denominator
        vs[1] = [vs[0][0], vs[0][1] * 2]
    rows = [[t] + v for t, v in zip(_plan_times(rng, n, 1.0, rng.random() < 0.8), vs)]
    rng.shuffle(rows)
    return rows


def _seq_case(rng, op=None, clean=False):
    """A whole-sequence case.  clean => tempos/time signatures valid and no negative time
    (so that the note/event clauses are exercised); otherwise the malformed stream is mixed in."""
    sl = _sl()
    op = op or rng.choice(['abs', 'rel'])
    tempos = _gen_tempos(rng, 1.0)
    tsigs = _gen_tsigs(rng)
    ties = clean and op == 'rel' and rng.random() < 0.5     # exact ties of the tempo-relative position
    if clean:
        q = _tie_qpm(rng) if ties else _rand_qpm(rng)
        tempos = rng.choice([[], [[0.0, q]], [[0.0, q], [2.5, q]], [[3.0, q], [0.0, q]], [[4.0, 120.0]]])
        v = list(rng.choice(_TS_GOOD))
        tsigs = rng.choice([[], [[0.0] + v], [[2.0] + v, [0.0] + v], [[1.0, 4, 4]]])
    if op == 'abs':
        res = rng.randint(1, 1000) if rng.random() < 0.8 else rng.choice([1, 2, 100, 1000, 31, 44])
        sps = float(res)
    else:
        res = rng.randint(1, 96) if rng.random() < 0.6 else rng.choice([1, 4, 12, 24, 96])
        qpm_eff = 120.0
        if tempos:
            qpm_eff = sorted(tempos, key=lambda r: r[0])[0][1]
        sps = sl.steps_per_quarter_to_steps_per_second(res, qpm_eff)
    big = rng.random() < 0.15

    def T():
        if ties and rng.random() < 0.6:
            t = _rel_tie_time(rng, res, qpm_eff, big)
            if t is not None:
                return t
        return _rand_time(rng, sps, big)
    neg = (not clean) and rng.random() < 0.2
    notes = []
    ninstr = rng.randint(1, 3)
    for _ in range(rng.randint(0, 6)):
        s = T()
        r = rng.random()
        if r < 0.15:
            e = s
        elif r < 0.35:
            e = fl.nextafter_n(s, rng.randint(0, 3))         # same step, usually
        elif r < 0.5:
            e = s + rng.choice([0.25, 0.5, 1.0, 1.5]) / sps  # within a step or two
        else:
            e = T()
            if e < s:
                s, e = e, s
        if neg and rng.random() < 0.4:
            s = -rng.uniform(0, 3) / sps
            if rng.random() < 0.3:
                e = s
        elif neg and rng.random() < 0.15:
            e = -rng.uniform(0, 3) / sps               # only the END is before zero (end < start)
        notes.append([rng.randint(0, 127), rng.randint(1, 127), code(s), code(e), rng.randrange(ninstr),
                      rng.choice([0, 1, 33]), int(rng.random() < 0.2),
                      rng.choice([0, 0, 7, 123]), rng.choice([0, 0, 9, 55]), rng.randrange(0, 65536 * 4, 4099)])
    d = {'notes': notes, 'tempos': [[code(t), code(q)] for t, q in tempos],
         'tsigs': [[code(r[0]), r[1], r[2]] for r in tsigs],
         'ksigs': [], 'texts': [], 'ccs': [], 'bends': [], 'sects': []}
    for _ in range(rng.randint(0, 2)):
        d['ksigs'].append([code(T()), rng.randrange(12), rng.randrange(2)])
    for _ in range(rng.randint(0, 3)):
        ty = rng.choice([0, 1, 1, 2])
        t = T()
        if neg and rng.random() < 0.3:
            t = -rng.uniform(0, 3) / sps
        d['texts'].append([code(t), rng.choice([0, 0, 5]), rng.choice(nsio.CHORDS) if ty == 1 else 'x%d' % ty, ty])
    for _ in range(rng.randint(0, 3)):
        t = T()
        if neg and rng.random() < 0.3:
            t = -rng.uniform(0, 3) / sps
        d['ccs'].append([code(t), rng.choice([0, 0, 3]), rng.choice([64, 66, 67, 7, 1]), rng.randint(0, 127),
                         rng.randrange(ninstr), rng.choice([0, 1, 33]), int(rng.random() < 0.1)])
    for _ in range(rng.randint(0, 2)):
        d['bends'].append([code(T()), rng.randint(-8192, 8191), rng.randrange(ninstr), 0, 0])
    for k in range(rng.randint(0, 2)):
        d['sects'].append([code(T()), k])
    ends = [uncode(n[3]) for n in notes]
    total = max(ends) if ends else 0.0
    r = rng.random()
    if r < 0.3:
        total = total + rng.randint(0, 8) / sps
    elif r < 0.45:
        total = max(0.0, total / 2)           # total_time below the last note end
    elif r < 0.55:
        total = T()
    d['total'] = code(max(total, 0.0))
    d['qsteps'] = rng.choice([0, 0, 0, 17, 100000])
    # quantization_info already present in the input (either member of the oneof, or the empty
    # sub-message), drawn independently of the requested resolution
    d['spq'] = rng.choice([0, 0, 0, 1, 4, 24, 96, res if op == 'rel' else 7])
    d['sps'] = 0 if d['spq'] else rng.choice([0, 0, 0, 1, 100, 1000, res if op == 'abs' else 31])
    if not d['spq'] and not d['sps'] and rng.random() < 0.25:
        d['qinfo_empty'] = True
    d['sub'] = [0, 0] if rng.random() < 0.8 else [code(rng.choice([1.5, 0.0, 7.25])), code(rng.choice([0.25, 3.0]))]
    d['tpq'] = rng.choice([220, 480, 96])
    d['meta'] = rng.randint(1, 10 ** 6) if rng.random() < 0.7 else None
    case = {'op': op, 'input': {'res': res, 'desc': d}}
    if clean and rng.random() < 0.2:
        case = _two_step(rng, case)
    return case


def _desc_of(ns):
    """description (generator schema) of a real NoteSequence; everything outside the wire rows is dropped"""
    w = nsio.to_wire(ns, tfun=code, qfun=code)
    return {'notes': w[0], 'tempos': w[1], 'tsigs': w[2], 'ksigs': w[3], 'texts': w[4], 'ccs': w[5], 'bends': w[6],
            'sects': w[7], 'total': w[8], 'qsteps': w[9], 'spq': w[10], 'sps': w[11], 'sub': w[12], 'tpq': w[13],
            'meta': None}


def _two_step(rng, case):
    """the input of the case becomes the OUTPUT of an earlier quantization (other entry point and/or other
    resolution): re-quantizing must overwrite every stale quantized field"""
    try:
        first = dict(case, op=rng.choice(['abs', 'rel']))
        first['input'] = dict(case['input'], res=rng.choice([1, 3, 4, 17, 96]))
        out = _call(first, _build(first))
    except Exception:  # noqa
        return case
    return {'op': case['op'], 'input': {'res': case['input']['res'], 'desc': _desc_of(out)}}


def corpus():
    c = code
    out = []
    # the half-step boundary, ties, the cutoff itself
    out.append({'op': 'q2s', 'input': [[c(0.0), c(0.5), c(fl.nextafter_n(0.5, -1)), c(1.5), c(2.5), c(0.49999999999999994)], c(1.0)]})
    out.append({'op': 'q2s', 'input': [[c(0.005), c(0.015), c(0.025), c(1.005), c(4.035)], c(100.0)]})
    out.append({'op': 'q2s', 'input': [[c(-0.5), c(-1.0), c(-1.4999), c(-1.5), c(-2.0), c(-2.5)], c(1.0)]})
    out.append({'op': 'q2s', 'input': [[c(2.0 ** 31 + 0.5), c(2.0 ** 40)], c(1000.0)]})
    # the values of the repo's own quantize_to_step test
    out.append({'op': 'q2s', 'input': [[c(8.0001), c(8.4999), c(8.5), c(8.5001), c(8.9999)], c(1.0)]})
    out.append({'op': 'q2s_rel', 'input': [c(1.0), 4, c(60.0)]})
    # F1: tempo / time-signature change stored out of time order
    base = {'notes': [[60, 100, c(0.0), c(1.0), 0, 0, 0, 0, 0, 0]], 'ksigs': [], 'texts': [], 'ccs': [], 'bends': [],
            'sects': [], 'total': c(1.0), 'qsteps': 0, 'spq': 0, 'sps': 0, 'sub': [0, 0], 'tpq': 220, 'meta': None}
    d1 = dict(base, tempos=[[c(5.0), c(60.0)], [c(0.0), c(120.0)]], tsigs=[])
    out.append({'op': 'rel', 'input': {'res': 4, 'desc': d1}})
    d2 = dict(base, tempos=[], tsigs=[[c(5.0), 3, 4], [c(0.0), 4, 4]])
    out.append({'op': 'rel', 'input': {'res': 4, 'desc': d2}})
    d3 = dict(base, tempos=[[c(0.0), c(120.0)], [c(5.0), c(60.0)]], tsigs=[[c(0.0), 4, 4], [c(5.0), 3, 4]])
    out.append({'op': 'rel', 'input': {'res': 4, 'desc': d3}})
    out.append({'op': 'abs', 'input': {'res': 100, 'desc': d3}})
    d4 = dict(base, tempos=[[c(2.0), c(90.0)]], tsigs=[])
    out.append({'op': 'rel', 'input': {'res': 4, 'desc': d4}})
    d5 = dict(base, tempos=[[c(2.0), c(120.0)]], tsigs=[[c(3.0), 4, 4]])
    out.append({'op': 'rel', 'input': {'res': 12, 'desc': d5}})
    d6 = dict(base, notes=[[60, 100, c(-0.3), c(1.0), 0, 0, 0, 0, 0, 0]], tempos=[], tsigs=[])
    out.append({'op': 'abs', 'input': {'res': 10, 'desc': d6}})
    out.append({'op': 'abs', 'input': {'res': 1, 'desc': d6}})
    d7 = dict(base, notes=[[60, 100, c(0.26), c(0.26), 0, 0, 0, 0, 0, 0], [62, 1, c(0.24), c(0.2400001), 1, 0, 1, 4, 4, 4099]],
              tempos=[], tsigs=[], total=c(0.0))
    out.append({'op': 'abs', 'input': {'res': 2, 'desc': d7}})
    # exact ties of the tempo-relative position with a NON-representable resolution (3.6, 8.4, 12.3 ... steps/s)
    for spq, qpm, t in [(3, 72.0, 3.75), (3, 72.0, 1.25), (7, 72.0, 1.25), (4, 126.0, 1.25), (6, 123.0, 5.0),
                        (3, 11.0, 30.0), (3, 18.0, 15.0), (30, 246.0, 0.5)]:
        assert (Fraction(t) * spq * Fraction(qpm) / 60).denominator == 2
        out.append({'op': 'q2s_rel', 'input': [c(t), spq, c(qpm)]})
        dn = dict(base, notes=[[60, 100, c(t), c(t), 0, 0, 0, 0, 0, 0], [64, 90, c(0.0), c(t), 0, 0, 0, 0, 0, 0]],
                  tempos=[[c(0.0), c(qpm)]], tsigs=[], total=c(t),
                  texts=[[c(t), 0, 'C', 1]], ccs=[[c(t), 0, 64, 127, 0, 0, 0]])
        out.append({'op': 'rel', 'input': {'res': spq, 'desc': dn}})
    # --- rare but legal shapes / range ends
    empty = dict(base, notes=[], tempos=[], tsigs=[], total=0)
    for op, res in (('abs', 1), ('abs', 1000), ('rel', 1), ('rel', 96)):
        out.append({'op': op, 'input': {'res': res, 'desc': empty}})
        out.append({'op': op, 'input': {'res': res, 'desc': dict(empty, qinfo_empty=True)}})
        out.append({'op': op, 'input': {'res': res, 'desc': dict(base, tempos=[], tsigs=[], qinfo_empty=True,
                                                                 sub=[c(1.5), c(0.25)])}})
        one0 = dict(base, notes=[[0, 1, 0, 0, 0, 0, 0, 0, 0, 0]], tempos=[], tsigs=[], total=0)   # one note 0..0
        out.append({'op': op, 'input': {'res': res, 'desc': one0}})
    for qpm in (10.0, 480.0):
        for spq in (1, 96):
            out.append({'op': 'rel', 'input': {'res': spq, 'desc': dict(base, tempos=[[0, c(qpm)]], tsigs=[])}})
            out.append({'op': 'q2s_rel', 'input': [c(1.0), spq, c(qpm)]})
    for nd in ((1, 1), (4, 1), (3, 2 ** 30), (-3, 4), (2 ** 31 - 1, 2), (1, 2 ** 30 + 1), (5, -2 ** 31), (4, 0)):
        out.append({'op': 'rel', 'input': {'res': 4, 'desc': dict(base, tempos=[], tsigs=[[0, nd[0], nd[1]]])}})
    # explicit cutoff: the documented examples (cutoff 0.75) and the ends 0 / 1, float and int, positional / keyword
    for cut, isint in ((0.75, 0), (0.25, 0), (0.0, 0), (1.0, 0), (0.0, 1), (1.0, 1), (0.5, 0)):
        for kw in (0, 1):
            out.append({'op': 'q2s_cut', 'input': [[c(0.74), c(0.75), c(0.76), c(1.74), c(1.75), c(1.76), c(2.0), c(0.0),
                                                    c(0.25), c(1.25)], c(1.0), c(cut), isint, kw]})
    # --- rejection paths: the offending element is NOT the first one stored
    ok = [60, 100, c(0.5), c(1.0), 0, 0, 0, 0, 0, 0]
    for op, res in (('abs', 10), ('rel', 4)):
        out.append({'op': op, 'input': {'res': res, 'desc': dict(base, tempos=[], tsigs=[], notes=[ok, ok, ok, [61, 9, c(-1.0), c(1.0), 0, 0, 0, 0, 0, 0]])}})
        out.append({'op': op, 'input': {'res': res, 'desc': dict(base, tempos=[], tsigs=[], notes=[ok, ok, [61, 9, c(1.0), c(-1.0), 0, 0, 0, 0, 0, 0]])}})
        out.append({'op': op, 'input': {'res': res, 'desc': dict(base, tempos=[], tsigs=[], notes=[ok, ok],
                                                                 ccs=[[c(0.5), 0, 64, 1, 0, 0, 0], [c(-1.0), 0, 64, 1, 0, 0, 0]])}})
        out.append({'op': op, 'input': {'res': res, 'desc': dict(base, tempos=[], tsigs=[], notes=[ok],
                                                                 ccs=[[c(0.5), 0, 64, 1, 0, 0, 0]],
                                                                 texts=[[c(0.5), 0, 'C', 1], [c(1.0), 0, 'G', 1], [c(-1.0), 0, 'D', 1]])}})
    out.append({'op': 'rel', 'input': {'res': 4, 'desc': dict(base, tempos=[], tsigs=[[0, 4, 4], [c(1.0), 4, 4], [c(2.0), 4, 0]])}})
    out.append({'op': 'rel', 'input': {'res': 4, 'desc': dict(base, tempos=[], tsigs=[[0, 3, 0], [c(1.0), 3, 0]])}})
    out.append({'op': 'rel', 'input': {'res': 4, 'desc': dict(base, tempos=[], tsigs=[[0, 0, 8], [c(1.0), 0, 8], [c(2.0), 0, 8]])}})
    # exhaustive small scope for the rejection clause: every list of <= 3 tempos (resp. time signatures)
    # over 2 values x 2 times, i.e. every placement and every storage order of a second / third entry
    tvals = [c(120.0), c(60.0)]
    times = [c(0.0), c(2.0)]
    pairs = [[t, v] for t in times for v in tvals]
    for n in (1, 2, 3):
        for combo in itertools.product(pairs, repeat=n):
            out.append({'op': 'rel', 'input': {'res': 4, 'desc': dict(base, tempos=[list(x) for x in combo], tsigs=[])}})
    tsv = [(4, 4), (3, 4)]
    tpairs = [[t, a, b] for t in times for (a, b) in tsv]
    for n in (1, 2, 3):
        for combo in itertools.product(tpairs, repeat=n):
            out.append({'op': 'rel', 'input': {'res': 4, 'desc': dict(base, tempos=[], tsigs=[list(x) for x in combo])}})
    return out


def cases(rng, tier, n=None):
    thorough = tier == 'thorough'
    nf, nr, ns, nq = (30000, 6000, 3000, 9000) if thorough else (500, 140, 100, 300)
    if n is not None:
        nf, nr, ns, nq = n, n // 3, n // 4, n // 2
    out = []
    for _ in range(nf):
        out.append(_float_case(rng))
    for _ in range(nr):
        out.append(_float_rel_case(rng))
    for _ in range(ns):
        out.append(_stretch_case(rng))
    for _ in range(max(10, nf // 4)):
        out.append(_cut_case(rng))
    for i in range(nq):
        out.append(_seq_case(rng, clean=(i % 3 == 0)))
    # the float-code decoder (glue) on the codes used above plus random bit patterns
    pool = [c for k in out[:nf] for c in k['input'][0]]
    for _ in range(max(20, nf // 5)):
        r = rng.random()
        if r < 0.5 and pool:
            c = rng.choice(pool)
        elif r < 0.8:
            c = rng.randint(-(0x7FEFFFFFFFFFFFFF), 0x7FEFFFFFFFFFFFFF)
        else:
            c = rng.choice([0, 1, -1, 2 ** 52 - 1, 2 ** 52, 2 ** 52 + 1, 0x7FEFFFFFFFFFFFFF, -0x7FEFFFFFFFFFFFFF,
                            code(0.5), code(1.0), code(-2.0), code(5e-324), code(2.2250738585072014e-308)])
        out.append({'op': 'fdec', 'input': c})
    # interleave so that every vm shard gets a similar mix (sequence cases are the expensive ones)
    rng.shuffle(out)
    return out


# ------------------------------------------------------------------ implementation
def _build(case):
    return nsio.to_proto(case['input']['desc'], tfun=uncode, qfun=uncode)


def _call(case, ns):
    sl = _sl()
    if case['op'] == 'abs':
        return sl.quantize_note_sequence_absolute(ns, case['input']['res'])
    return sl.quantize_note_sequence(ns, case['input']['res'])


def _me(x):
    return fl.me(x)


def impl(case):
    sl = _sl()
    op, a = case['op'], case['input']
    if op == 'q2s':
        sps = uncode(a[1])
        ts = [uncode(c) for c in a[0]]
        return [sl.quantize_to_step(t, sps) for t in ts]
    if op == 'q2s_cut':
        return _cut_call(a)
    if op == 'q2s_rel':
        t, spq, qpm = uncode(a[0]), a[1], uncode(a[2])
        sps = sl.steps_per_quarter_to_steps_per_second(spq, qpm)
        return [sl.quantize_to_step(t, sps), _me(sps)]
    if op == 'stretch':
        t, spq, qpm, f = uncode(a[0]), a[1], uncode(a[2]), uncode(a[3])
        s1 = sl.quantize_to_step(t, sl.steps_per_quarter_to_steps_per_second(spq, qpm))
        s2 = sl.quantize_to_step(t * f, sl.steps_per_quarter_to_steps_per_second(spq, qpm / f))
        return [s1, s2]
    if op == 'fdec':
        return _me(uncode(a))
    if op in ('abs', 'rel'):
        ns = _build(case)
        win = nsio.to_wire(ns, tfun=code, qfun=code)
        try:
            out = _call(case, ns)
        except Exception as e:  # noqa
            return ['EXC', type(e).__name__]
        return ['OK', _delta(op == 'rel', win, nsio.to_wire(out, tfun=code, qfun=code))]
    raise ValueError(op)


def _cut_arg(a):
    c = uncode(a[2])
    return int(c) if a[3] else c


def _cut_call(a):
    sl = _sl()
    sps, c = uncode(a[1]), _cut_arg(a)
    if a[4]:
        return [sl.quantize_to_step(uncode(t), sps, quantize_cutoff=c) for t in a[0]]
    return [sl.quantize_to_step(uncode(t), sps, c) for t in a[0]]


def _delta(rel, i, o):
    """The output sequence with every time printed as (time_out - time_in); mirrors Run/C01.v dSeq."""
    def dl(f, a, b):
        return [len(b), [f(x, y) for x, y in zip(a, b)]]

    def t0(x, y):       # first field is the time
        return [y[0] - x[0]] + list(y[1:])
    notes = dl(lambda x, y: [y[0], y[1], y[2] - x[2], y[3] - x[3]] + list(y[4:]), i[0], o[0])
    tempos = o[1] if rel else dl(lambda x, y: [y[0] - x[0], y[1] - x[1]], i[1], o[1])
    tsigs = o[2] if rel else dl(t0, i[2], o[2])
    return [notes, tempos, tsigs, dl(t0, i[3], o[3]), dl(t0, i[4], o[4]), dl(t0, i[5], o[5]), dl(t0, i[6], o[6]),
            dl(t0, i[7], o[7]), o[8] - i[8], o[9], o[10], o[11], [o[12][0] - i[12][0], o[12][1] - i[12][1]],
            o[13], o[14] - i[14]]


# ------------------------------------------------------------------ model
def model_input(case):
    op, a = case['op'], case['input']
    if op == 'q2s':
        return [1, a[0], a[1]]
    if op == 'q2s_cut':
        return [7, a[0], a[1], a[2]]
    if op == 'q2s_rel':
        return [2, a[0], a[1], a[2]]
    if op == 'stretch':
        return None
    if op == 'fdec':
        return [6, a]
    tag = 3 if op == 'abs' else 4
    return [tag, a['res'], nsio.to_wire(_build(case), tfun=code, qfun=code)]


_ERR = {1: 'MultipleTempoError', 2: 'MultipleTimeSignatureError', 3: 'BadTimeSignatureError', 4: 'NegativeTimeError'}


def _norm_me(p):
    m, e = p
    if m == 0:
        return [0, e]
    while m % 2 == 0:
        m //= 2
        e += 1
    return [m, e]


def model_output(case, m):
    op = case['op']
    if op in ('q2s', 'q2s_cut'):
        return m
    if op == 'fdec':
        return _norm_me(m)
    if op == 'q2s_rel':
        return [m[0], _norm_me(m[1])]
    if m[0] == -1000:
        return ['EXC', _ERR.get(m[1], 'model-error-%d' % m[1])]
    return ['OK', m[1]]


# ------------------------------------------------------------------ oracle: the property on the implementation
_HALF = Fraction(1, 2)
_REL = Fraction(1, 2 ** 50)


def _accept(p, exact_tie_claim=True, rel=_REL):
    """(lo, hi, want): the steps accepted as "the step nearest to the exact rational position
    p >= 0, ties up".  Outside a 2^-50-relative neighbourhood of a half-step boundary lo == hi ==
    floor(p + 1/2); inside it either neighbour is accepted (the float caveat made explicit in
    theorem q2s_nearest), except that an exact tie of an exactly representable product goes up."""
    want = math.floor(p + _HALF)
    d = rel * (p + 1)
    lo = math.floor(p + _HALF - d)
    hi = math.floor(p + _HALF + d)
    if lo != hi and exact_tie_claim and p + _HALF == want:
        return want, want, want
    return lo, hi, want


def _step_verdict(step, p, exact_tie_claim=True, rel=None):
    # float product (absolute / quantize_to_step): theorems q2s_nearest / q2s_tie_up, 2^-50;
    # exact rational tempo-relative position: theorem q2s_rel_nearest, 2^-49, ties by q2s_rel_tie_up
    if rel is None:
        rel = _REL if exact_tie_claim else 2 * _REL
    lo, hi, want = _accept(p, exact_tie_claim, rel)
    if lo <= step <= hi:
        return None
    if exact_tie_claim and p + _HALF == want:
        return 'tie-not-rounded-up'
    return 'not-nearest-step'


def _ulp_real(v):
    """Flocq's ulp of a positive real (Fraction): (2^max(e-52,-1074), e) with 2^e <= v < 2^(e+1)"""
    e = v.numerator.bit_length() - v.denominator.bit_length()
    if Fraction(2) ** e > v:
        e -= 1
    return Fraction(2) ** max(e - 52, -1074), e


def _gap_below(y):
    """y - pred(y) for a positive binary64-representable y"""
    u, e = _ulp_real(y)
    return u / 2 if (y == Fraction(2) ** e and e - 52 > -1074) else u


def _representable(v):
    try:
        return Fraction(float(v)) == v
    except OverflowError:
        return False


def _rel_tie_claim(t, spq, qpm):
    """Does the statement "an exact half-step tie of the exact position t*spq*qpm/60 rounds up" apply?
    (theorems q2s_rel_tie_up / q2s_rel_tie_up_exact; everything in exact rational arithmetic):
    the int*float product spq*qpm is exact, the position is exactly k + 1/2, and either the resolution
    x = spq*qpm/60 is exactly representable or its one rounding, scaled by t, stays below half the gap
    under k + 1/2:  t * ulp(x) < y - pred(y)."""
    F = Fraction
    prod = F(spq) * F(qpm)
    if not (1 <= spq <= 1024 and 1 <= qpm <= 1024 and 0 <= t <= 2.0 ** 40) or not _representable(prod):
        return False
    x = prod / 60
    y = F(t) * x
    if y.denominator != 2 or y >= 2 ** 40:
        return False
    if _representable(x):
        return True
    return F(t) * _ulp_real(x)[0] < _gap_below(y)


def _rel_verdict(step, t, spq, qpm):
    p = Fraction(t) * Fraction(spq) * Fraction(qpm) / 60
    return _step_verdict(step, p, _rel_tie_claim(t, spq, qpm), 2 * _REL)


def _oracle_float_list(ts, sps, steps):
    F = Fraction
    for t, s in zip(ts, steps):
        p = F(t) * F(sps)
        if p >= 0:
            v = _step_verdict(s, p)
            if v:
                return {'kind': v, 't': t.hex(), 'sps': sps.hex(), 'got': s, 'want': math.floor(p + _HALF)}
        elif p <= -2 and s >= 0:
            return {'kind': 'two-steps-before-zero-not-negative', 't': t.hex(), 'sps': sps.hex(), 'got': s}
    order = sorted(range(len(ts)), key=lambda i: ts[i])
    for i, j in zip(order, order[1:]):
        if steps[i] > steps[j]:
            return {'kind': 'not-monotone', 't1': ts[i].hex(), 't2': ts[j].hex(), 'sps': sps.hex(),
                    'steps': [steps[i], steps[j]]}
    return None


def _oracle_cut(a, io):
    """quantize_to_step with the REQUESTED cutoff c: a position n + f goes to step n when f is below the cutoff
    and to n + 1 when it is above, i.e. floor(p + (1 - c)) outside a 2^-50-relative neighbourhood of the
    boundary; exactly on the boundary it goes up when every operand is exact (same rule as the tie at 0.5)."""
    F = Fraction
    sl = _sl()
    sps, c = uncode(a[1]), _cut_arg(a)
    ts = [uncode(t) for t in a[0]]
    steps = _cut_call(a)
    if steps != io:
        return {'kind': 'repeated-call-differs', 'op': 'q2s_cut'}
    shift = 1 - F(c)
    shift_exact = F(float(1 - c)) == shift
    for t, st in zip(ts, steps):
        p = F(t) * F(sps)
        if p < 0:
            continue
        d = _REL * (p + 2)
        lo, hi = math.floor(p + shift - d), math.floor(p + shift + d)
        if lo != hi and shift_exact and _representable(p) and (p + shift).denominator == 1:
            lo = hi = int(p + shift)
        if not lo <= st <= hi:
            return {'kind': 'cutoff-not-honoured', 't': t.hex(), 'sps': sps.hex(), 'cutoff': repr(c), 'got': st,
                    'want': math.floor(p + shift)}
        # the default is not disturbed by a call with another cutoff (no state between calls)
        v = _step_verdict(sl.quantize_to_step(t, sps), p)
        if v:
            return {'kind': v, 'after_explicit_cutoff': repr(c), 't': t.hex(), 'sps': sps.hex()}
        if float(c) == 0.5 and sl.quantize_to_step(t, sps) != st:
            return {'kind': 'explicit-default-cutoff-differs-from-default', 't': t.hex(), 'sps': sps.hex()}
    return None


def _is_pow2(x):
    return x > 0 and (x & (x - 1)) == 0


def _strip(ns, rel):
    """copy with everything quantization is allowed to write removed"""
    from note_seq.protobuf import music_pb2
    c = music_pb2.NoteSequence()
    c.CopyFrom(ns)
    for n in c.notes:
        n.quantized_start_step = 0
        n.quantized_end_step = 0
    for e in itertools.chain(c.control_changes, c.text_annotations):
        e.quantized_step = 0
    c.total_quantized_steps = 0
    c.ClearField('quantization_info')
    if rel:
        c.ClearField('tempos')
        c.ClearField('time_signatures')
    return c.SerializeToString(deterministic=True)


_LIVE = []          # (input proto, its bytes, output proto or None, its bytes) of earlier cases, kept alive


def _state_checks(case, ns, before, out, exc):
    """No state between calls, no aliasing between argument and result (the "copy" of the statement)."""
    op = case['op']
    ser = lambda m: m.SerializeToString(deterministic=True)   # noqa
    # (iv) objects of earlier cases are still what they were
    for (i0, b0, o0, ob0) in _LIVE:
        if ser(i0) != b0 or (o0 is not None and ser(o0) != ob0):
            return {'kind': 'earlier-object-changed-by-later-call', 'op': op}, ns, out
    out_b = ser(out) if out is not None else None
    # (i) the same call again, on the same argument object and on a fresh equal one
    for arg in (ns, _build(case)):
        try:
            o2 = _call(case, arg)
            r2 = ser(o2)
        except Exception as e:  # noqa
            o2, r2 = None, type(e).__name__
        if (r2 != out_b) if out is not None else (r2 != exc):
            return {'kind': 'repeated-call-differs', 'op': op, 'res': case['input']['res']}, ns, out
        if ser(arg) != before:
            return {'kind': 'input-mutated', 'op': op, 'on': 'second call'}, ns, out
    if out is not None:
        if out is ns:
            return {'kind': 'result-is-the-argument', 'op': op}, ns, out
        # (iii) edit the first result in every repeated field; the argument and the second result stay
        keep = _call(case, ns)
        for n in out.notes:
            n.pitch = (n.pitch + 1) % 128
            n.start_time += 1.0
            n.quantized_start_step = n.quantized_start_step % 1000 + 5
        for e in itertools.chain(out.control_changes, out.text_annotations):
            e.time += 1.0
            e.quantized_step += 3
        for t in out.tempos:
            t.qpm += 1.0
        for t in out.time_signatures:
            t.numerator = 1 + t.numerator % 7
        out.notes.add().pitch = 1
        out.tempos.add().qpm = 33.0
        out.total_time += 1.0
        out.total_quantized_steps += 9
        out.quantization_info.steps_per_quarter = 77
        if ser(ns) != before:
            return {'kind': 'result-aliases-argument', 'op': op}, ns, out
        if ser(keep) != out_b:
            return {'kind': 'results-alias-each-other', 'op': op}, ns, out
        # ... and edit the argument: an earlier result does not follow
        for n in ns.notes:
            n.velocity = 1 + n.velocity % 127
            n.end_time += 2.0
        ns.total_time += 2.0
        del ns.tempos[:]
        if ser(keep) != out_b:
            return {'kind': 'result-aliases-argument', 'op': op, 'direction': 'argument edited'}, ns, out
        out = keep
    fresh = _build(case)
    _LIVE.append((fresh, before, out, out_b))
    if len(_LIVE) > 6:
        _LIVE.pop(0)
    return None, fresh, out


def _oracle_seq(case):
    F = Fraction
    op, res = case['op'], case['input']['res']
    ns = _build(case)
    before = ns.SerializeToString(deterministic=True)
    exc = None
    out = None
    try:
        out = _call(case, ns)
    except Exception as e:  # noqa
        exc = type(e).__name__
    if ns.SerializeToString(deterministic=True) != before:
        return {'kind': 'input-mutated', 'op': op}
    rel = op == 'rel'
    v, ns, out = _state_checks(case, ns, before, out, exc)      # fresh, unedited argument / result
    if v:
        return v
    # ---- what the statement says must be rejected
    must = set()        # error classes of which one must be raised
    may = set()         # additionally tolerated (grey zone: between 1 and 2 steps before zero)
    sps_exact = F(res)
    if rel:
        tss = sorted(ns.time_signatures, key=lambda t: t.time)
        if tss:
            if any((t.numerator, t.denominator) != (tss[0].numerator, tss[0].denominator) for t in tss):
                must.add('MultipleTimeSignatureError')
            if tss[0].time != 0 and (tss[0].numerator, tss[0].denominator) != (4, 4):
                must.add('MultipleTimeSignatureError')
            if tss[0].numerator == 0 or not _is_pow2(tss[0].denominator):
                must.add('BadTimeSignatureError')
            if any(t.numerator == 0 or not _is_pow2(t.denominator) for t in tss):
                may.add('BadTimeSignatureError')
        tps = sorted(ns.tempos, key=lambda t: t.time)
        qpm = 120.0
        if tps:
            if any(t.qpm != tps[0].qpm for t in tps):
                must.add('MultipleTempoError')
            if tps[0].time != 0 and tps[0].qpm != 120.0:
                must.add('MultipleTempoError')
            qpm = tps[0].qpm
        sps_exact = F(res) * F(qpm) / 60
    times = [n.start_time for n in ns.notes] + [n.end_time for n in ns.notes] + \
            [e.time for e in ns.control_changes] + [e.time for e in ns.text_annotations]
    single_resolution = not (must & {'MultipleTempoError'})
    if single_resolution:
        if any(F(t) * sps_exact <= -2 for t in times):
            must.add('NegativeTimeError')
        elif any(F(t) * sps_exact < 0 for t in times):
            may.add('NegativeTimeError')
    wit = {'op': op, 'res': res}
    if exc is not None:
        if exc in must or (exc in may):
            return None
        if must:
            return {'kind': 'wrong-error-class', 'got': exc, 'expected_one_of': sorted(must), **wit}
        return {'kind': 'valid-sequence-rejected', 'got': exc, **wit}
    if must:
        k = sorted(must)[0]
        kind = {'MultipleTempoError': 'tempo-change-not-rejected',
                'MultipleTimeSignatureError': 'time-signature-change-not-rejected',
                'BadTimeSignatureError': 'bad-time-signature-not-rejected',
                'NegativeTimeError': 'negative-time-not-rejected'}[k]
        d = {'kind': kind, **wit}
        if k == 'MultipleTempoError':
            d['tempos'] = [[t.time, t.qpm] for t in ns.tempos]
            d['kept'] = [[t.time, t.qpm] for t in out.tempos]
            d['stored_in_time_order'] = [t.time for t in ns.tempos] == sorted(t.time for t in ns.tempos)
        if k == 'MultipleTimeSignatureError':
            d['time_signatures'] = [[t.time, t.numerator, t.denominator] for t in ns.time_signatures]
            d['stored_in_time_order'] = [t.time for t in ns.time_signatures] == sorted(t.time for t in ns.time_signatures)
        return d
    # ---- accepted: every clause of the statement on the output
    if len(out.notes) != len(ns.notes) or len(out.control_changes) != len(ns.control_changes) or \
            len(out.text_annotations) != len(ns.text_annotations):
        return {'kind': 'event-count-changed', **wit}
    if _strip(out, rel) != _strip(ns, rel):
        return {'kind': 'unrelated-field-changed', **wit}
    qi = out.quantization_info
    if rel:
        if qi.steps_per_quarter != res or qi.WhichOneof('resolution') != 'steps_per_quarter':
            return {'kind': 'quantization-info-wrong', **wit}
        tss = sorted(ns.time_signatures, key=lambda t: t.time)
        want_ts = (tss[0].numerator, tss[0].denominator) if tss else (4, 4)
        got_ts = [(t.time, t.numerator, t.denominator) for t in out.time_signatures]
        if got_ts != [(0.0,) + want_ts]:
            return {'kind': 'time-signature-not-made-explicit', 'got': got_ts, **wit}
        tps = sorted(ns.tempos, key=lambda t: t.time)
        want_q = tps[0].qpm if tps else 120.0
        got_tp = [(t.time, t.qpm) for t in out.tempos]
        if got_tp != [(0.0, want_q)]:
            return {'kind': 'tempo-not-made-explicit', 'got': got_tp, **wit}
    else:
        if qi.steps_per_second != res or qi.WhichOneof('resolution') != 'steps_per_second':
            return {'kind': 'quantization-info-wrong', **wit}

    def pos(t):
        return F(t) * sps_exact

    def chk(step, t, what, i):
        p = pos(t)
        if p < 0:
            return None if step >= 0 else {'kind': 'negative-step-in-output', 'what': what, 'index': i, **wit}
        v = _rel_verdict(step, t, res, qpm) if rel else _step_verdict(step, p)
        if v:
            return {'kind': v, 'what': what, 'index': i, 't': t.hex(), 'got': step,
                    'want': math.floor(p + _HALF), **wit}
        return None
    max_end = None
    for i, (n, m) in enumerate(zip(ns.notes, out.notes)):
        v = chk(m.quantized_start_step, n.start_time, 'note-start', i)
        if v:
            return v
        qs, qe = m.quantized_start_step, m.quantized_end_step
        if n.start_time <= n.end_time and qe < qs + 1:
            return {'kind': 'note-shorter-than-one-step', 'index': i, 'steps': [qs, qe], **wit}
        if qe != qs + 1 or pos(n.end_time) < 0:
            v = chk(qe, n.end_time, 'note-end', i)
            if v:
                return v
        else:
            # qe == qs+1: either the end's own nearest step, or the bumped zero-length note
            pe = pos(n.end_time)
            vd = (lambda st: _rel_verdict(st, n.end_time, res, qpm)) if rel else (lambda st: _step_verdict(st, pe))
            if vd(qe) and vd(qs):
                return {'kind': 'not-nearest-step', 'what': 'note-end', 'index': i, 't': n.end_time.hex(),
                        'got': qe, 'want': math.floor(pe + _HALF), **wit}
        max_end = qe if max_end is None else max(max_end, qe)
    tq = out.total_quantized_steps
    if max_end is not None and tq < max_end:
        return {'kind': 'total-steps-do-not-cover-notes', 'total': tq, 'max_end': max_end, **wit}
    if ns.total_time >= 0:
        # total_quantized_steps = max(step(total_time), every note end)
        lo, hi, want = _accept(pos(ns.total_time), _rel_tie_claim(ns.total_time, res, qpm) if rel else True,
                               2 * _REL if rel else _REL)
        if not any((s if max_end is None else max(s, max_end)) == tq for s in range(lo, hi + 1)):
            return {'kind': 'total-steps-wrong', 'total': tq, 'want_total_time_step': want, 'max_end': max_end, **wit}
    for what, a, b in (('control-change', ns.control_changes, out.control_changes),
                       ('text-annotation', ns.text_annotations, out.text_annotations)):
        for i, (e, m) in enumerate(zip(a, b)):
            v = chk(m.quantized_step, e.time, what, i)
            if v:
                return v
    # monotone over all event times of this sequence
    pairs = sorted([(n.start_time, m.quantized_start_step) for n, m in zip(ns.notes, out.notes)] +
                   [(e.time, m.quantized_step) for e, m in zip(ns.control_changes, out.control_changes)] +
                   [(e.time, m.quantized_step) for e, m in zip(ns.text_annotations, out.text_annotations)])
    for (t1, s1), (t2, s2) in zip(pairs, pairs[1:]):
        if t1 <= t2 and s1 > s2 and t1 != t2:
            return {'kind': 'not-monotone', 't1': t1.hex(), 't2': t2.hex(), 'steps': [s1, s2], **wit}
    return None


def oracle(case, io):
    sl = _sl()
    op, a = case['op'], case['input']
    F = Fraction
    if op == 'q2s':
        sps = uncode(a[1])
        ts = [uncode(c) for c in a[0]]
        steps = [sl.quantize_to_step(t, sps) for t in ts]
        if steps != io or [sl.quantize_to_step(t, sps) for t in reversed(ts)] != steps[::-1]:
            return {'kind': 'repeated-call-differs', 'op': op, 'sps': sps.hex()}
        # Python ints are accepted for both arguments and mean the same number
        for t, st in zip(ts, steps):
            if t == int(t) and sl.quantize_to_step(int(t), sps) != st:
                return {'kind': 'int-time-differs-from-float', 't': t.hex(), 'sps': sps.hex()}
            if sps == int(sps) and sl.quantize_to_step(t, int(sps)) != st:
                return {'kind': 'int-resolution-differs-from-float', 't': t.hex(), 'sps': sps.hex()}
        return _oracle_float_list(ts, sps, steps)
    if op == 'q2s_cut':
        return _oracle_cut(a, io)
    if op == 'q2s_rel':
        t, spq, qpm = uncode(a[0]), a[1], uncode(a[2])
        sps = sl.steps_per_quarter_to_steps_per_second(spq, qpm)
        s = sl.quantize_to_step(t, sps)
        if [s, _me(sps)] != io:
            return {'kind': 'repeated-call-differs', 'op': op, 'spq': spq, 'qpm': qpm.hex()}
        p = F(t) * F(spq) * F(qpm) / 60
        if p >= 0:
            v = _rel_verdict(s, t, spq, qpm)
            if v:
                return {'kind': v, 't': t.hex(), 'spq': spq, 'qpm': qpm.hex(), 'got': s, 'want': math.floor(p + _HALF),
                        'sps': float(sps).hex()}
        # theorem sps_rel_correctly_rounded: one rounding when the int * float product is exact
        if _representable(F(spq) * F(qpm)) and 1 <= qpm <= 1024:
            want = float(F(spq) * F(qpm) / 60)       # int / int true division: correctly rounded
            if float(sps) != want:
                return {'kind': 'steps-per-second-not-correctly-rounded', 'spq': spq, 'qpm': qpm.hex(),
                        'got': float(sps).hex(), 'want': want.hex()}
        return None
    if op == 'fdec':
        return None
    if op == 'stretch':
        t, spq, qpm, f = uncode(a[0]), a[1], uncode(a[2]), uncode(a[3])
        s1, s2 = io
        p = F(t) * F(spq) * F(qpm) / 60
        d = _REL * 4 * (p + 1)          # theorem stretch_invariance_float: 2^-48
        if math.floor(p + _HALF - d) == math.floor(p + _HALF + d) and s1 != s2:
            return {'kind': 'not-stretch-invariant', 't': t.hex(), 'spq': spq, 'qpm': qpm.hex(), 'f': f.hex(),
                    'steps': [s1, s2]}
        return None
    return _oracle_seq(case)


def _near_boundary(p):
    """within 2^-40 relative of a half-step boundary, or negative"""
    if p < 0:
        return True
    fr = p + _HALF - math.floor(p + _HALF)
    return min(fr, 1 - fr) <= Fraction(1, 2 ** 40) * (p + 1)


_STATS = {'float_cases_near_boundary': 0, 'float_cases_elsewhere': 0, 'sequence_errors': {}, 'sequences_accepted': 0,
          'sequences_with_zero_length_bump': 0, 'sequences_total_from_total_time': 0}


def extra_evidence():
    return {'input_distribution': _STATS}


def nontrivial(case, io):
    op, a = case['op'], case['input']
    F = Fraction
    if op in ('q2s', 'q2s_rel', 'stretch'):
        if op == 'q2s':
            nb = any(_near_boundary(F(uncode(c)) * F(uncode(a[1]))) for c in a[0])
        else:
            nb = _near_boundary(F(uncode(a[0])) * F(a[1]) * F(uncode(a[2])) / 60)
        _STATS['float_cases_near_boundary' if nb else 'float_cases_elsewhere'] += 1
        return nb
    if op == 'fdec':
        return True
    if op == 'q2s_cut':
        c = Fraction(uncode(a[2]))
        return any(_near_boundary(F(uncode(t)) * F(uncode(a[1])) + _HALF - c) for t in a[0])
    if io[0] == 'EXC':
        _STATS['sequence_errors'][io[1]] = _STATS['sequence_errors'].get(io[1], 0) + 1
        return True
    _STATS['sequences_accepted'] += 1
    notes = io[1][0][1]
    if any(n[8] == n[7] + 1 for n in notes):
        _STATS['sequences_with_zero_length_bump'] += 1
    if not notes or io[1][9] > max(n[8] for n in notes):
        _STATS['sequences_total_from_total_time'] += 1
    d = a['desc']
    return bool(d['notes'] or d['ccs'] or d['texts'])


def shrink(case):
    op, a = case['op'], case['input']
    if op in ('q2s', 'q2s_cut'):
        for i in range(len(a[0])):
            if len(a[0]) > 1:
                yield {'op': op, 'input': [a[0][:i] + a[0][i + 1:]] + list(a[1:])}
        return
    if op in ('abs', 'rel'):
        for d in nsio.shrink_desc(a['desc']):
            yield {'op': op, 'input': {'res': a['res'], 'desc': d}}
        d = a['desc']
        for k, v in (('qsteps', 0), ('spq', 0), ('sps', 0), ('sub', [0, 0])):
            if d.get(k) != v:
                c = dict(d); c[k] = v
                yield {'op': op, 'input': {'res': a['res'], 'desc': c}}


META = {
    'level_text': ('Theorems for ALL finite binary64 times and resolutions in the stated ranges: quantize_to_step is '
                   'monotone, returns the nearest step floor(p+1/2) of the exact product p whenever p is outside a '
                   '2^-50-relative neighbourhood of a half-step boundary, rounds exact ties up, is non-negative for '
                   'non-negative times and negative two or more steps before zero; for ALL sequences and ALL step '
                   'functions: _quantize_notes / quantize_note_sequence(_absolute) write only the quantized fields '
                   '(frame theorems by record equality), keep notes at least one step long, make total_quantized_steps '
                   'the maximum of the quantized total_time and all note ends, make the single tempo / time signature '
                   'explicit at time zero, and raise exactly the documented error for tempo / time-signature changes, '
                   'bad time signatures and negative steps.'),
    'level_note': ('Trusted: Coq kernel + vm_compute, Flocq PrimFloat bridge and the FloatAxioms specifications of the '
                   'primitive float operations; the hand-written model Model/Quantize.v, tied to the code by a bit-exact '
                   'differential run (float points around rounding boundaries and whole sequences incl. malformed ones); '
                   'QUANTIZE_CUTOFF and the default qpm are regenerated from the code on every run. Deep copy / aliasing '
                   'are not modelled (non-mutation of the input is tested by the oracle on every case).'),
}
