"""C05 — MusicXML scores parse to the notes, key, meter and tempo they declare.

Abstract score (JSON):
  {'parts': [{'midi': [channel, program] | None, 'measures': [[elem, ...], ...]}, ...]}
  elem = ['attr', [item, ...]]      item = ['div', d] | ['key', fifths, mode] | ['time', beats, beat_type]
                                           | ['transpose', chromatic]          (mode 0 absent 1 major 2 minor 3 dorian)
       | ['note', rest, chord, step, alter, octave, dur, voice, type, dots, tup_actual, tup_normal]
       | ['backup', d] | ['forward', d] | ['tempo', 'decimal text']
       | ['harmony', root, kind, [deg, ...], bass, offset]     root, bass = None | [step, alter | None]
                      kind = index into CHORD_KIND_ABBREVIATIONS (dict order), -1 absent, -2 unknown text
                      deg = [value, alter | None, type]  (type 0 add, 1 subtract, 2 alter, 3 invalid text)   offset = None | int
The harness serialises it to partwise MusicXML (plain .xml and the same bytes inside a .mxl zip), runs the real
musicxml_reader.musicxml_file_to_sequence_proto on both, and compares with the Gallina model (exact rationals).
"""
import ast
import fractions
import inspect
import itertools
import io
import os
import shutil
import tempfile
import zipfile

from vt import coqgen as G

F = fractions.Fraction
ID = 'C05'
USE_VM = False
TYPE_NAMES = ['maxima', 'long', 'breve', 'whole', 'half', 'quarter', 'eighth', '16th', '32nd', '64th',
              '128th', '256th', '512th', '1024th']
STEPS = 'CDEFGAB'
STEP_PC = [0, 2, 4, 5, 7, 9, 11]           # the property's own table (C D E F G A B), not read from the code
MODES = {0: None, 1: 'major', 2: 'minor', 3: 'dorian'}
DIVS = list(range(1, 17)) + [24, 96, 480, 960]
TOL = 1e-9

RULE = ('seeded generator of abstract partwise scores per the quantifier (1-3 parts, 1-6 measures, divisions in '
        '{1..16,24,96,480,960} with an integral beat, meters n/2 n/4 n/8, fifths -7..7 x mode, tempo changes, transposing '
        'parts, second voice via backup, chords, rests, dots, tuplets, pickup / overfull / forward-only measures, every '
        'spelling step x alter -2..2 x octave, <harmony> from the regenerated kind table), serialised to .xml and .mxl and parsed by the real reader; plus a small '
        'malformed stream for the error classes. non-trivial = parsed without error with at least two sounding notes; '
        'distinct by canonical abstract score')
ASSUMPTIONS = ['XML / zip parsing (xml.etree, zipfile) is exercised, not modelled; the serialiser emits note children in schema order',
               'implementation times are binary64 and compared with the exact-rational model at relative tolerance 1e-9; '
               'duplicate time/key signatures that differ only by float noise are merged before comparison unless the score is '
               'dyadic (all arithmetic exact), where the lists must agree exactly',
               'tempo in force is read in document order within a part; the velocity / dynamics path is not modelled',
               'minor keys: the key field is the table value of <fifths> (literal "tonic from fifths"), the mode field follows <mode>']
TRUSTED = ['harness/vt/props/c05.py: abstract-score -> MusicXML serialiser and the declarative cursor/key/tempo oracle']


# ------------------------------------------------------------------ regenerated constants
def gen_coq():
    from note_seq import constants, musicxml_parser, musicxml_reader
    st = musicxml_parser.MusicXMLParserState()
    if st.qpm * st.seconds_per_quarter != 60 or st.time_position != 0 or st.transpose != 0 \
            or st.time_signature is not None or st.previous_note is not None:
        raise TypeError('MusicXMLParserState defaults changed shape: %r' % (vars(st),))
    trm = musicxml_parser.NoteDuration.TYPE_RATIO_MAP
    if sorted(trm) != sorted(TYPE_NAMES):
        raise TypeError('TYPE_RATIO_MAP keys changed: %r' % (sorted(trm),))
    # music_proto_keys is a literal inside musicxml_to_sequence_proto: read it from the source, fail closed
    tree = ast.parse(inspect.getsource(musicxml_reader.musicxml_to_sequence_proto))
    keys = None
    for node in ast.walk(tree):
        if isinstance(node, ast.Assign) and len(node.targets) == 1 and \
                getattr(node.targets[0], 'id', None) == 'music_proto_keys':
            keys = ast.literal_eval(node.value)
    if not isinstance(keys, list):
        raise TypeError('music_proto_keys literal not found in musicxml_to_sequence_proto')
    s = 'From Coq Require Import ZArith List.\nImport ListNotations.\nLocal Open Scope Z_scope.\n\n'
    s += G.defz('DEFAULT_QPM', constants.DEFAULT_QUARTERS_PER_MINUTE)
    s += G.defz('INIT_QPM', st.qpm)
    s += G.defz('INIT_DIVISIONS', st.divisions)
    s += G.defz('DEFAULT_MIDI_CHANNEL', musicxml_parser.DEFAULT_MIDI_CHANNEL)
    s += G.defz('DEFAULT_MIDI_PROGRAM', musicxml_parser.DEFAULT_MIDI_PROGRAM)
    s += G.defzlist('MUSIC_PROTO_KEYS', keys)
    kinds = musicxml_parser.ChordSymbol.CHORD_KIND_ABBREVIATIONS
    s += 'Definition CHORD_KINDS : list (list Z * list Z) :=\n  [%s].\n' % ';\n   '.join(
        '(%s, %s)' % (G.string(k), G.string(v)) for k, v in kinds.items())
    s += 'Definition NOTE_TYPE_RATIOS : list (Z * Z) :=\n  [%s].\n' % '; '.join(
        '(%s, %s)' % (G.z(trm[n].numerator), G.z(trm[n].denominator)) for n in TYPE_NAMES)
    return s


# ------------------------------------------------------------------ serialiser
def _attr_xml(items):
    out = ['<attributes>']
    for it in items:
        if it[0] == 'div':
            out.append('<divisions>%d</divisions>' % it[1])
        elif it[0] == 'key':
            m = MODES[it[2]]
            out.append('<key><fifths>%d</fifths>%s</key>' % (it[1], '<mode>%s</mode>' % m if m else ''))
        elif it[0] == 'time':
            out.append('<time><beats>%d</beats><beat-type>%d</beat-type></time>' % (it[1], it[2]))
        elif it[0] == 'transpose':
            out.append('<transpose><diatonic>0</diatonic><chromatic>%d</chromatic></transpose>' % it[1])
        else:
            raise ValueError(it)
    out.append('</attributes>')
    return ''.join(out)


def _elem_xml(e):
    k = e[0]
    if k == 'attr':
        return _attr_xml(e[1])
    if k == 'note':
        _, rest, chord, step, alter, octave, dur, voice, ty, dots, ta, tn = e
        s = '<note>'
        if chord:
            s += '<chord/>'
        if rest:
            s += '<rest/>'
        else:
            stp = STEPS[step] if 0 <= step < 7 else 'H'
            s += '<pitch><step>%s</step>%s<octave>%d</octave></pitch>' % (
                stp, '<alter>%d</alter>' % alter if alter else '', octave)
        s += '<duration>%d</duration><voice>%d</voice>' % (dur, voice)
        s += '<type>%s</type>' % (TYPE_NAMES[ty] if 0 <= ty < len(TYPE_NAMES) else 'semihemidemi')
        s += '<dot/>' * dots
        if ta:
            s += '<time-modification><actual-notes>%d</actual-notes><normal-notes>%d</normal-notes></time-modification>' % (ta, tn)
        return s + '</note>'
    if k in ('backup', 'forward'):
        return '<%s><duration>%d</duration></%s>' % (k, e[1], k)
    if k == 'harmony':
        _, root, kind, degs, bass, offset = e
        s = '<harmony>'
        if root is not None:
            s += '<root><root-step>%s</root-step>%s</root>' % (
                STEPS[root[0]] if 0 <= root[0] < 7 else 'H', '' if root[1] is None else '<root-alter>%d</root-alter>' % root[1])
        if kind != -1:
            s += '<kind>%s</kind>' % (_kind_names()[kind] if kind >= 0 else 'no-such-kind')
        if bass is not None:
            s += '<bass><bass-step>%s</bass-step>%s</bass>' % (
                STEPS[bass[0]] if 0 <= bass[0] < 7 else 'H', '' if bass[1] is None else '<bass-alter>%d</bass-alter>' % bass[1])
        for v, a, ty in degs:
            s += '<degree><degree-value>%d</degree-value>%s<degree-type>%s</degree-type></degree>' % (
                v, '' if a is None else '<degree-alter>%d</degree-alter>' % a, ['add', 'subtract', 'alter', 'bogus'][ty])
        if offset is not None:
            s += '<offset>%d</offset>' % offset
        return s + '</harmony>'
    if k == 'tempo':
        return '<direction placement="above"><direction-type><words>t</words></direction-type><sound tempo="%s"/></direction>' % e[1]
    raise ValueError(e)


def _kind_names():
    from note_seq import musicxml_parser
    return list(musicxml_parser.ChordSymbol.CHORD_KIND_ABBREVIATIONS)


def to_xml(score):
    out = ['<?xml version="1.0" encoding="UTF-8" standalone="no"?>\n<score-partwise version="3.0"><part-list>']
    for i, p in enumerate(score['parts']):
        out.append('<score-part id="P%d"><part-name>part %d</part-name>' % (i + 1, i + 1))
        if p.get('midi'):
            out.append('<midi-instrument id="P%d-I1"><midi-channel>%d</midi-channel><midi-program>%d</midi-program>'
                       '</midi-instrument>' % (i + 1, p['midi'][0], p['midi'][1]))
        out.append('</score-part>')
    out.append('</part-list>')
    for i, p in enumerate(score['parts']):
        out.append('<part id="P%d">' % (i + 1))
        for j, m in enumerate(p['measures']):
            out.append('<measure number="%d">' % (j + 1))
            out.extend(_elem_xml(e) for e in m)
            out.append('</measure>')
        out.append('</part>')
    out.append('</score-partwise>\n')
    return ''.join(out)


def to_mxl_bytes(xml_text):
    from note_seq import musicxml_parser
    buf = io.BytesIO()
    with zipfile.ZipFile(buf, 'w', zipfile.ZIP_DEFLATED) as z:
        z.writestr('META-INF/container.xml',
                   '<?xml version="1.0" encoding="UTF-8"?><container><rootfiles>'
                   '<rootfile full-path="score.xml" media-type="%s"/></rootfiles></container>'
                   % musicxml_parser.MUSICXML_MIME_TYPE)
        z.writestr('score.xml', xml_text)
    return buf.getvalue()


# ------------------------------------------------------------------ implementation
def _canon_proto(ns):
    tsigs = sorted([[float(t.time), int(t.numerator), int(t.denominator)] for t in ns.time_signatures],
                   key=lambda x: (round(x[0], 6), x[1], x[2]))
    ksigs = sorted([[float(k.time), int(k.key), int(k.mode)] for k in ns.key_signatures],
                   key=lambda x: (round(x[0], 6), x[1], x[2]))
    tempos = [[float(t.time), float(t.qpm)] for t in ns.tempos]
    notes = sorted([[int(n.part), int(n.voice), int(n.instrument), int(n.program), int(n.pitch),
                     float(n.start_time), float(n.end_time), int(n.numerator), int(n.denominator)] for n in ns.notes],
                   key=lambda x: (x[0], x[1], x[4], round(x[5], 6), round(x[6], 6)))
    chords = sorted([[float(t.time), str(t.text), int(t.annotation_type)] for t in ns.text_annotations],
                    key=lambda x: (round(x[0], 6), x[1]))
    return ['OK', tsigs, ksigs, tempos, notes, float(ns.total_time), chords]


def _read(path):
    from note_seq import musicxml_reader
    try:
        return _canon_proto(musicxml_reader.musicxml_file_to_sequence_proto(path)), None
    except Exception as e:  # noqa
        return ['EXC', type(e).__name__], None


def impl(case):
    score = case['input']
    xml = to_xml(score)
    d = tempfile.mkdtemp(prefix='vt-c05-')
    try:
        px = os.path.join(d, 'score.xml')
        with open(px, 'w', encoding='utf-8') as f:
            f.write(xml)
        a, _ = _read(px)
        pm = os.path.join(d, 'score.mxl')
        with open(pm, 'wb') as f:
            f.write(to_mxl_bytes(xml))
        b, _ = _read(pm)
    finally:
        shutil.rmtree(d, ignore_errors=True)
    if a != b:
        return ['MXL-DIFFERS', a, b]
    return a


# ------------------------------------------------------------------ model side
def _flat(m):
    """measure elements -> wire tokens (attributes flattened in document order)."""
    out = []
    for e in m:
        k = e[0]
        if k == 'attr':
            for it in e[1]:
                if it[0] == 'div':
                    out.append([5, it[1]])
                elif it[0] == 'key':
                    out.append([6, it[1], it[2]])
                elif it[0] == 'time':
                    out.append([7, it[1], it[2]])
                elif it[0] == 'transpose':
                    out.append([8, it[1]])
        elif k == 'note':
            out.append([9, 1 if e[1] else 0, 1 if e[2] else 0] + [int(x) for x in e[3:]])
        elif k == 'backup':
            out.append([10, e[1]])
        elif k == 'forward':
            out.append([11, e[1]])
        elif k == 'tempo':
            q = F(e[1])
            out.append([12, q.numerator, q.denominator])
        elif k == 'harmony':
            _, root, kind, degs, bass, offset = e
            po = lambda p: [] if p is None else ([p[0]] if p[1] is None else [p[0], p[1]])
            out.append([13, po(root), kind if kind >= -1 else 10 ** 6,
                        [[v, ty] if a is None else [v, ty, a] for v, a, ty in degs], po(bass),
                        [] if offset is None else [offset]])
    return out


def model_input(case):
    from note_seq import musicxml_parser as mp
    parts = []
    for p in case['input']['parts']:
        c, g = p['midi'] if p.get('midi') else (mp.DEFAULT_MIDI_CHANNEL, mp.DEFAULT_MIDI_PROGRAM)
        parts.append([c, g, [_flat(m) for m in p['measures']]])
    return [1, parts]


_ERR = {1: 'MusicXMLConversionError', 2: 'AttributeError', 3: 'IndexError'}


def _q(p):
    return float(F(p[0], p[1]))


def model_output(case, out):
    if out and out[0] == -1000:
        return ['EXC', _ERR.get(out[1], 'model-error-%d' % out[1])]
    _, ts, ks, tm, ns, total, ch = out
    tsigs = sorted([[_q(t), n, d] for t, n, d in ts], key=lambda x: (round(x[0], 6), x[1], x[2]))
    ksigs = sorted([[_q(t), k, m] for t, k, m in ks], key=lambda x: (round(x[0], 6), x[1], x[2]))
    tempos = [[_q(t), _q(q)] for t, q in tm]
    notes = sorted([[p, v, i, g, pi, _q(s), _q(e), n, d] for p, v, i, g, pi, s, e, n, d in ns],
                   key=lambda x: (x[0], x[1], x[4], round(x[5], 6), round(x[6], 6)))
    from note_seq import musicxml_reader
    chords = sorted([[_q(t), ''.join(chr(c) for c in f), int(musicxml_reader.CHORD_SYMBOL)] for t, f in ch],
                    key=lambda x: (round(x[0], 6), x[1]))
    return ['OK', tsigs, ksigs, tempos, notes, _q(total), chords]


def _close(a, b):
    return abs(a - b) <= TOL * max(1.0, abs(a), abs(b))


def _approx(a, b):
    if isinstance(a, float) or isinstance(b, float):
        return isinstance(a, (int, float)) and isinstance(b, (int, float)) and _close(float(a), float(b))
    if isinstance(a, list) and isinstance(b, list):
        return len(a) == len(b) and all(_approx(x, y) for x, y in zip(a, b))
    return a == b


def _merge_noise(sigs):
    """Drop an entry equal to an earlier one up to float noise in its time."""
    out = []
    for s in sigs:
        if not any(s[1:] == o[1:] and _close(s[0], o[0]) for o in out):
            out.append(s)
    return out


def equal(case, a, b):
    if not (isinstance(a, list) and isinstance(b, list) and a and b and a[0] == 'OK' and b[0] == 'OK'):
        return a == b
    if not case.get('exact'):
        a = [a[0], _merge_noise(a[1]), _merge_noise(a[2])] + a[3:]
        b = [b[0], _merge_noise(b[1]), _merge_noise(b[2])] + b[3:]
    return _approx(a, b)


# ------------------------------------------------------------------ the property, evaluated on the implementation
def _tokens_of_part(p):
    """Flatten one part to (measure index, token) in document order, with _repair_empty_measure's effect on the
    measure's length bookkeeping made explicit (a forward-only measure is a whole-measure rest)."""
    out = []
    for mi, m in enumerate(p['measures']):
        for e in m:
            if e[0] == 'attr':
                for it in e[1]:
                    out.append((mi, list(it)))
            else:
                out.append((mi, list(e)))
    return out


def _initial_tempo(part):
    """Tempo in force at time 0 of a part: the last mark before anything moves the cursor, else 120."""
    q = F(120)
    for _, t in _tokens_of_part(part):
        if t[0] == 'tempo':
            q = F(t[1]) if F(t[1]) != 0 else F(120)
        elif t[0] in ('note', 'backup', 'forward'):
            break
    return q


def _last_tempo(parts, default):
    q = default
    for p in parts:
        for _, t in _tokens_of_part(p):
            if t[0] == 'tempo':
                q = F(t[1]) if F(t[1]) != 0 else F(120)
    return q


def leak_free(score):
    """The exclusion hypothesis of C05_mxl_cursor (Coq: leak_free): at every later part's opening the parser's tempo
    state equals the tempo in force at time 0 of the first part."""
    ps = score['parts']
    if len(ps) <= 1:
        return True
    q0 = _initial_tempo(ps[0])
    return all(_last_tempo(ps[:k], F(120)) == q0 for k in range(1, len(ps)))


def leak_free_end(score):
    """Coq: leak_free_end — the same at the end of the document (default tempo entry)."""
    ps = score['parts']
    return not ps or _last_tempo(ps, F(120)) == _initial_tempo(ps[0])


def _expected_part(score, k, q0):
    """Declarative cursor arithmetic for part k started at tempo q0: onset of element i is the sum over earlier
    elements j of sign_j * dur_j / divisions-in-force_j * 60 / tempo-in-force_j."""
    toks = _tokens_of_part(score['parts'][k])
    # divisions in force before the part: the most recent <divisions> of the document (every generated part declares its own)
    d = 1
    for p in score['parts'][:k]:
        for _, t in _tokens_of_part(p):
            if t[0] == 'div':
                d = t[1]
    q = q0
    div_at, qpm_at = [], []
    for _, t in toks:
        div_at.append(d)
        qpm_at.append(q)
        if t[0] == 'div':
            d = t[1]
        elif t[0] == 'tempo':
            q = F(t[1]) if F(t[1]) != 0 else F(120)
    def secs(i, dur):
        return F(dur, div_at[i]) * 60 / qpm_at[i]
    delta = []
    for i, (_, t) in enumerate(toks):
        if t[0] == 'note' and not t[2]:
            delta.append(secs(i, t[6]))
        elif t[0] == 'forward':
            delta.append(secs(i, t[1]))
        elif t[0] == 'backup':
            delta.append(-secs(i, t[1]))
        else:
            delta.append(F(0))
    onset = [F(0)] + list(itertools.accumulate(delta))      # onset[i] = sum(delta[:i])
    notes, tempos, keys, times, chords = [], [], [], [], []
    transpose = 0
    head = None                       # (onset, dur) of the chord's first member
    per_measure_key = {}
    for i, (mi, t) in enumerate(toks):
        if t[0] == 'transpose':
            transpose = t[1]
            if mi in per_measure_key:
                per_measure_key[mi][3] += t[1]
                # spelling of the sounding key (only used to tell enharmonic duplicates apart when de-duplicating)
                e = per_measure_key[mi][4] + (-5 * t[1]) % 12
                per_measure_key[mi][4] = e - 12 if e > 6 else e
        elif t[0] == 'key':
            per_measure_key[mi] = [onset[i], t[1], 1 if t[2] == 2 else 0, 0, t[1]]
        elif t[0] == 'time':
            times.append([onset[i], t[1], t[2]])
        elif t[0] == 'tempo':
            tempos.append([onset[i], F(t[1]) if F(t[1]) != 0 else F(120)])
        elif t[0] == 'harmony':
            _, root, kind, degs, bass, offset = t
            chords.append([onset[i] + (secs(i, offset) if offset is not None else 0), _figure(root, kind, degs, bass)])
        elif t[0] == 'note':
            _, rest, chord, step, alter, octave, dur, voice = t[:8]
            if chord and head is not None:
                on, du = head
            else:
                on, du = onset[i], dur
                head = (on, du)
            if not rest:
                pitch = 12 * (octave + 1) + STEP_PC[step] + alter + transpose
                st = max(on, F(0))
                notes.append({'part': k, 'voice': voice, 'pitch': pitch, 'start': st, 'end': st + secs(i, du),
                              'spelling': [step, alter, octave, transpose]})
    for mi in sorted(per_measure_key):
        on, f, mode, chrom, spelled = per_measure_key[mi]
        keys.append([on, (7 * f + chrom) % 12, mode, f, chrom, spelled])
    return {'notes': notes, 'tempos': tempos, 'keys': keys, 'times': times, 'chords': chords, 'end': sum(delta, F(0))}


_ALT = {None: '', -2: 'bb', -1: 'b', 0: '', 1: '#', 2: '##'}


def _figure(root, kind, degs, bass):
    """Lead-sheet figure of a <harmony>: root ++ kind abbreviation ++ '(degree)'* ++ '/bass' (N.C. for kind none)."""
    from note_seq import musicxml_parser
    k = '' if kind == -1 else list(musicxml_parser.ChordSymbol.CHORD_KIND_ABBREVIATIONS.values())[kind]
    if k == 'N.C.':
        return k
    fig = STEPS[root[0]] + _ALT[root[1]] + k
    for v, a, ty in degs:
        if ty == 0:
            fig += '(%s%s%d)' % ('' if _ALT[a] else 'add', _ALT[a], v)
        elif ty == 1:
            fig += '(no%d)' % v
        else:
            fig += '(%s%d)' % (_ALT[a], v)
    if bass is not None:
        fig += '/' + STEPS[bass[0]] + _ALT[bass[1]]
    return fig


def _measures_complete(score):
    """Every measure is exactly as long as the time signature in force says (voice 1, non-chord notes and rests;
    a forward-only measure counts through the whole-measure rest the parser substitutes) and a beat is a whole
    number of divisions."""
    d, sig = 1, None
    for p in score['parts']:
        for m in p['measures']:
            toks = []
            for e in m:
                toks.extend([list(it) for it in e[1]] if e[0] == 'attr' else [list(e)])
            nnotes = sum(1 for t in toks if t[0] == 'note')
            fw = [t for t in toks if t[0] == 'forward']
            total = 0
            ntime = 0
            for t in toks:
                if t[0] == 'div':
                    d = t[1]
                elif t[0] == 'time':
                    sig = (t[1], t[2]); ntime += 1
                elif t[0] == 'note' and t[7] == 1 and not t[2]:
                    total += t[6]
            if nnotes == 0 and len(fw) == 1:
                total += fw[0][1]
            if sig is None or ntime > 1 or sig[1] <= 0 or (4 * d) % sig[1] != 0 or total * sig[1] != sig[0] * 4 * d:
                return False
    return True


def _dedup(xs):
    out = []
    for x in xs:
        if x not in out:
            out.append(x)
    return out


def _same_times(exp, got):
    """bag comparison of [time, ints...] lists, time within tolerance."""
    got = list(got)
    for e in exp:
        hit = None
        for g in got:
            if list(g[1:]) == [int(v) for v in e[1:]] and _close(float(e[0]), float(g[0])):
                hit = g; break
        if hit is None:
            return False
        got.remove(hit)
    return not got


def _note_mismatch(exp_notes, got_notes):
    exp = sorted(exp_notes, key=lambda n: (n['part'], n['voice'], n['pitch'], n['start'], n['end']))
    got = sorted(got_notes, key=lambda x: (x[0], x[1], x[4], round(x[5], 6), round(x[6], 6)))
    for e, g in zip(exp, got):
        if not (_close(float(e['start']), g[5]) and _close(float(e['end']), g[6])):
            return e, g
    return None


def oracle(case, io):
    score = case['input']
    if case.get('op') == 'malformed':
        # rejection clause: only the documented error may escape for the documented malformations
        want = case.get('expect')
        if want and io != ['EXC', want]:
            return {'kind': 'malformed-score-not-rejected-as-documented', 'expect': want, 'got': io[:2]}
        return None
    if io[0] == 'MXL-DIFFERS':
        return {'kind': 'mxl-differs-from-xml'}
    if io[0] != 'OK':
        return {'kind': 'well-formed-score-rejected', 'exception': io[1] if len(io) > 1 else '?'}
    _, tsigs, ksigs, tempos, notes, total, chords = io
    parts = score['parts']
    q_first = _initial_tempo(parts[0]) if parts else F(120)
    exp = [_expected_part(score, k, F(120) if k == 0 else q_first) for k in range(len(parts))]
    state = [_expected_part(score, k, _last_tempo(parts[:k], F(120))) for k in range(len(parts))]

    # --- notes: one per pitched <note>; pitch; voice / part / channel / program
    exp_notes = [n for e in exp for n in e['notes']]
    if len(notes) != len(exp_notes):
        return {'kind': 'note-count-wrong', 'expected': len(exp_notes), 'got': len(notes)}
    from note_seq import musicxml_parser as mp
    for k, p in enumerate(parts):
        c, g = p['midi'] if p.get('midi') else (mp.DEFAULT_MIDI_CHANNEL, mp.DEFAULT_MIDI_PROGRAM)
        for n in notes:
            if n[0] == k and (n[2] != c or n[3] != g):
                return {'kind': 'channel-or-program-wrong', 'part': k, 'expected': [c, g], 'got': n[2:4]}
    got_pp = sorted((n[0], n[4]) for n in notes)
    exp_pp = sorted((n['part'], n['pitch']) for n in exp_notes)
    if got_pp != exp_pp:
        # name the spelling that went wrong
        for e in sorted(exp_notes, key=lambda n: (n['part'], n['pitch'])):
            if (e['part'], e['pitch']) not in got_pp:
                st, al, oc, tr = e['spelling']
                extra = sorted(set(g[1] for g in got_pp if g[0] == e['part']) - set(x[1] for x in exp_pp if x[0] == e['part']))
                return {'kind': 'pitch-wrong', 'step': STEPS[st], 'alter': al, 'octave': oc, 'transpose': tr,
                        'expected': e['pitch'], 'got_unexpected_pitches': extra[:4], 'part': e['part']}
        return {'kind': 'pitch-wrong'}
    if sorted((n[0], n[1], n[4]) for n in notes) != sorted((n['part'], n['voice'], n['pitch']) for n in exp_notes):
        return {'kind': 'voice-wrong', 'expected': sorted(set(n['voice'] for n in exp_notes)),
                'got': sorted(set(n[1] for n in notes))}
    # --- onsets and durations at the tempo in force
    leak = None
    bad = _note_mismatch(exp_notes, notes)
    if bad is not None:
        e, g = bad
        st_notes = [n for s in state for n in s['notes']]
        if e['part'] > 0 and not leak_free(score) and _note_mismatch(st_notes, notes) is None:
            leak = {'kind': 'tempo-state-leaks-across-parts', 'what': 'note-times', 'part': e['part'],
                    'expected': [float(e['start']), float(e['end'])], 'got': [g[5], g[6]]}
        else:
            return {'kind': 'note-time-wrong', 'part': e['part'], 'voice': e['voice'], 'pitch': e['pitch'],
                'expected': [float(e['start']), float(e['end'])], 'got': [g[5], g[6]]}
    # --- tempo marks (the reader reports the first part's), at the times they occur; 120 when there is none
    exp_t = [[t, q] for t, q in exp[0]['tempos']] if parts else []
    if exp_t:
        if not (len(tempos) == len(exp_t) and all(_close(float(a[0]), b[0]) and _close(float(a[1]), b[1])
                                                  for a, b in zip(exp_t, tempos))):
            return {'kind': 'tempo-marks-wrong', 'expected': [[float(a), float(b)] for a, b in exp_t], 'got': tempos}
    else:
        if not (len(tempos) == 1 and _close(tempos[0][0], 0.0) and _close(tempos[0][1], 120.0)):
            if len(tempos) == 1 and _close(tempos[0][0], 0.0) and not leak_free_end(score) and \
                    _close(tempos[0][1], float(_last_tempo(parts, F(120)))):
                leak = leak or {'kind': 'tempo-state-leaks-across-parts', 'what': 'default-tempo', 'part': 0,
                                'expected': [[0.0, 120.0]], 'got': tempos}
            else:
                return {'kind': 'tempo-marks-wrong', 'expected': [[0.0, 120.0]], 'got': tempos}
    # --- key signatures: tonic from <fifths> (sounding key when <transpose> follows in the measure), mode from <mode>
    # (times taken under the parser-state reading so that a tempo leak is reported once, as such)
    exp_k = [x[:3] for x in _dedup([[x[0], x[1], x[2], x[5]] for s in state for x in s['keys']])] or [[F(0), 0, 0]]
    if not case.get('exact'):
        exp_k, ksigs_c = _merge_noise([[float(a), b, c] for a, b, c in exp_k]), _merge_noise(ksigs)
    else:
        ksigs_c = ksigs
    if not _same_times(exp_k, ksigs_c):
        for s in state:
            for on, pc, mode, f, chrom, _sp in s['keys']:
                if not any(_close(float(on), g[0]) and g[1] == pc and g[2] == mode for g in ksigs):
                    near = [g for g in ksigs if _close(float(on), g[0])]
                    if near and all(g[1] == pc for g in near) and mode == 1:
                        return {'kind': 'minor-key-reported-major', 'fifths': f, 'got': near[0][1:]}
                    if near and chrom:
                        return {'kind': 'transposed-key-wrong', 'fifths': f, 'chromatic': chrom,
                                'expected_key': pc, 'got': near[0][1:]}
                    return {'kind': 'key-signature-wrong', 'fifths': f, 'expected': [float(on), pc, mode], 'got': ksigs}
        return {'kind': 'key-signature-wrong', 'expected': [[float(a), b, c] for a, b, c in exp_k], 'got': ksigs}
    # --- declared time signatures at their measure starts, for complete measures
    if _measures_complete(score):
        exp_s = _dedup([[x[0], x[1], x[2]] for s in state for x in s['times']])
        tsigs_c = tsigs
        if not case.get('exact'):
            exp_s, tsigs_c = _merge_noise([[float(a), b, c] for a, b, c in exp_s]), _merge_noise(tsigs)
        if not _same_times(exp_s, tsigs_c):
            return {'kind': 'time-signature-wrong', 'expected': [[float(a), b, c] for a, b, c in exp_s], 'got': tsigs}
    # --- chord symbols (root, kind, degrees, bass) at the times they occur
    from note_seq import musicxml_reader
    exp_c = [[t, f, int(musicxml_reader.CHORD_SYMBOL)] for s_ in state for t, f in s_['chords']]
    got_c = list(chords)
    for t, f, ty in exp_c:
        hit = next((g for g in got_c if g[1] == f and g[2] == ty and _close(float(t), g[0])), None)
        if hit is None:
            return {'kind': 'chord-symbol-wrong', 'expected': [float(t), f], 'got': chords[:6]}
        got_c.remove(hit)
    if got_c:
        return {'kind': 'chord-symbol-wrong', 'unexpected': got_c[:6]}
    return leak


def nontrivial(case, io):
    return case.get('op') != 'malformed' and io[0] == 'OK' and (len(io[4]) >= 2 or case.get('op', '').startswith('sweep'))


# ------------------------------------------------------------------ generator
def _n(step, alter, octave, dur, voice=1, ty=5, dots=0, ta=0, tn=0, rest=False, chord=False):
    return ['note', bool(rest), bool(chord), step, alter, octave, dur, voice, ty, dots, ta, tn]


# quarters -> (type index, dots, tuplet actual, tuplet normal)
_SHAPES = {F(8): (2, 0, 0, 0), F(4): (3, 0, 0, 0), F(2): (4, 0, 0, 0), F(1): (5, 0, 0, 0), F(1, 2): (6, 0, 0, 0),
           F(1, 4): (7, 0, 0, 0), F(1, 8): (8, 0, 0, 0), F(1, 16): (9, 0, 0, 0),
           F(6): (3, 1, 0, 0), F(3): (4, 1, 0, 0), F(3, 2): (5, 1, 0, 0), F(3, 4): (6, 1, 0, 0), F(3, 8): (7, 1, 0, 0),
           F(7, 2): (4, 2, 0, 0), F(7, 4): (5, 2, 0, 0), F(7, 8): (6, 2, 0, 0),
           F(4, 3): (4, 0, 3, 2), F(2, 3): (5, 0, 3, 2), F(1, 3): (6, 0, 3, 2), F(1, 6): (7, 0, 3, 2),
           F(2, 5): (6, 0, 5, 2), F(1, 5): (7, 0, 5, 4), F(4, 5): (5, 0, 5, 4)}


def _shape(dur, div, rng):
    s = _SHAPES.get(F(dur, div))
    if s is None:
        return (rng.choice([3, 4, 5, 6, 7]), rng.choice([0, 0, 1]), 0, 0)
    return s


def _split(total, div, rng):
    """random rhythm: positive integers summing to total, favouring notated values."""
    out = []
    left = total
    menu = sorted(set(int(q * div) for q in _SHAPES if (q * div).denominator == 1 and q * div >= 1))
    while left > 0:
        opts = [m for m in menu if m <= left]
        r = rng.random()
        if opts and r < 0.8:
            d = rng.choice(opts[-6:] if rng.random() < 0.5 else opts)
            if div % 3 == 0 and rng.random() < 0.25 and 3 * d <= left and F(d, div) in (F(2, 3), F(1, 3), F(1, 6), F(4, 3)):
                out += [d, d]
                left -= 2 * d
        else:
            d = rng.randint(1, left)
        out.append(d)
        left -= d
    return out


def _pitch(rng):
    r = rng.random()
    if r < 0.12:       # the spellings that cross an octave boundary
        return rng.choice([(0, -1, rng.randint(1, 8)), (6, 1, rng.randint(0, 7)), (0, -2, rng.randint(1, 8)),
                           (6, 2, rng.randint(0, 7)), (3, -1, 4), (2, 1, 4)])
    return (rng.randint(0, 6), rng.choice([0, 0, 0, 1, -1, 2, -2]), rng.randint(0, 9))


def _harmony(rng, div):
    nk = len(_kind_names())
    alt = lambda: rng.choice([None, None, 0, 1, -1, 2, -2])
    kind = rng.choice([-1] + list(range(nk)) * 2)
    degs = []
    for _ in range(rng.choice([0, 0, 0, 1, 1, 2])):
        ty = rng.choice([0, 0, 1, 2])
        a = rng.choice([1, -1, 2, -2]) if ty == 2 else alt()
        degs.append([rng.choice([2, 4, 5, 6, 7, 9, 11, 13]), a, ty])
    bass = [rng.randint(0, 6), alt()] if rng.random() < 0.3 else None
    offset = rng.choice([1, div, 2 * div, -1]) if rng.random() < 0.2 else None
    return ['harmony', [rng.randint(0, 6), alt()], kind, degs, bass, offset]


def _voice(total, div, voice, rng, p_rest=0.15, p_chord=0.25, forwards=False, p_harmony=0.0):
    els = []
    for d in _split(total, div, rng):
        ty, dots, ta, tn = _shape(d, div, rng)
        if rng.random() < p_harmony:
            els.append(_harmony(rng, div))
        if forwards and rng.random() < 0.2:
            els.append(['forward', d]); continue
        if rng.random() < p_rest:
            els.append(_n(0, 0, 0, d, voice, ty, dots, ta, tn, rest=True)); continue
        st, al, oc = _pitch(rng)
        els.append(_n(st, al, oc, d, voice, ty, dots, ta, tn))
        if rng.random() < p_chord:
            for _ in range(rng.randint(1, 2)):
                st2, al2, oc2 = _pitch(rng)
                # Sibelius rule: the written duration of a chord member is occasionally different
                d2 = d if rng.random() < 0.85 else rng.randint(1, max(1, 2 * d))
                els.append(_n(st2, al2, oc2, d2, voice, ty, dots, ta, tn, chord=True))
    return els


_TEMPOS = ['120', '60', '90', '72.5', '100', '144', '48', '132', '200', '80', '66.6', '30', '240']
_DYADIC_T = ['120', '60', '240', '30', '480', '15']


def _meter(div, rng):
    opts = [(b, bt) for bt in (2, 4, 8) for b in (1, 2, 3, 4, 5, 6, 7, 9, 12) if (4 * div) % bt == 0]
    return rng.choice(opts)


def gen_score(rng, nparts=None, dyadic=False):
    nparts = nparts or rng.choice([1, 1, 1, 2, 2, 3])
    nmeas = rng.randint(1, 6)
    divs_pool = [1, 2, 4, 8, 16] if dyadic else DIVS
    tpool = _DYADIC_T if dyadic else _TEMPOS
    # shared plan: meter and tempo per measure
    div0 = rng.choice(divs_pool)
    meters = []
    cur = None
    for j in range(nmeas):
        if cur is None or rng.random() < 0.25:
            # every part's divisions must give an integral beat: choose meters compatible with all candidate divisions later
            cur = rng.choice([(b, bt) for bt in (2, 4, 8) for b in (1, 2, 3, 4, 5, 6, 7, 9, 12)])
            meters.append((cur, True))
        else:
            meters.append((cur, False))
    scheme = rng.choice(['none', 'start', 'start', 'all-same', 'all-same', 'first-only', 'later-only', 'free']) \
        if nparts > 1 else rng.choice(['none', 'start', 'free', 'free'])
    marks = {}
    if scheme in ('all-same', 'first-only', 'later-only'):
        for j in range(nmeas):
            if (j == 0 and rng.random() < 0.7) or (j > 0 and rng.random() < 0.35):
                marks[j] = rng.choice(tpool)
    parts = []
    for k in range(nparts):
        def ok_div(dv):
            return all((4 * dv) % bt == 0 for ((_, bt), _) in meters)
        cands = [dv for dv in divs_pool if ok_div(dv)]
        div = div0 if ok_div(div0) and rng.random() < 0.6 else rng.choice(cands)
        transposing = rng.random() < 0.3
        lead_sheet = (not transposing) and rng.random() < 0.35
        chrom = rng.choice([-2, -9, -3, 2, -12, 3, -14, 5, -7, 1]) if transposing else 0
        midi = [rng.randint(1, 16), rng.randint(1, 128)] if rng.random() < 0.7 else None
        measures = []
        for j in range(nmeas):
            (b, bt), declare = meters[j]
            els = []
            items = []
            if j == 0 or rng.random() < 0.1:
                if j > 0 and rng.random() < 0.5:
                    div = rng.choice(cands)
                items.append(['div', div])
            if (j == 0 and rng.random() < 0.85) or (j > 0 and rng.random() < 0.2):
                items.append(['key', rng.randint(-7, 7), rng.choice([0, 1, 1, 2, 2, 3])])
            if declare or (j == 0):
                items.append(['time', b, bt])
            if (j == 0 and transposing) or (j > 0 and transposing and rng.random() < 0.08):
                if j > 0:
                    chrom = rng.choice([-2, -9, 0, 2, -3])
                items.append(['transpose', chrom])
            # tempo before or after the attributes
            tm = None
            if scheme == 'start' and j == 0 and k == 0:
                tm = rng.choice(tpool)
            elif scheme == 'all-same' and j in marks:
                tm = marks[j]
            elif scheme == 'first-only' and j in marks and k == 0:
                tm = marks[j]
            elif scheme == 'later-only' and j in marks and k == nparts - 1:
                tm = marks[j]
            elif scheme == 'free' and rng.random() < 0.3:
                tm = rng.choice(tpool)
            if tm is not None and rng.random() < 0.3:
                els.append(['tempo', tm]); tm = None
            if items:
                els.append(['attr', items])
            if tm is not None:
                els.append(['tempo', tm])
            full = b * 4 * div // bt
            r = rng.random()
            if r < 0.06 and nmeas > 1:
                # forward-only measure (repaired into a whole-measure rest)
                els.append(['forward', full])
            elif r < 0.12:
                # pickup / overfull measure: exercises _fix_time_signature
                n = max(1, full + rng.choice([-1, 1]) * rng.randint(1, max(1, full // 2)))
                els += _voice(n, div, 1, rng)
            else:
                v1 = _voice(full, div, 1, rng, p_harmony=(0.25 if lead_sheet else 0.0))
                if scheme == 'free' and nparts == 1 and len(v1) > 2 and rng.random() < 0.25:
                    v1.insert(rng.randint(1, len(v1) - 1), ['tempo', rng.choice(tpool)])
                    # a mark between a chord's members would separate them from their head: move it before the head
                    i = next(i for i, e in enumerate(v1) if e[0] == 'tempo')
                    while i + 1 < len(v1) and v1[i + 1][0] == 'note' and v1[i + 1][2]:
                        v1[i], v1[i + 1] = v1[i + 1], v1[i]; i += 1
                els += v1
                if rng.random() < 0.3:
                    els.append(['backup', full])
                    els += _voice(full, div, 2, rng, p_chord=0.1, forwards=True)
            measures.append(els)
        parts.append({'midi': midi, 'measures': measures})
    return {'parts': parts}


def _malformed(rng):
    base = gen_score(rng, nparts=1)
    m = base['parts'][0]['measures'][0]
    kind = rng.choice(['two-times', 'bad-step', 'bad-type', 'chord-first', 'harmony', 'harmony'])
    if kind == 'harmony':
        bad = rng.choice([
            ['harmony', [0, None], -2, [], None, None],                   # unknown kind
            ['harmony', [0, 3], 0, [], None, None],                       # alter out of range
            ['harmony', [0, None], 0, [[5, None, 2]], None, None],        # alteration by zero semitones
            ['harmony', [0, None], 0, [[5, 1, 3]], None, None],           # invalid degree type
            ['harmony', None, 0, [], None, None],                         # no root
            ['harmony', [0, None], 0, [], [1, -3], None],                 # bass alter out of range
        ])
        m.append(bad)
        return {'op': 'malformed', 'input': base, 'expect': 'MusicXMLConversionError'}
    if kind == 'two-times':
        m.append(['attr', [['time', 3, 4]]])
        return {'op': 'malformed', 'input': base, 'expect': 'MusicXMLConversionError'}
    if kind == 'bad-step':
        m.append(_n(7, 0, 4, 1))
        return {'op': 'malformed', 'input': base, 'expect': 'MusicXMLConversionError'}
    if kind == 'bad-type':
        m.append(_n(0, 0, 4, 1, ty=99))
        return {'op': 'malformed', 'input': base, 'expect': 'MusicXMLConversionError'}
    sc = {'parts': [{'midi': None, 'measures': [[['attr', [['div', 1], ['time', 1, 4]]], _n(0, 0, 4, 1, chord=True)]]}]}
    return {'op': 'malformed', 'input': sc, 'expect': None}


_STATS = {}


def _sweeps(tier):
    """Exhaustive small scopes: every spelling, every (fifths, mode, chromatic residue)."""
    A = lambda *items: ['attr', [list(i) for i in items]]
    out = []
    transposes = [0, -2] if tier != 'thorough' else [0, -2, -9, 3, 12, -14]
    for tr in transposes:
        for alter in (-2, -1, 0, 1, 2):
            notes = [_n(st, alter, oc, 1) for oc in range(10) for st in range(7)]
            items = [['div', 1], ['time', 70, 4]] + ([['transpose', tr]] if tr else [])
            out.append({'op': 'sweep-pitch', 'exact': True,
                        'input': {'parts': [{'midi': None, 'measures': [[A(*items)] + notes]}]}})
    chroms = range(-11, 1) if tier != 'thorough' else range(-14, 15)
    modes = (1, 2) if tier != 'thorough' else (0, 1, 2, 3)
    for f in range(-7, 8):
        for mode in modes:
            for c in chroms:
                if tier != 'thorough' and mode == 2 and c % 3:
                    continue
                out.append({'op': 'sweep-key', 'exact': True, 'input': {'parts': [{'midi': None, 'measures': [
                    [A(['div', 1], ['key', f, mode], ['time', 1, 4], ['transpose', c]), _n(0, 0, 4, 1)]]}]}})
            out.append({'op': 'sweep-key', 'exact': True, 'input': {'parts': [{'midi': None, 'measures': [
                [A(['div', 1], ['key', f, mode], ['time', 1, 4]), _n(0, 0, 4, 1)]]}]}})
    return out


def cases(rng, tier, n=None):
    total = n if n is not None else (1000 if tier != 'thorough' else 20000)
    out = _sweeps(tier) if n is None else []
    for i in range(total):
        r = rng.random()
        if r < 0.05:
            out.append(_malformed(rng))
        elif r < 0.25:
            out.append({'op': 'score-dyadic', 'input': gen_score(rng, dyadic=True), 'exact': True})
        else:
            out.append({'op': 'score', 'input': gen_score(rng)})
    import collections
    c = collections.Counter()
    for case in out:
        ps = case['input']['parts']
        c['parts=%d' % len(ps)] += 1
        c['leak_free' if leak_free(case['input']) else 'outside_leak_free'] += 1
        for p in ps:
            for _, t in _tokens_of_part(p):
                c['tok:' + t[0]] += 1
                if t[0] == 'note':
                    c['note:chord'] += bool(t[2]); c['note:rest'] += bool(t[1]); c['note:voice2'] += t[7] == 2
                    c['note:tuplet'] += bool(t[10]); c['note:dotted'] += bool(t[9])
                    c['note:octave-crossing-spelling'] += (t[3], t[4]) in ((0, -1), (0, -2), (6, 1), (6, 2))
                elif t[0] == 'key':
                    c['key:minor'] += t[2] == 2
    _STATS['input_distribution'] = dict(sorted(c.items()))
    return out


def extra_evidence():
    return dict(_STATS)


def corpus():
    A = lambda *items: ['attr', [list(i) for i in items]]
    one = lambda els, midi=None: {'parts': [{'midi': midi, 'measures': [els]}]}
    out = []
    # F11: minor key
    out.append({'op': 'score', 'input': one([A(['div', 1], ['key', 0, 2], ['time', 2, 4]), _n(5, 0, 4, 1), _n(0, 0, 5, 1)])})
    # F12: C-flat-4, B-sharp-3, and every step x alter at octave 4
    out.append({'op': 'score', 'input': one([A(['div', 1], ['time', 2, 4]), _n(0, -1, 4, 1), _n(6, 1, 3, 1)])})
    out.append({'op': 'score', 'exact': True, 'input': one(
        [A(['div', 1], ['time', 35, 4])] + [_n(s, a, 4, 1) for s in range(7) for a in (-2, -1, 0, 1, 2)])})
    # F20: C-sharp major written, sounding a tone lower
    out.append({'op': 'score', 'input': one([A(['div', 1], ['key', 7, 1], ['time', 2, 4], ['transpose', -2]),
                                             _n(0, 0, 4, 1), _n(1, 0, 4, 1)])})
    out.append({'op': 'score', 'input': one([A(['div', 4], ['key', -3, 1], ['time', 4, 4], ['transpose', -9]),
                                             _n(4, 0, 4, 8), _n(4, 0, 4, 8)])})
    # F21: tempo change in part 0, second part without marks
    out.append({'op': 'score', 'exact': True, 'input': {'parts': [
        {'midi': None, 'measures': [[A(['div', 1], ['time', 2, 4]), _n(0, 0, 4, 1), ['tempo', '60'], _n(0, 0, 4, 1)]]},
        {'midi': None, 'measures': [[A(['div', 1], ['time', 2, 4]), _n(2, 0, 4, 1), _n(2, 0, 4, 1)]]}]}})
    # only the later part carries a mark
    out.append({'op': 'score', 'exact': True, 'input': {'parts': [
        {'midi': None, 'measures': [[A(['div', 1], ['time', 2, 4]), _n(0, 0, 4, 1), _n(0, 0, 4, 1)]]},
        {'midi': None, 'measures': [[['tempo', '60'], A(['div', 1], ['time', 2, 4]), _n(2, 0, 4, 1), _n(2, 0, 4, 1)]]}]}})
    # two voices, chord, backup/forward, dotted + triplets, tempo 0 -> default
    out.append({'op': 'score', 'input': one(
        [['tempo', '0'], A(['div', 6], ['key', -2, 1], ['time', 4, 4]),
         _n(0, 0, 4, 9, 1, 5, 1), _n(2, 0, 4, 9, 1, 5, 1, chord=True), _n(4, 0, 4, 3, 1, 6),
         _n(0, 0, 5, 4, 1, 5, 0, 3, 2), _n(1, 0, 5, 4, 1, 5, 0, 3, 2), _n(2, 0, 5, 4, 1, 5, 0, 3, 2),
         ['backup', 24], ['forward', 12], _n(0, 0, 3, 12, 2, 4)], midi=[2, 41])})
    # chord symbols: every documented degree rule, bass, offset, N.C., kind absent
    kn = _kind_names()
    out.append({'op': 'score', 'input': one(
        [A(['div', 2], ['time', 4, 4]),
         ['harmony', [0, 1], kn.index('minor-seventh'), [[9, None, 0], [5, -1, 2], [3, None, 1], [11, 1, 0]], [4, -1], None],
         _n(0, 0, 4, 4, 1, 4),
         ['harmony', None, kn.index('none'), [], None, None], _n(0, 0, 4, 2),
         ['harmony', [6, -2], -1, [], None, 1], _n(0, 0, 4, 2)])})
    out.append({'op': 'malformed', 'expect': 'MusicXMLConversionError', 'input': one(
        [A(['div', 1], ['time', 1, 4], ['transpose', -2]), ['harmony', [0, None], 0, [], None, None], _n(0, 0, 4, 1)])})
    # forward-only measure, pickup measure, no time signature at all, empty score
    out.append({'op': 'score', 'input': {'parts': [{'midi': None, 'measures': [
        [A(['div', 2], ['time', 3, 4]), _n(0, 0, 4, 6, 1, 4, 1)], [['forward', 6]], [_n(0, 0, 4, 2)], [_n(0, 0, 4, 6, 1, 4, 1)]]}]}})
    out.append({'op': 'score', 'input': one([A(['div', 2]), _n(0, 0, 4, 3), _n(0, 0, 4, 2)])})
    out.append({'op': 'score', 'input': {'parts': []}})
    out.append({'op': 'score', 'input': one([A(['div', 1], ['time', 1, 4]), ['backup', 3], _n(0, 0, 4, 1), _n(0, 0, 4, 1)])})
    # malformed
    out.append({'op': 'malformed', 'expect': 'MusicXMLConversionError',
                'input': one([A(['div', 1], ['time', 4, 4]), A(['time', 3, 4]), _n(0, 0, 4, 1)])})
    out.append({'op': 'malformed', 'expect': 'MusicXMLConversionError', 'input': one([A(['div', 1], ['time', 1, 4]), _n(7, 0, 4, 1)])})
    out.append({'op': 'malformed', 'expect': 'MusicXMLConversionError', 'input': one([A(['div', 1], ['time', 1, 4]), _n(0, 0, 4, 1, ty=99)])})
    out.append({'op': 'malformed', 'expect': None, 'input': one([A(['div', 1], ['time', 1, 4]), _n(0, 0, 4, 1, chord=True)])})
    return out


# ------------------------------------------------------------------ shrinking
def shrink(case):
    import copy
    sc = case['input']
    ps = sc['parts']
    def mk(new):
        c = dict(case); c['input'] = new; return c
    for k in range(len(ps)):
        if len(ps) > 1:
            yield mk({'parts': ps[:k] + ps[k + 1:]})
    for k, p in enumerate(ps):
        ms = p['measures']
        for j in range(len(ms) - 1, 0, -1):
            new = copy.deepcopy(sc); del new['parts'][k]['measures'][j]; yield mk(new)
        for j, m in enumerate(ms):
            for i in range(len(m) - 1, -1, -1):
                if m[i][0] == 'attr' and any(it[0] == 'div' for it in m[i][1]):
                    continue
                new = copy.deepcopy(sc); del new['parts'][k]['measures'][j][i]; yield mk(new)
            for i, e in enumerate(m):
                if e[0] == 'attr' and len(e[1]) > 1:
                    for t in range(len(e[1])):
                        if e[1][t][0] == 'div':
                            continue
                        new = copy.deepcopy(sc); del new['parts'][k]['measures'][j][i][1][t]; yield mk(new)
        if p.get('midi'):
            new = copy.deepcopy(sc); new['parts'][k]['midi'] = None; yield mk(new)


META = {
    'level_text': ('Theorems about an executable Gallina model of the whole parser state machine (one fold over the '
                   'document-order token stream of an abstract score), for ALL abstract scores: MIDI pitch formula for every '
                   'step / alter / octave / transposition; every onset is the signed sum of the earlier cursor-moving durations '
                   'of its part divided by the divisions in force times 60/tempo in force, chord members share the first '
                   'member\'s onset and duration, each part restarts at 0; key = table(fifths) or the sounding key after '
                   '<transpose>, mode from <mode>; tempo marks at cursor time; declared time signatures at their cursor times '
                   'when every measure is complete. The model is tied to the real reader by a differential run on generated '
                   'scores serialised to .xml and .mxl.'),
    'level_note': ('Trusted: Coq kernel; hand-written model Model/MusicXml.v (tied by correspondence only); the XML serialiser; '
                   'xml.etree / zipfile exercised, not modelled; times exact rationals vs binary64 at 1e-9. Tempo state leaking '
                   'across parts (F21) is kept in the model; the cursor/tempo theorems for multi-part scores carry the '
                   'explicit hypothesis leak_free and have a refuted witness without it. The chord-symbol figure is a model function '
                   '(harmony_figure) tied by correspondence, its time (cursor + offset) is a theorem.'),
}
